"""Bounded character- and token-level mutation search over the real assembler (run under /venv/bin/python; C08's bounded stand-in for
'every input ends in a result or a reported error').  usage: mutsearch.py <tree> <shard> <nshards> <tier> <seed>
Prints one JSON object: {"runs": n, "classes": {signature: [count, shortest source]}}.

Outcome of one source text: 'ok' | 'fail' (UnrecoverableError after >= 1 error report) | 'silent-fail' (failure without any error report) |
'crash:<ExceptionType>@<function>' | 'hang@<function>' (no result within the per-run budget; the frame where it was interrupted)."""
import json
import os
import random
import signal
import sys
import tempfile
import traceback

tree, shard, nshards, tier, seed = sys.argv[1], int(sys.argv[2]), int(sys.argv[3]), sys.argv[4], int(sys.argv[5])
sys.path.insert(0, tree)
sys.setrecursionlimit(1000)
from pdpy11 import reports, bk_encoding  # noqa
from pdpy11.parser import parse  # noqa
from pdpy11.compiler import Compiler  # noqa

WORK = tempfile.mkdtemp(prefix="pyvc-mut-")
open(os.path.join(WORK, "inc.mac"), "w").write("incl: .word incl\n")
open(os.path.join(WORK, "blob.bin"), "wb").write(bytes(range(16)))
MAIN = os.path.join(WORK, "main.mac")

SEEDS = [
    "mov #1, r0", "mov @#100, (r1)+", "clr -(sp)", "add 2(r5), @4(r5)", "mov lab, @lab", "jsr pc, lab", "br lab", "sob r1, lab", "emt 12", "mark 3", "ldf (r1)+, ac1",
    "stexp ac0, r3", "mul #3, r2", "xor r1, (r2)", "rts pc", "lab: nop", "1$: br 1$", "x = 5 + <3 * 2>", "y == x - 1", "lab2:: halt", ".word 1, lab, 'a, \"ab", ".byte 1, 377",
    ".dword 123456701", ".ascii \"hi\" <12> \"x\"", ".asciz /text/", ".rad50 \"abc\"", ".blkb 10", ".blkw 2", ".even", ".odd", ".align 4", ".link 2000", ". = . + 4",
    ".repeat 2 { nop }", ".include \"inc.mac\"", "insert_file \"blob.bin\"", "make_raw \"o.raw\"", "make_bin", ".extern all", ".extern x", ".end", ".once", ".error oops",
    ".word ^B101, ^O17, ^D9, ^X1f, ^Rab, ^C5", ".word 10., 0x1f, 0o17, 0b11", ".word x / 2, x % 3, x << 1, x >> 1, x _ 2, x & 1, x ! 2, x ^ 3, -x, ~x, +x",
    "1, 2, 3", "x", ".ident /v1/", ".title t", ".list", ".page", "mov (r0), %1", "clr @(r2)", "tstf ac0", "ldf %2, ac0", "x: .word x", ".word .", "bne .+4",
    ".word <1+2>*3, ^/4/", "a = b\nb = 3", ".repeat x { .byte 1 }", "mov #x, r0\nx = 7", ".word 'a + 1", "halt ; comment", ".ascii \"a\\n\\x41\\101\"",
]
CHARS = list(" \t\n;:=,+-*/%<>()[]{}#@$.^'\"\\&|!~_?`") + ["0", "1", "8", "9", "a", "r", "x", "R", "\x00", "\x7f", "٨", "K", "ı", "é", "\U0001f600", " "]
TOKENS = ["#", "@", "%", "(", ")", "<", ">", "{", "}", ",", ":", "=", "==", "::", ".", "$", "1", "8", "177777", "200000", "-1", "r0", "pc", "ac5", "lab", "x", "nosuch", "1$", "'", "\"", "/",
          "\\", "^X", "^R", "^C", "^", ".word", ".repeat", "+", "-", "_", "<<", "0x", "10.", ".-", "sp", "%8", "^B2", "<0x100000000>", "(r0)", "@#", "-(r1)", "\n"]


def tokens_of(s):
    out, cur = [], ""
    for ch in s:
        if ch.isalnum() or ch in "._$":
            cur += ch
        else:
            if cur:
                out.append(cur); cur = ""
            out.append(ch)
    if cur:
        out.append(cur)
    return out


def mutants():
    rnd = random.Random(seed)
    for si, s in enumerate(SEEDS):
        if si % nshards != shard:
            continue
        yield s
        for pos in range(len(s) + 1):
            yield s[:pos]                                 # truncation (end of file in the middle of a statement)
            for ch in CHARS:
                yield s[:pos] + ch + s[pos:]              # insertion
            if pos < len(s):
                yield s[:pos] + s[pos + 1:]               # deletion
                if tier != "quick":
                    for ch in CHARS[::3]:
                        yield s[:pos] + ch + s[pos + 1:]  # replacement
        toks = tokens_of(s)
        for i in range(len(toks) + 1):
            for t in TOKENS:
                yield "".join(toks[:i]) + t + "".join(toks[i:])                     # token insertion
                if i < len(toks) and toks[i].strip():
                    yield "".join(toks[:i]) + t + "".join(toks[i + 1:])             # token replacement
        for _ in range(30 if tier == "quick" else 300):                              # pairs of seeds, second-order mutants
            a, b = s, rnd.choice(SEEDS)
            p = rnd.randrange(len(a) + 1)
            yield a[:p] + rnd.choice(TOKENS) + a[p:] + "\n" + b
            yield a + "\n" + b[:rnd.randrange(len(b) + 1)] + rnd.choice(CHARS)


class Hang(BaseException):
    pass


BUDGET = 3.0


HUNG = [None]


def on_alarm(signum, frame):
    where = "?"
    f = frame
    while f is not None:
        if "/pdpy11/" in f.f_code.co_filename:
            where = "%s.%s" % (os.path.basename(f.f_code.co_filename)[:-3], f.f_code.co_name)
            break
        f = f.f_back
    HUNG[0] = where
    raise Hang(where)


signal.signal(signal.SIGVTALRM, on_alarm)          # CPU time of this process, not wall-clock time: the verdict must not flip on a busy machine


def hang_class(src, where):
    """a run that exceeds the budget because the source asks for an astronomically large count, fill or shift is resource-bound (not
    decided here); any other run that does not finish is a hang at the interrupted function"""
    import re
    if re.search(r"[0-9]{6,}|0x[0-9a-fA-F]{5,}", src):
        return "resource:budget-exceeded-with-a-huge-literal"
    return "hang@%s" % where


def outcome(src):
    errs = []
    HUNG[0] = None
    signal.setitimer(signal.ITIMER_VIRTUAL, BUDGET)
    try:
        try:
            with reports.handle_reports(lambda p, i, *l: errs.append(i) if p is not reports.warning else None):
                Compiler().compile_and_link_files([parse(MAIN, src + "\n")])
            return "ok"
        except reports.UnrecoverableError:
            return "fail" if errs else "silent-fail"
        except Hang as h:
            return hang_class(src, str(h))
        except RecursionError:
            return hang_class(src, HUNG[0]) if HUNG[0] else "crash:RecursionError"
        except MemoryError:
            return "resource:MemoryError"
        except BaseException as e:  # pylint: disable=broad-except
            if HUNG[0]:
                return hang_class(src, HUNG[0])      # the interrupt surfaced as another exception while unwinding
            tb = traceback.extract_tb(e.__traceback__)
            fr = [f for f in tb if "/pdpy11/" in f.filename]
            where = "%s.%s" % (os.path.basename(fr[-1].filename)[:-3], fr[-1].name) if fr else "?"
            if isinstance(e, ValueError) and "integer string conversion" in str(e):
                return "crash:IntStrLimit@%s" % where        # CPython's 4300-digit guard hit while formatting a diagnostic
            return "crash:%s@%s" % (type(e).__name__, where)
    finally:
        signal.setitimer(signal.ITIMER_VIRTUAL, 0)
        # leave the module-level state of deferred.py / reports.py as a fresh process has it (an interrupted run cannot)
        from pdpy11 import deferred
        deferred.try_compute.depth = 0
        del deferred.Awaiting.awaiting_stack[:]
        del reports.handle_reports.handlers_stack[:]


classes, n, seen = {}, 0, set()
for m in mutants():
    if m in seen:
        continue
    seen.add(m)
    n += 1
    o = outcome(m)
    if o in ("ok", "fail"):
        continue
    c = classes.setdefault(o, [0, m])
    c[0] += 1
    if len(m) < len(c[1]):
        c[1] = m
import shutil
shutil.rmtree(WORK, ignore_errors=True)
print(json.dumps(dict(runs=n, classes=classes)))
