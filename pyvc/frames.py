"""Store-site inventory over the ASTs of the whole package (DESIGN 2.8): which functions write which state.

Regenerated from the tree under verification on every run.  Used by the frame obligations of C16 (nothing cached on the shared
syntax tree except allow-listed fields) and C18 (no module- or class-level state survives an assembly)."""
import ast
import os

MUTATORS = {"append", "pop", "remove", "insert", "extend", "update", "setdefault", "clear", "add", "sort", "reverse", "discard", "popitem", "appendleft"}
MUTABLE_CALLS = {"list", "dict", "set", "defaultdict", "OrderedDict", "deque", "CaseInsensitiveDict", "bytearray"}


def parse_package(pkgdir):
    mods = {}
    for f in sorted(os.listdir(pkgdir)):
        if f.endswith(".py"):
            mods[f[:-3]] = ast.parse(open(os.path.join(pkgdir, f)).read(), filename=f)
    return mods


def is_mutable_expr(node):
    if isinstance(node, (ast.List, ast.Dict, ast.Set, ast.ListComp, ast.DictComp, ast.SetComp)):
        return True
    if isinstance(node, ast.Call):
        f = node.func
        name = f.id if isinstance(f, ast.Name) else f.attr if isinstance(f, ast.Attribute) else None
        if name in MUTABLE_CALLS:
            return True
        if isinstance(f, ast.Attribute) and isinstance(f.value, ast.Name) and f.value.id == "collections":
            return True
        # instances of package classes created at module level are module-level mutable objects too
        if isinstance(f, ast.Name) and f.id[:1].isupper():
            return True
    return False


def root_name(node):
    while isinstance(node, (ast.Attribute, ast.Subscript, ast.Call)):
        node = node.value if not isinstance(node, ast.Call) else node.func
    return node.id if isinstance(node, ast.Name) else None


def text(node):
    try:
        return ast.unparse(node)
    except Exception:  # pragma: no cover
        return "?"


class Scope(ast.NodeVisitor):
    """collects, per function, the names that are local (params, assigned names) - everything else is free/global"""
    def __init__(self):
        self.locals = set()

    def visit_FunctionDef(self, node):
        self.locals.add(node.name)  # the def binds its name locally; do not descend

    def visit_Lambda(self, node):
        pass

    def visit_ClassDef(self, node):
        self.locals.add(node.name)

    def visit_Name(self, node):
        if isinstance(node.ctx, (ast.Store, ast.Del)):
            self.locals.add(node.id)

    def visit_ExceptHandler(self, node):
        if node.name:
            self.locals.add(node.name)
        self.generic_visit(node)

    def visit_comprehension(self, node):
        self.generic_visit(node)


def local_names(fn):
    s = Scope()
    a = fn.args
    for p in a.posonlyargs + a.args + a.kwonlyargs:
        s.locals.add(p.arg)
    if a.vararg:
        s.locals.add(a.vararg.arg)
    if a.kwarg:
        s.locals.add(a.kwarg.arg)
    body = fn.body if isinstance(fn.body, list) else [fn.body]
    for st in body:
        s.visit(st)
    glob = set()

    def own(node):
        for c in ast.iter_child_nodes(node):
            if isinstance(c, (ast.FunctionDef, ast.Lambda, ast.ClassDef)):
                continue
            if isinstance(c, ast.Global):
                glob.update(c.names)
            if isinstance(c, ast.Nonlocal):
                s.locals.update(c.names)      # closure state of an enclosing call: not module state
            own(c)
    own(fn)
    return s.locals - glob


def inventory(pkgdir):
    """returns dict(module_state=[...], class_state=[...], sites=[...], defaults=[...])
    site = dict(module, function, target, root, kind, lineno) for every attribute/subscript store, augmented store and mutating
    method call that is inside a function body (module top level runs at import time only)"""
    mods = parse_package(pkgdir)
    module_state, class_state, sites, defaults, toplevel_calls = [], [], [], [], []
    for mname, tree in mods.items():
        mod_names = set()
        for node in tree.body:
            if isinstance(node, ast.Assign):
                for t in node.targets:
                    if isinstance(t, ast.Name):
                        mod_names.add(t.id)
                        if is_mutable_expr(node.value):
                            module_state.append(dict(module=mname, name=t.id, value=text(node.value)[:60]))
            elif isinstance(node, ast.ClassDef):
                for item in node.body:
                    if isinstance(item, ast.Assign):
                        for t in item.targets:
                            if isinstance(t, ast.Name) and (is_mutable_expr(item.value) or isinstance(item.value, ast.Constant) and isinstance(item.value.value, int)
                                                            and not isinstance(item.value.value, bool)):
                                class_state.append(dict(module=mname, cls=node.name, name=t.id, value=text(item.value)[:40]))
            elif isinstance(node, ast.Expr) and isinstance(node.value, ast.Call):
                toplevel_calls.append(dict(module=mname, call=text(node.value.func)))

        def walk_fn(fn, qual, cls, outer=frozenset()):
            loc = local_names(fn) | outer       # names of enclosing function scopes are closure state, not module state
            for d in fn.args.defaults + [d for d in fn.args.kw_defaults if d is not None]:
                if is_mutable_expr(d) and not (isinstance(d, ast.Call) and isinstance(d.func, ast.Name) and d.func.id[:1].isupper() and False):
                    defaults.append(dict(module=mname, function=qual, default=text(d)))
            body = fn.body if isinstance(fn.body, list) else [fn.body]

            def visit(node):
                for child in ast.iter_child_nodes(node):
                    if isinstance(child, (ast.FunctionDef, ast.Lambda)):
                        walk_fn(child, qual + ".<locals>." + getattr(child, "name", "<lambda>"), cls, frozenset(loc))
                        continue
                    if isinstance(child, ast.ClassDef):
                        for it in child.body:
                            if isinstance(it, ast.FunctionDef):
                                walk_fn(it, qual + ".<locals>." + child.name + "." + it.name, child.name, frozenset(loc | {child.name}))
                        continue
                    targets = []
                    if isinstance(child, ast.Assign):
                        targets = [(t, "store") for t in child.targets]
                    elif isinstance(child, ast.AugAssign):
                        targets = [(child.target, "augstore")]
                    elif isinstance(child, ast.AnnAssign) and child.value is not None:
                        targets = [(child.target, "store")]
                    elif isinstance(child, ast.Delete):
                        targets = [(t, "delete") for t in child.targets]
                    flat = []
                    for t, k in targets:
                        if isinstance(t, (ast.Tuple, ast.List)):
                            flat += [(e, k) for e in t.elts]
                        else:
                            flat.append((t, k))
                    for t, k in flat:
                        if isinstance(t, (ast.Attribute, ast.Subscript)):
                            r = root_name(t)
                            sites.append(dict(module=mname, function=qual, cls=cls, target=text(t), root=r, root_is_local=r in loc, kind=k, lineno=child.lineno,
                                              is_attr=isinstance(t, ast.Attribute), attr=t.attr if isinstance(t, ast.Attribute) else None))
                        elif isinstance(t, ast.Name) and t.id not in loc:
                            sites.append(dict(module=mname, function=qual, cls=cls, target=t.id, root=t.id, root_is_local=False, kind="global-" + k, lineno=child.lineno))
                    if isinstance(child, ast.Call) and isinstance(child.func, ast.Attribute) and child.func.attr in MUTATORS:
                        r = root_name(child.func.value)
                        sites.append(dict(module=mname, function=qual, cls=cls, target=text(child.func.value) + "." + child.func.attr + "()", root=r, root_is_local=r in loc,
                                          kind="mutating-call", lineno=child.lineno))
                    visit(child)
            for st in body:
                class _W:  # wrap so that iter_child_nodes sees the statement itself
                    pass
                visit(ast.Module(body=[st], type_ignores=[]))
        for node in tree.body:
            if isinstance(node, ast.FunctionDef):
                walk_fn(node, node.name, None)
            elif isinstance(node, ast.ClassDef):
                for it in node.body:
                    if isinstance(it, ast.FunctionDef):
                        walk_fn(it, node.name + "." + it.name, node.name)
    return dict(module_state=module_state, class_state=class_state, sites=sites, defaults=defaults, toplevel_calls=toplevel_calls)


def uses_of(pkgdir, names):
    """functions that read attribute `.name` for name in names: list of (module, function, name)"""
    out = []
    for mname, tree in parse_package(pkgdir).items():
        for node in ast.walk(tree):
            if isinstance(node, (ast.FunctionDef,)):
                for sub in ast.walk(node):
                    if isinstance(sub, ast.Attribute) and sub.attr in names and isinstance(sub.ctx, ast.Load):
                        out.append((mname, node.name, sub.attr))
    return sorted(set(out))


def syntactic_scan(pkgdir, predicate):
    out = []
    for mname, tree in parse_package(pkgdir).items():
        for node in ast.walk(tree):
            r = predicate(node)
            if r:
                out.append((mname, getattr(node, "lineno", 0), r))
    return out
