"""pyvc engine: forward symbolic execution of the *real* pdpy11 function ASTs (re-read from the
source tree on every run) into z3 proof obligations.  See /verif/DESIGN.md section 2."""
import ast, os, sys, time, itertools
import z3


def src_dir():
    """package directory under verification: $PDPY11_SRC (a tree root) or /repo"""
    return os.path.join(os.environ.get("PDPY11_SRC", "/repo"), "pdpy11")

class Unsupported(Exception): pass
class PyRaise(Exception):
    def __init__(self, exc): self.exc = exc
class ReturnSig(Exception):
    def __init__(self, v): self.v = v
class BreakSig(Exception): pass
class ContinueSig(Exception): pass
class PathEnd(Exception): pass      # path pruned (infeasible / cut)

class Exc:
    def __init__(self, cls, args=()): self.cls, self.args = cls, args
    def __repr__(self): return f"Exc({self.cls})"

class Opaque:
    """opaque value (string for messages, unknown objects)"""
    n = 0
    def __init__(self, tag="opaque"):
        Opaque.n += 1; self.tag = f"{tag}#{Opaque.n}"
    def __repr__(self): return f"<{self.tag}>"

class Obj:
    def __init__(self, cls, attrs=None, name=None):
        self.cls = cls; self.attrs = attrs or {}; self.name = name or cls
    def __repr__(self): return f"<Obj {self.name}>"

class ClassV:
    def __init__(self, name, bases, ns, module): self.name, self.bases, self.ns, self.module = name, bases, ns, module
    def lookup(self, attr):
        if attr in self.ns: return self.ns[attr]
        for b in self.bases:
            if isinstance(b, ClassV):
                r = b.lookup(attr)
                if r is not None: return r
        return None
    def mro(self):
        out = [self]
        for b in self.bases:
            if isinstance(b, ClassV): out += [c for c in b.mro() if c not in out]
        return out
    def mro_names(self):
        out = [self.name]
        for b in self.bases:
            out += b.mro_names() if isinstance(b, ClassV) else [b.name if isinstance(b, ExcName) else getattr(b, "__name__", str(b))]
        return out
    def __repr__(self): return f"<class {self.name}>"

class Func:
    def __init__(self, node, env, module, qualname):
        self.node, self.env, self.module, self.qualname = node, env, module, qualname
    def __repr__(self): return f"<func {self.qualname}>"

class SymList:
    """a python list of ints whose length is symbolic: elements arr[0..n-1] of a z3 Array(Int, Int), n a z3 Int
    (arrays, not sequences: quantified invariants over arrays are what the solver handles reliably)"""
    def __init__(self, arr, n): self.arr, self.n = arr, n
    @staticmethod
    def of(items):
        a = z3.K(z3.IntSort(), z3.IntVal(0))
        for k, x in enumerate(items): a = z3.Store(a, k, z3.IntVal(x) if isinstance(x, int) else x)
        return SymList(a, z3.IntVal(len(items)))

class SymSlice:
    """lst[start:stop] of a SymList, kept lazy so that tuple unpacking can check the length"""
    def __init__(self, arr, start, stop): self.arr, self.start, self.stop = arr, start, stop

class SymMap:
    """a dict with symbolic (z3 String) keys: explicit entries made on this path over an arbitrary prior content
    (membership predicate has0, values produced on demand by base_value(key))"""
    def __init__(self, name, base_value=None, empty=False):
        self.name = name; self.entries = []; self.empty = empty
        self.has0 = z3.Function(name + "_has", z3.StringSort(), z3.BoolSort())
        self.base_value = base_value; self.memo = {}
    def contains(self, key):
        key = zstr(key)
        cs = [key == k for k, _ in self.entries]
        if not self.empty: cs.append(self.has0(key))
        return z3.Or(cs) if cs else False
    def lookup(self, eng, key, default=KeyError):
        key = zstr(key)
        for k, v in reversed(self.entries):
            if eng.truth(key == k): return v
        if not self.empty and eng.branch(self.has0(key)):
            kid = key.get_id()
            if kid not in self.memo:
                for k0, v0 in list(self.memo.values()):
                    if eng.truth(key == k0): return v0          # the same prior entry, reached through an equal key
                self.memo[kid] = (key, self.base_value(eng, key) if self.base_value else Opaque(self.name + "-value"))
            return self.memo[kid][1]
        if default is KeyError: raise PyRaise(Exc("KeyError"))
        return default
    def store(self, key, value): self.entries.append((zstr(key), value))

class SymObjList:
    """a list of objects of symbolic length n; element i is produced by factory(eng, i) (a generic element: the factory may fork on its kind)"""
    def __init__(self, n, factory): self.n, self.factory = n, factory

class SymRange:
    def __init__(self, start, stop, step): self.start, self.stop, self.step = start, stop, step

class LoopSpec:
    """sidecar loop contract, keyed by (function qualname, loop ordinal): inv(eng, env) -> [(label, z3 Bool)],
    havoc(eng, env) assigns fresh values to everything the body may modify, variant(eng, env) -> z3 Int (while loops)"""
    def __init__(self, inv, havoc, variant=None): self.inv, self.havoc, self.variant = inv, havoc, variant

class CompSpec:
    """sidecar contract of a comprehension over a symbolic-length sequence: summary(eng, it) -> value (or raises PyRaise),
    element(eng, it, g, outcome) issues the obligations that justify the summary for the generic index g"""
    def __init__(self, summary, element): self.summary, self.element = summary, element

class SymSeqResult:
    """what a comprehension over a symbolic sequence produced: elementwise description, consumed by bytes() / ''.join()"""
    def __init__(self, kind, value): self.kind, self.value = kind, value

class ExcName:
    """stands for a builtin exception class object"""
    def __init__(self, name): self.name = name
    def __repr__(self): return f"<exc class {self.name}>"
    def __eq__(self, o): return isinstance(o, ExcName) and o.name == self.name
    def __hash__(self): return hash(self.name)

class SuperV:
    def __init__(self, obj, owner): self.obj, self.owner = obj, owner

class Bound:
    def __init__(self, obj, func): self.obj, self.func = obj, func

class Builtin:
    def __init__(self, name, fn): self.name, self.fn = name, fn
    def __repr__(self): return f"<builtin {self.name}>"

class TypeV(Builtin):
    def __init__(self, name, fn, pytype): self.name, self.fn, self.pytype = name, fn, pytype

class Dyn:
    """dynamically typed symbolic value: int (ival) when is_int else a non-int object"""
    def __init__(self, is_int, ival): self.is_int, self.ival = is_int, ival

class Havoc:
    """value of a variable that a loop body assigns but the loop's contract says nothing about: arbitrary at the head of an arbitrary
    iteration.  Materialised on use (None-test, truth test, integer arithmetic); obligations on a path that used one are never reported
    'proved' (the contract does not cover that state) and a failure needs a replayed input to count as a violation."""
    def __init__(self, name, where): self.name, self.where, self.memo = name, where, {}
    def __repr__(self): return f"<Havoc {self.name} {self.where}>"

class Lazy:
    """a BaseDeferred object standing for a value known later; final = value wait() yields"""
    def __init__(self, final, typ="int", size=None, announced=None):
        self.final, self.typ, self.size = final, typ, size
        # what .length() would report: the fixed size of a SizedDeferred, the true length of an unsized Deferred,
        # the sum of the parts' announcements for a Concatenator
        self.announced = announced if announced is not None else size
    def __repr__(self): return f"<Lazy {self.typ} {self.final}>"

class Env:
    def __init__(self, parent=None): self.vars = {}; self.parent = parent; self.nonlocals = set()
    def lookup(self, name):
        e = self
        while e is not None:
            if name in e.vars: return e.vars[name]
            e = e.parent
        raise KeyError(name)
    def has(self, name):
        try: self.lookup(name); return True
        except KeyError: return False
    def assign(self, name, value):
        if name in self.nonlocals:
            e = self.parent
            while e is not None:
                if name in e.vars: e.vars[name] = value; return
                e = e.parent
            raise Unsupported(f"nonlocal {name} not found")
        self.vars[name] = value

def _mk(v, tag):
    return isinstance(v, tuple) and len(v) > 0 and isinstance(v[0], str) and v[0] == tag

def is_sym(v): return isinstance(v, z3.ExprRef)
def is_symint(v): return isinstance(v, z3.ArithRef)
def is_symbool(v): return isinstance(v, z3.BoolRef)
def is_symbytes(v): return isinstance(v, z3.SeqRef) and not v.is_string()
def is_symstr(v): return isinstance(v, z3.SeqRef) and v.is_string()
BYTES = z3.SeqSort(z3.IntSort())

BLOB_MIN = 48
BLOBS = {}      # concrete bytes -> named z3 constant (sound abstraction of long constants: only the length is kept)

def blob(v):
    v = bytes(v)
    if v not in BLOBS:
        import hashlib
        BLOBS[v] = z3.Const("blob_%s_%d" % (hashlib.sha1(v).hexdigest()[:10], len(v)), BYTES)
    return BLOBS[v]

def blob_facts():
    return [v >= 0 for v in ABS_LEN.values() if is_sym(v)]

zerosfn = z3.Function("zeros", z3.IntSort(), BYTES)
repeatfn = z3.Function("bytes_repeat", BYTES, z3.IntSort(), BYTES)       # b * k for a symbolic b or k: uninterpreted, length structural
ABS_LEN = {}    # name of a Seq constant -> Int term standing for its length (never given to the sequence solver)

def abstract_seq(name, length=None):
    """a byte sequence of arbitrary (possibly huge) length: the sequence solver never sees a length constraint on it;
    its length is the integer term ABS_LEN[name] (a fresh Int >= 0, or the given concrete length)"""
    c = z3.Const(name, BYTES)
    ABS_LEN[name] = z3.IntVal(length) if isinstance(length, int) else (length if length is not None else z3.Int("len_" + name))
    return c

def slen(v):
    """length of a byte value as an integer term, computed structurally (Concat/Unit/Empty/If/blob/abstract constants)"""
    if isinstance(v, (bytes, bytearray)): return len(v)
    if isinstance(v, ByteBuf): return slen(v.v)
    if not is_symbytes(v): raise Unsupported(f"slen of {v!r}")
    if z3.is_app(v):
        k = v.decl().kind()
        if k == z3.Z3_OP_SEQ_CONCAT:
            parts = [slen(c) for c in v.children()]
            return sum(parts[1:], parts[0])
        if k == z3.Z3_OP_SEQ_UNIT: return 1
        if k == z3.Z3_OP_SEQ_EMPTY: return 0
        if k == z3.Z3_OP_ITE:
            c, a, b = v.children(); la, lb = slen(a), slen(b)
            if isinstance(la, int) and isinstance(lb, int) and la == lb: return la
            return z3.If(c, la, lb)
        if k == z3.Z3_OP_UNINTERPRETED and v.decl().name() == "zeros": return v.arg(0)
        if k == z3.Z3_OP_UNINTERPRETED and v.decl().name() == "bytes_repeat":
            n_ = v.arg(1); return z3.If(n_ > 0, n_, 0) * slen(v.arg(0))
        if k == z3.Z3_OP_UNINTERPRETED and v.num_args() == 0:
            n = v.decl().name()
            if n in ABS_LEN: return ABS_LEN[n]
            for bv, c in BLOBS.items():
                if c.decl().name() == n: return len(bv)
    return z3.Length(v)

def to_z3bytes(v):
    if type(v).__name__ == "ByteBuf": return to_z3bytes(v.v)          # a bytearray (possibly with symbolic content)
    if is_symbytes(v): return v
    if isinstance(v, (bytes, bytearray)):
        if len(v) == 0: return z3.Empty(BYTES)
        if len(v) >= BLOB_MIN: return blob(v)
        units = [z3.Unit(z3.IntVal(b)) for b in v]
        return units[0] if len(units) == 1 else z3.Concat(*units)
    raise Unsupported(f"to_z3bytes {v!r}")

pow2 = z3.Function("pow2", z3.IntSort(), z3.IntSort())
# Python's bitwise operators on unbounded ints, where no arithmetic characterisation is needed: uninterpreted
pyand = z3.Function("pyand", z3.IntSort(), z3.IntSort(), z3.IntSort())
pyor = z3.Function("pyor", z3.IntSort(), z3.IntSort(), z3.IntSort())
pyxor = z3.Function("pyxor", z3.IntSort(), z3.IntSort(), z3.IntSort())

def cvc5_recheck(solver, tlimit_ms=4000):
    """second opinion on a query z3 answered unsat: 'unsat' | 'sat' (a disagreement) | 'unknown' | 'timeout' | 'error' (cvc5 could not read the query)"""
    import subprocess, tempfile
    fresh = z3.Solver(); fresh.add(solver.assertions())          # a solver that has not run yet prints no z3-internal model-converter lines
    txt = "(set-logic ALL)\n" + fresh.sexpr() + "\n(check-sat)\n"
    with tempfile.NamedTemporaryFile("w", suffix=".smt2", delete=False) as f:
        f.write(txt); fn = f.name
    try:
        p = subprocess.run(["/usr/bin/cvc5", "--strings-exp", "--tlimit=%d" % tlimit_ms, fn], capture_output=True, text=True, timeout=tlimit_ms / 1000 + 10)
        out = (p.stdout.strip().splitlines() or [""])[0]
        if out in ("unsat", "sat", "unknown"): return out
        return "timeout" if "timeout" in (p.stdout + p.stderr) else "error"
    except Exception:      # pragma: no cover
        return "timeout"
    finally:
        try: os.unlink(fn)
        except OSError: pass

def fdiv(a, b):
    """python floor division on z3 ints (z3 '/' is euclidean: differs for negative divisor)"""
    if isinstance(b, int) and b > 0: return a / b
    a = z3.IntVal(a) if isinstance(a, int) else a
    b = z3.IntVal(b) if isinstance(b, int) else b
    q = a / b; r = a % b      # euclid: r>=0
    return z3.If(b > 0, q, z3.If(r == 0, q, q + 1)) if False else z3.If(b > 0, a / b, (-a) / (-b))
def fmod(a, b):
    if isinstance(b, int) and b > 0: return a % b
    a = z3.IntVal(a) if isinstance(a, int) else a
    b = z3.IntVal(b) if isinstance(b, int) else b
    return z3.If(b > 0, a % b, -((-a) % (-b)))

class Path:
    def __init__(self, decisions):
        self.decisions = list(decisions); self.pos = 0
        self.pc = []; self.events = []; self.notes = []; self.captures = []

class Engine:
    def __init__(self, timeout_ms=20000):
        self.modules = {}
        self.worklist = []
        self.path = None
        self.obligations = []     # (label, status, model, secs)
        self.timeout_ms = timeout_ms
        self.contracts = {}       # qualname -> callable(engine, args, kwargs) modelling the callee
        self.solver_time = 0.0
        self.fresh_n = 0
        self.inputs = {}
        self.keep_smt2 = False
        self.entered = set()
        self.cvc5_recheck = bool(os.environ.get("PYVC_CVC5"))
        self.shift_src = {}
        self.func_stack = []
        self.classes = []
        self.branch_timeout_ms = 3000
        self.unknown_branches = 0
        self.comp_specs = {}      # (qualname, ordinal) -> CompSpec
        self.loop_specs = {}      # (qualname, ordinal) -> LoopSpec
        self.assumptions = set()  # abstractions actually used on some path

    # ---------- module loading
    def load_module(self, name):
        if name in self.modules: return self.modules[name]
        path = os.path.join(src_dir(), name + ".py")
        tree = ast.parse(open(path).read(), filename=path)
        env = Env(); mod = {"name": name, "env": env, "tree": tree, "path": path}
        self.modules[name] = mod
        env.vars["__name__"] = "pdpy11." + name
        for node in tree.body:
            self.exec_toplevel(node, mod)
        if name in EAGER_MODULES:
            # import-time registries (file_formats): apply the decorators now and keep the registry across paths
            saved = self.path
            if self.path is None: self.path = Path([])
            try:
                for nm in list(env.vars):
                    self.resolve_global(mod, nm)
            finally:
                self.path = saved
            mod["frozen"] = {nm: True for nm in mod.get("const_src", {})}
        return mod

    def exec_toplevel(self, node, mod):
        env = mod["env"]
        if isinstance(node, ast.ImportFrom):
            for a in node.names:
                env.vars[a.asname or a.name] = ("import", node.module, a.name, node.level)
        elif isinstance(node, ast.Import):
            for a in node.names:
                env.vars[a.asname or a.name] = ("pyimport", a.name)
        elif isinstance(node, ast.FunctionDef):
            if node.decorator_list and mod["name"] in DECORATORS_INTERPRETED:
                env.vars[node.name] = ("lazydecorated", node)
            else:
                env.vars[node.name] = Func(node, env, mod, node.name)
        elif isinstance(node, ast.ClassDef):
            env.vars[node.name] = ("lazyclass", node)
        elif isinstance(node, ast.Assign) and len(node.targets) == 1 and isinstance(node.targets[0], ast.Name):
            env.vars[node.targets[0].id] = ("lazyconst", node.value)
            mod.setdefault("const_src", {})[node.targets[0].id] = node.value
        elif isinstance(node, ast.Assign) and len(node.targets) == 1 and isinstance(node.targets[0], ast.Attribute):
            # e.g. 'Deferred.next_instance_id = 1' after the class body: applied when the class is built
            mod.setdefault("post_class", []).append(node)
        # everything else at top level (decorated registrations, init() calls) is not interpreted

    def resolve_global(self, mod, name):
        env = mod["env"]
        v = env.vars[name]
        if _mk(v, "import"):
            _, module, attr, level = v
            if module is None:   # from . import x
                v = ("module", attr)
            else:
                m = self.load_module(module)
                v = self.resolve_global(m, attr)
            env.vars[name] = v
        elif _mk(v, "pyimport"):
            v = ("pymodule", v[1]); env.vars[name] = v
        elif _mk(v, "lazyclass"):
            v = self.build_class(v[1], env, mod); env.vars[name] = v
            for node in mod.get("post_class", []):
                t = node.targets[0]
                if isinstance(t.value, ast.Name) and t.value.id == name:
                    v.ns[t.attr] = self.eval(node.value, env, mod)
                    if isinstance(v.ns[t.attr], (list, dict, set, int)): v.ns_init[t.attr] = v.ns[t.attr]
        elif _mk(v, "lazyconst"):
            v = self.eval(v[1], env, mod); env.vars[name] = v
        elif _mk(v, "lazydecorated"):
            # module-level function whose decorators are interpreted (operators.py: @operator(...) builds the token class)
            node = v[1]
            val = Func(node, env, mod, node.name)
            env.vars[name] = val
            for d in reversed(node.decorator_list):
                val = self.call(self.eval(d, env, mod), [val], {})
            v = val; env.vars[name] = v
        return v

    def build_class(self, node, env, mod):
        bases = []
        for b in node.bases:
            try: bases.append(self.eval(b, env, mod))
            except Unsupported: bases.append(Opaque("base"))
        ns = {}
        cls = ClassV(node.name, bases, ns, mod)
        self.classes.append(cls)
        cenv = Env(env); cenv.vars = ns      # class body scope: names bound earlier in the body are visible to later statements
        for item in node.body:
            if isinstance(item, ast.FunctionDef):
                f = Func(item, env, mod, f"{node.name}.{item.name}"); f.owner = cls
                f.is_classmethod = any(isinstance(d, ast.Name) and d.id == "classmethod" for d in item.decorator_list)
                ns[item.name] = f
            elif isinstance(item, ast.Assign) and isinstance(item.targets[0], ast.Name):
                try: ns[item.targets[0].id] = self.eval(item.value, cenv, mod)
                except Unsupported as u: self.class_body_skipped = getattr(self, "class_body_skipped", []) + ["%s.%s: %s" % (node.name, item.targets[0].id, u)]
        import copy
        cls.ns_init = {k: copy.copy(v) for k, v in ns.items() if isinstance(v, (list, dict, set, int)) and not isinstance(v, bool)}
        return cls

    def reset_statics(self):
        """module-level and class-level mutable state is per path: restore class attributes to their values at class creation
        and forget module-level instances (they are rebuilt from their defining expression on next use)"""
        import copy
        for cls in self.classes:
            for k, v in getattr(cls, "ns_init", {}).items(): cls.ns[k] = copy.copy(v)
        for m in self.modules.values():
            for name, v in list(m["env"].vars.items()):
                src = m.get("const_src", {}).get(name)
                if src is not None and isinstance(v, (Obj, list, dict)) and not m.get("frozen", {}).get(name):
                    m["env"].vars[name] = ("lazyconst", src)

    # ---------- solver
    def guarded_check(self, s, timeout_ms):
        """s.check() with a per-unit budget for undecidable queries: once a unit has spent 90 s in queries that came back unknown, the rest of
        its queries get a tenth of the budget, so that the unit ends UNDECIDED in bounded time instead of occupying a worker for hours.
        (No watchdog thread: z3 objects must not be touched - not even released - from a second thread.)"""
        if getattr(self, "unknown_secs", 0.0) > 90.0:
            timeout_ms = max(500, timeout_ms // 10)
            s.set("timeout", timeout_ms)
        t0_ = time.time()
        try:
            r = s.check()
        except z3.Z3Exception:
            r = z3.unknown
        if r == z3.unknown:
            self.unknown_secs = getattr(self, "unknown_secs", 0.0) + (time.time() - t0_)
        if os.environ.get("PYVC_TRACE_SOLVER"):
            print("solver: %s budget=%dms" % (r, timeout_ms), file=sys.stderr, flush=True)
        return r

    def check(self, extra, timeout_ms=None):
        s = z3.Solver(); s.set("timeout", timeout_ms or self.timeout_ms)
        for c in blob_facts(): s.add(c)
        for c in self.path.pc: s.add(c)
        for c in extra: s.add(c)
        t = time.time(); r = self.guarded_check(s, timeout_ms or self.timeout_ms); self.solver_time += time.time() - t
        return r, s

    def check_relevant(self, extra, depth=2, quantifier_free=False):
        """retry with only the hypotheses that share uninterpreted symbols with the goal (closure to `depth`); an unsat
        answer from fewer hypotheses is still a proof"""
        def syms(e, acc):
            todo = [e]; seen = set()
            while todo:
                x = todo.pop()
                if x.get_id() in seen: continue
                seen.add(x.get_id())
                if z3.is_quantifier(x): todo.append(x.body()); continue
                if z3.is_app(x):
                    if x.decl().kind() == z3.Z3_OP_UNINTERPRETED: acc.add(x.decl().name())
                    todo.extend(x.children())
            return acc
        def has_q(e):
            todo = [e]; seen = set()
            while todo:
                x = todo.pop()
                if x.get_id() in seen: continue
                seen.add(x.get_id())
                if z3.is_quantifier(x): return True
                if z3.is_app(x): todo.extend(x.children())
            return False
        hyps = [(c, syms(c, set())) for c in self.path.pc if is_sym(c) and not (quantifier_free and has_q(c))]
        goal = set()
        for e in extra: syms(e, goal)
        rel = set(goal); chosen = set()
        for _ in range(depth):
            for k, (c, sy) in enumerate(hyps):
                if k not in chosen and sy & rel: chosen.add(k)
            for k in chosen: rel |= hyps[k][1]
        for d in range(depth, 0, -1):
            pass
        s = z3.Solver(); s.set("timeout", self.timeout_ms)
        for c in blob_facts(): s.add(c)
        for k in sorted(chosen): s.add(hyps[k][0])
        for e in extra: s.add(e)
        t = time.time(); r = self.guarded_check(s, self.timeout_ms); self.solver_time += time.time() - t
        return r

    def branch(self, cond):
        """decide a symbolic condition on this path (forking)"""
        if isinstance(cond, bool): return cond
        cond = z3.simplify(cond)
        if z3.is_true(cond): return True
        if z3.is_false(cond): return False
        p = self.path
        if p.pos < len(p.decisions):
            d = p.decisions[p.pos]
        else:
            rt, _ = self.check([cond], timeout_ms=self.branch_timeout_ms); rf, _ = self.check([z3.Not(cond)], timeout_ms=self.branch_timeout_ms)
            # feasibility undecided (typically: quantified invariants in the path condition): explore the side anyway.
            # Sound: an infeasible path only yields vacuous obligations, and a *failed* obligation needs a model of the path.
            if rt == z3.unknown: rt = z3.sat; self.unknown_branches += 1
            if rf == z3.unknown: rf = z3.sat; self.unknown_branches += 1
            if rt == z3.sat and rf == z3.sat:
                self.worklist.append(p.decisions[:p.pos] + [False]); d = True
            elif rt == z3.sat: d = True
            elif rf == z3.sat: d = False
            else: raise PathEnd()
            p.decisions.append(d)
        p.pos += 1
        p.pc.append(cond if d else z3.Not(cond))
        return d

    def assume(self, cond):
        if isinstance(cond, bool):
            if not cond: raise PathEnd()
            return
        self.path.pc.append(cond)

    def witness_of(self, model):
        """values of the declared inputs (self.inputs: name -> z3 const) in a model"""
        w = {}
        for name, var in getattr(self, "inputs", {}).items():
            try:
                v = model.eval(var, model_completion=True)
                if z3.is_int_value(v): w[name] = v.as_long()
                elif z3.is_true(v): w[name] = True
                elif z3.is_false(v): w[name] = False
                elif z3.is_string_value(v): w[name] = v.as_string()
                else: w[name] = str(v)
            except Exception as e:      # pragma: no cover
                w[name] = "?" + str(e)
        return w

    def prove(self, label, cond, region=None):
        """an obligation: cond must hold on this path.  region (optional z3/py bool): a known-finding
        region; when given the obligation proved is  not region => cond  and a model inside the
        region is reported separately (status 'known-region')."""
        rec = dict(label=label, kind="vc", secs=0.0, path=list(self.path.decisions), witness=None, detail="",
                   events=[(e[0], e[1]) for e in self.path.events], smt2=None, backend="z3-%s" % z3.get_version_string())
        self.obligations.append(rec)
        rec = self._prove(rec, cond, region)
        ht = getattr(self.path, "havoc_touched", None)
        if ht:
            if rec["status"] == "proved":
                rec["status"] = "unknown"; rec["detail"] = "path uses loop variable %s which the loop contract does not cover" % ht
            elif rec["status"] == "failed":
                rec["needs_replay"] = True
                rec["detail"] = ("path uses loop variable %s which the loop contract does not cover (arbitrary at the loop head): counts as a violation "
                                 "only with a replayed failing input; " % ht) + rec["detail"]
        return rec

    def _prove(self, rec, cond, region):
        label = rec["label"]
        if isinstance(cond, bool):
            if cond: rec["status"] = "proved"; rec["backend"] = "syntactic"; return rec
            # concretely false on a feasible path: the path condition itself is the witness
            r, s = self.check([] if region is None else [z3.Not(region) if not isinstance(region, bool) else z3.BoolVal(not region)])
            if region is not None and r == z3.unsat:
                r2, s2 = self.check([])
                rec["status"] = "known-region"; rec["witness"] = self.witness_of(s2.model()) if r2 == z3.sat else None; return rec
            if r == z3.sat: rec["status"] = "failed"; rec["witness"] = self.witness_of(s.model()); rec["detail"] = "goal is false on a feasible path"
            elif r == z3.unsat: rec["status"] = "proved"; rec["detail"] = "path infeasible"
            else: rec["status"] = "unknown"; rec["detail"] = s.reason_unknown()
            return rec
        t = time.time()
        extra = [z3.Not(cond)]
        if region is not None: extra.append(z3.Not(region) if not isinstance(region, bool) else z3.BoolVal(not region))
        r, s = self.check(extra)
        rec["secs"] = time.time() - t
        if self.keep_smt2: rec["smt2"] = s.sexpr()
        if r == z3.unknown:
            r2 = self.check_relevant(extra, depth=1, quantifier_free=True)
            if r2 != z3.unsat: r2 = self.check_relevant(extra, depth=1)
            if r2 != z3.unsat: r2 = self.check_relevant(extra, depth=2)
            if r2 == z3.unsat:
                r = z3.unsat; rec["backend"] += " (hypotheses restricted to the goal's cone of influence)"
                rec["secs"] = time.time() - t
        if r == z3.unsat:
            rec["status"] = "proved"
            if getattr(self, "cvc5_recheck", False):
                rec["cvc5"] = cvc5_recheck(s)
                if rec["cvc5"] == "sat":
                    rec["status"] = "unknown"; rec["detail"] = "solver disagreement: z3 unsat, cvc5 sat"; return rec
            if region is not None:
                r2, s2 = self.check([z3.Not(cond)])
                if r2 == z3.sat: rec["status"] = "known-region"; rec["witness"] = self.witness_of(s2.model())
                elif r2 != z3.unsat: rec["status"] = "unknown"; rec["detail"] = "region probe: " + s2.reason_unknown()
        elif r == z3.sat: rec["status"] = "failed"; rec["witness"] = self.witness_of(s.model()); rec["detail"] = str(s.model())[:2000]
        else: rec["status"] = "unknown"; rec["detail"] = s.reason_unknown()
        return rec

    def fresh_int(self, name="k"):
        self.fresh_n += 1; return z3.Int(f"{name}!{self.fresh_n}")
    def fresh_bool(self, name="b"):
        self.fresh_n += 1; return z3.Bool(f"{name}!{self.fresh_n}")

    # ---------- truthiness
    def truth(self, v):
        if isinstance(v, Havoc): return self.branch(self.touch_havoc(v, "truthy"))
        if is_symbool(v): return self.branch(v)
        if is_symint(v): return self.branch(v != 0)
        if is_symbytes(v):
            ln = slen(v)
            if not is_sym(ln): return ln != 0
            d = self.branch(ln != 0)
            if not d: self.assume(v == z3.Empty(BYTES))     # abstract lengths are decoupled from the sequence solver: restore the emptiness link
            return d
        if is_symstr(v): return self.branch(z3.Length(v) != 0)
        if isinstance(v, SymList): return self.branch(v.n != 0)
        if isinstance(v, (Obj, Func, Builtin, ClassV, Lazy, Bound)): return True
        if isinstance(v, Opaque): raise Unsupported(f"truth of opaque {v}")
        return bool(v)

    # ---------- expressions
    def eval(self, node, env, mod):
        m = getattr(self, "e_" + type(node).__name__, None)
        if m is None: raise Unsupported(f"expr {type(node).__name__} at {mod['name']}:{getattr(node,'lineno','?')}")
        return m(node, env, mod)

    def e_Constant(self, n, env, mod): return n.value
    def e_Name(self, n, env, mod):
        try:
            v = env.lookup(n.id)
        except KeyError:
            if n.id in BUILTINS: return BUILTINS[n.id]
            raise Unsupported(f"name {n.id} at {mod['name']}:{n.lineno}")
        if isinstance(v, tuple) and v and isinstance(v[0], str) and v[0] in ("import", "pyimport", "lazyclass", "lazyconst", "lazydecorated"):
            # module-level lazy binding: find defining module env
            e = env
            while e.parent is not None: e = e.parent
            owner = [m for m in self.modules.values() if m["env"] is e][0]
            v = self.resolve_global(owner, n.id)
        return v
    def e_Tuple(self, n, env, mod): return tuple(self.eval(e, env, mod) for e in n.elts)
    def e_List(self, n, env, mod): return [self.eval(e, env, mod) for e in n.elts]
    def e_Dict(self, n, env, mod):
        d = {}
        for k, v in zip(n.keys, n.values):
            if k is None:
                d.update(self.eval(v, env, mod))
            else:
                d[self.eval(k, env, mod)] = self.eval(v, env, mod)
        return d
    def e_JoinedStr(self, n, env, mod):
        # value is kept when every part is a (possibly symbolic) string or a concrete int without format spec; otherwise it is
        # diagnostic text: opaque, but embedded expressions still run for their exceptions/effects
        parts = []; opaque = False
        for part in n.values:
            if isinstance(part, ast.FormattedValue):
                try:
                    v = self.eval(part.value, env, mod)
                except Unsupported as u:
                    self.assumptions.add("f-string part not interpreted (assumed exception-free): %s:%s" % (mod["name"], part.value.lineno))
                    opaque = True; continue
                if part.format_spec is None and part.conversion == -1 and (isinstance(v, str) or is_symstr(v) or (isinstance(v, int) and not isinstance(v, bool))):
                    parts.append(v if not isinstance(v, int) else str(v))
                elif part.format_spec is None and part.conversion == -1 and is_symint(v) and getattr(self, "fstring_ints", False):
                    parts.append(z3.IntToStr(v))       # exact for non-negative ints (the counters it is used for)
                else: opaque = True
            else:
                parts.append(part.value)
        if opaque: return Opaque("fstr")
        if all(isinstance(p, str) for p in parts): return "".join(parts)
        zs = [z3.StringVal(p) if isinstance(p, str) else p for p in parts if not (isinstance(p, str) and p == "")]
        return zs[0] if len(zs) == 1 else z3.Concat(*zs)
    def e_Lambda(self, n, env, mod): return Func(n, env, mod, "<lambda>")
    def e_IfExp(self, n, env, mod):
        return self.eval(n.body, env, mod) if self.truth(self.eval(n.test, env, mod)) else self.eval(n.orelse, env, mod)
    def e_BoolOp(self, n, env, mod):
        isand = isinstance(n.op, ast.And)
        v = None
        for e in n.values:
            v = self.eval(e, env, mod)
            t = self.truth(v)
            if isand and not t: return v
            if not isand and t: return v
        return v
    def e_UnaryOp(self, n, env, mod):
        v = self.eval(n.operand, env, mod)
        if isinstance(n.op, ast.Not): return not self.truth(v)
        v = self.undyn(v)
        if isinstance(v, Obj) and isinstance(v.cls, ClassV):
            nm = {ast.USub: "__neg__", ast.UAdd: "__pos__"}.get(type(n.op))
            if nm and v.cls.lookup(nm) is not None: return self.call(Bound(v, v.cls.lookup(nm)), [], {})
            raise PyRaise(Exc("TypeError"))
        if isinstance(v, Lazy):
            if isinstance(n.op, ast.USub): return Lazy(-v.final)
            if isinstance(n.op, ast.UAdd): return v
            raise PyRaise(Exc("TypeError"))
        if isinstance(n.op, ast.USub): return -v
        if isinstance(n.op, ast.UAdd): return +v
        if isinstance(n.op, ast.Invert): return -v - 1 if is_sym(v) else ~v
        raise Unsupported("unary")
    def e_BinOp(self, n, env, mod):
        return self.binop(n.op, self.eval(n.left, env, mod), self.eval(n.right, env, mod), n)
    def touch_havoc(self, h, what):
        self.path.havoc_touched = "%s (%s)" % (h.name, h.where)
        if what not in h.memo:
            h.memo[what] = self.fresh_int("havoc_" + h.name) if what == "int" else self.fresh_bool("havoc_%s_%s" % (h.name, what))
        return h.memo[what]
    def undyn(self, v):
        if isinstance(v, Havoc): return self.touch_havoc(v, "int")
        if isinstance(v, BitOf): return v.term
        if isinstance(v, Dyn):
            if not self.branch(v.is_int): raise PyRaise(Exc("TypeError"))
            return v.ival
        return v
    DUNDER = {ast.Add: ("__add__", "__radd__"), ast.Sub: ("__sub__", "__rsub__"), ast.Mult: ("__mul__", "__rmul__")}
    def binop(self, op, a, b, n=None):
        a = self.undyn(a); b = self.undyn(b)
        if (isinstance(a, Obj) and isinstance(a.cls, ClassV)) or (isinstance(b, Obj) and isinstance(b.cls, ClassV)):
            names = self.DUNDER.get(type(op))
            if names is None: raise PyRaise(Exc("TypeError"))       # the repo classes define +, -, * only
            if isinstance(a, Obj) and isinstance(a.cls, ClassV) and a.cls.lookup(names[0]) is not None:
                r = self.call(Bound(a, a.cls.lookup(names[0])), [b], {})
                if r is not NotImplemented: return r
            if isinstance(b, Obj) and isinstance(b.cls, ClassV) and b.cls.lookup(names[1]) is not None:
                r = self.call(Bound(b, b.cls.lookup(names[1])), [a], {})
                if r is not NotImplemented: return r
            raise PyRaise(Exc("TypeError"))
        if isinstance(a, ByteBuf) or isinstance(b, ByteBuf):
            av = a.v if isinstance(a, ByteBuf) else a; bv = b.v if isinstance(b, ByteBuf) else b
            if isinstance(av, Lazy) or isinstance(bv, Lazy): raise PyRaise(Exc("TypeError"))
            r = self.binop(op, av, bv, n)
            return ByteBuf(r) if isinstance(a, ByteBuf) else r
        if isinstance(a, Lazy) or isinstance(b, Lazy):
            fa = a.final if isinstance(a, Lazy) else a; fb = b.final if isinstance(b, Lazy) else b
            typ = (a if isinstance(a, Lazy) else b).typ
            if typ == "int" and isinstance(op, (ast.Add, ast.Sub, ast.Mult)):
                return Lazy(self.binop(op, fa, fb), "int")
            if typ == "bytes" and isinstance(op, ast.Add) and isinstance(b, (bytes, bytearray)) and len(b) == 0: return a   # BaseDeferred.__add__: 'not rhs' -> self
            if typ == "bytes" and isinstance(op, ast.Add) and isinstance(a, (bytes, bytearray)) and len(a) == 0: return b   # __radd__
            if typ == "bytes" and isinstance(op, ast.Add):
                return Lazy(self.binop(op, fa, fb), "bytes", None, announced_len(a) + announced_len(b))
            raise PyRaise(Exc("TypeError"))      # BaseDeferred defines no other operators
        if isinstance(a, (bytes, bytearray)) or is_symbytes(a) or isinstance(b, (bytes, bytearray)) or is_symbytes(b):
            if isinstance(op, ast.Add):
                if not (is_sym(a) or is_sym(b)): return bytes(a) + bytes(b)
                return z3.Concat(to_z3bytes(a), to_z3bytes(b))
            if isinstance(op, ast.Mult):
                by, k = (a, b) if not isinstance(a, int) and not is_symint(a) else (b, a)
                if isinstance(k, int) and not is_sym(by): return bytes(by) * k
                if not is_sym(by) and set(by) <= {0} :
                    # zero fill of symbolic length: represent as fresh seq with len and all-zero axiom
                    n_ = z3.If(k > 0, k, 0) * len(by)
                    r = zerosfn(n_)          # slen(zeros(n)) == n structurally; the sequence solver sees no length constraint
                    i = z3.Int("i!q")
                    self.assume(z3.ForAll([i], z3.Implies(z3.And(i >= 0, i < n_), r[i] == 0)))
                    return r
                if isinstance(k, int) or is_symint(k):
                    if isinstance(k, int) and k <= 0: return b""
                    if isinstance(k, int) and k == 1: return by
                    if isinstance(k, int) and k <= 4: return z3.Concat(*[to_z3bytes(by)] * k)
                    zb = to_z3bytes(by); kk = k if is_sym(k) else z3.IntVal(k)
                    self.assume(z3.Implies(kk <= 0, repeatfn(zb, kk) == z3.Empty(BYTES)))
                    self.assume(z3.Implies(kk == 1, repeatfn(zb, kk) == zb))
                    self.assume(z3.Implies(kk >= 1, repeatfn(zb, kk) == z3.Concat(zb, repeatfn(zb, kk - 1))))
                    return repeatfn(zb, kk)
            raise Unsupported("bytes op")
        if is_symstr(a) or is_symstr(b):
            if isinstance(op, ast.Add) and (isinstance(a, str) or is_symstr(a)) and (isinstance(b, str) or is_symstr(b)):
                return z3.Concat(zstr(a), zstr(b))
            if isinstance(a, Opaque) or isinstance(b, Opaque): return Opaque("str")
            raise Unsupported("operator on symbolic str")
        if isinstance(a, Opaque) or isinstance(b, Opaque):
            if isinstance(op, (ast.Add, ast.Mult, ast.Mod)): return Opaque("str")
            raise Unsupported("operator on opaque value")
        if isinstance(a, str) and is_sym(b) and isinstance(op, ast.Mult): return Opaque("str")
        sym = is_sym(a) or is_sym(b)
        if isinstance(op, ast.Add): return a + b
        if isinstance(op, ast.Sub): return a - b
        if isinstance(op, ast.Mult): return a * b
        if isinstance(op, ast.FloorDiv):
            z = (b == 0)
            if self.branch(z) if is_sym(b) else z: raise PyRaise(Exc("ZeroDivisionError"))
            return fdiv(a, b) if sym else a // b
        if isinstance(op, ast.Mod):
            if isinstance(a, str): return Opaque("fmt")
            z = (b == 0)
            if self.branch(z) if is_sym(b) else z: raise PyRaise(Exc("ZeroDivisionError"))
            return fmod(a, b) if sym else a % b
        if isinstance(op, ast.Pow):
            if not sym: return a ** b
            if a == 2 and is_symint(b):
                if self.branch(b < 0): raise Unsupported("2**negative -> float")
                self.assume(pow2(b) >= 1); return pow2(b)
            if isinstance(b, int) and b >= 0:
                r = 1
                for _ in range(b): r = r * a
                return r
            raise Unsupported("pow")
        if isinstance(op, ast.RShift):
            if not sym:
                if b < 0: raise PyRaise(Exc("ValueError"))
                return a >> b
            if is_sym(b) and self.branch(b < 0): raise PyRaise(Exc("ValueError"))
            if isinstance(b, int):
                r = fdiv(a, 2 ** b) if b else a + 0
                self.shift_src[r.get_id()] = (a, b, r); return r
            self.assume(pow2(b) >= 1); return fdiv(a, pow2(b))
        if isinstance(op, ast.LShift):
            if not sym:
                if b < 0: raise PyRaise(Exc("ValueError"))
                return a << b
            if isinstance(b, int):
                if b < 0: raise PyRaise(Exc("ValueError"))
                return a * 2 ** b
            if self.branch(b < 0): raise PyRaise(Exc("ValueError"))
            self.assume(pow2(b) >= 1); return a * pow2(b)
        if isinstance(op, ast.BitAnd):
            if not sym: return a & b
            if isinstance(b, int) and b == 1 and is_sym(a) and a.get_id() in self.shift_src:
                v, i, _keep = self.shift_src[a.get_id()]; return BitOf(v, i)
            if isinstance(b, int) and b >= 0 and (b & (b + 1)) == 0: return fmod(a, b + 1)     # mask 2^k-1
            if isinstance(a, int) and a >= 0 and (a & (a + 1)) == 0: return fmod(b, a + 1)
            return pyand(z3.IntVal(a) if isinstance(a, int) else a, z3.IntVal(b) if isinstance(b, int) else b)
        if isinstance(op, ast.BitXor):
            if not sym: return a ^ b
            return pyxor(z3.IntVal(a) if isinstance(a, int) else a, z3.IntVal(b) if isinstance(b, int) else b)
        if isinstance(op, ast.BitOr):
            if not sym: return a | b
            # a | b where concrete side has only bits above the symbolic side's range is handled by caller knowledge:
            # encode generally through bit decomposition up to 16 bits with range side conditions
            return self.bitor(a, b)
        raise Unsupported(f"binop {type(op).__name__}")
    def bitor(self, a, b, width=16):
        if is_sym(a) and is_sym(b): return pyor(a, b)
        # concrete | symbolic with disjoint bit ranges (0o60 | register): exact as a sum, under a proved range fact
        for c, x in ((a, b), (b, a)):
            if isinstance(c, int) and c > 0 and is_symint(x):
                k = (c & -c).bit_length() - 1
                if k > 0:
                    r, _ = self.check([z3.Not(z3.And(x >= 0, x < 2 ** k))])
                    if r == z3.unsat: return c + x
        a = z3.IntVal(a) if isinstance(a, int) else a
        b = z3.IntVal(b) if isinstance(b, int) else b
        # require both within [0, 2^width): obligation-free assumption is unsound, so branch on it
        inr = z3.And(a >= 0, a < 2 ** width, b >= 0, b < 2 ** width)
        if not self.branch(inr): return pyor(a, b)
        bits = []
        for i in range(width):
            ba = (a / 2 ** i) % 2; bb = (b / 2 ** i) % 2
            bits.append(z3.If(z3.Or(ba == 1, bb == 1), 1, 0) * 2 ** i)
        return z3.Sum(bits)

    def e_Compare(self, n, env, mod):
        left = self.eval(n.left, env, mod)
        result = True
        for op, rn in zip(n.ops, n.comparators):
            right = self.eval(rn, env, mod)
            r = self.compare(op, left, right)
            if len(n.ops) == 1: return r
            if not self.truth(r): return False
            left = right
        return result
    def compare(self, op, a, b):
        if not isinstance(op, (ast.Is, ast.IsNot)): a = self.undyn(a); b = self.undyn(b)
        if isinstance(op, ast.Is): return self.identical(a, b)
        if isinstance(op, ast.IsNot):
            r = self.identical(a, b); return z3.Not(r) if is_sym(r) else not r
        if isinstance(op, (ast.In, ast.NotIn)):
            r = self.contains(b, a)
            if isinstance(op, ast.NotIn): r = z3.Not(r) if is_sym(r) else not r
            return r
        if isinstance(op, (ast.Eq, ast.NotEq)) and type(a) is type(b) and isinstance(a, (tuple, list)) and any(isinstance(x, (Obj, Lazy, tuple, list)) or is_sym(x) for x in list(a) + list(b)):
            # sequences compare elementwise with the elements' own == (objects may define __eq__, values may be symbolic)
            if len(a) != len(b): r = False
            else:
                parts = [self.compare(ast.Eq(), x, y) for x, y in zip(a, b)]
                r = False if any(p is False for p in parts) else (z3.And([p for p in parts if is_sym(p)]) if any(is_sym(p) for p in parts) else True)
            if isinstance(op, ast.NotEq): return z3.Not(r) if is_sym(r) else not r
            return r
        if is_symstr(a) or is_symstr(b):
            if not ((isinstance(a, str) or is_symstr(a)) and (isinstance(b, str) or is_symstr(b))):
                if isinstance(op, ast.Eq): return False
                if isinstance(op, ast.NotEq): return True
                raise PyRaise(Exc("TypeError"))
            za, zb = zstr(a), zstr(b)
            if isinstance(op, ast.Eq): return za == zb
            if isinstance(op, ast.NotEq): return za != zb
            if isinstance(op, ast.LtE): return z3.Or(za == zb, za < zb)
            if isinstance(op, ast.Lt): return za < zb
            if isinstance(op, ast.GtE): return z3.Or(za == zb, zb < za)
            if isinstance(op, ast.Gt): return zb < za
        if isinstance(a, (Lazy, Obj, Opaque)) or isinstance(b, (Lazy, Obj, Opaque)):
            if isinstance(op, (ast.Eq, ast.NotEq)):
                # a user-defined __eq__ (the token classes compare structurally) decides; identity otherwise (object.__eq__)
                for x, y in ((a, b), (b, a)):
                    if isinstance(x, Obj) and isinstance(x.cls, ClassV) and x.cls.lookup("__eq__") is not None:
                        r = self.call(Bound(x, x.cls.lookup("__eq__")), [y], {})
                        if r is NotImplemented: continue
                        if isinstance(op, ast.NotEq): return z3.Not(r) if is_sym(r) else not self.truth(r)
                        return r
                return (a is b) if isinstance(op, ast.Eq) else (a is not b)
            raise PyRaise(Exc("TypeError"))
        if isinstance(op, ast.Eq): return a == b
        if isinstance(op, ast.NotEq): return a != b
        if isinstance(op, ast.Lt): return a < b
        if isinstance(op, ast.LtE): return a <= b
        if isinstance(op, ast.Gt): return a > b
        if isinstance(op, ast.GtE): return a >= b
        raise Unsupported("cmp")
    def identical(self, a, b):
        if isinstance(a, Havoc) or isinstance(b, Havoc):
            h, o = (a, b) if isinstance(a, Havoc) else (b, a)
            if o is None: return self.touch_havoc(h, "isnone")
            if h is o: return True
            raise Unsupported(f"identity test on loop variable {h.name} not covered by the loop contract")
        if a is None or b is None: return a is b if not is_sym(a) and not is_sym(b) else False
        if isinstance(a, (bool,)) or isinstance(b, bool): return a is b
        if isinstance(a, (ClassV, Obj, Func, Builtin)) or isinstance(b, (ClassV, Obj, Func, Builtin)): return a is b
        if isinstance(a, TypeV) or isinstance(b, TypeV): return a is b
        raise Unsupported(f"identity {a!r} {b!r}")
    def contains(self, container, item):
        if isinstance(container, SymMap): return container.contains(item)
        if isinstance(container, Obj):
            if "__contains__" in container.attrs: return self.call(container.attrs["__contains__"], [item], {})
            if isinstance(container.cls, ClassV) and container.cls.lookup("__contains__") is not None:
                return self.call(Bound(container, container.cls.lookup("__contains__")), [item], {})
        if (is_symstr(container) or isinstance(container, str)) and (is_symstr(item) or isinstance(item, str)) and (is_sym(container) or is_sym(item)):
            return z3.Contains(zstr(container), zstr(item))
        if isinstance(container, (tuple, list, set)) and is_symstr(item):
            return z3.Or([item == z3.StringVal(c) for c in container if isinstance(c, str)]) if container else False
        if isinstance(container, dict) and is_sym(item) and len(container) > 16:
            return dict_fns(container, item)[1](item)
        if isinstance(container, dict) and is_symstr(item):
            return z3.Or([item == z3.StringVal(c) for c in container if isinstance(c, str)]) if container else False
        if isinstance(container, (tuple, list, dict, str, set)) and not is_sym(item):
            return item in container
        if isinstance(container, (tuple, list)) and is_sym(item):
            return z3.Or([item == c for c in container])
        raise Unsupported(f"contains {container!r}")

    def e_Attribute(self, n, env, mod):
        v = self.eval(n.value, env, mod)
        return self.getattr(v, n.attr, n)
    def getattr(self, v, attr, n=None):
        if isinstance(v, Lazy):
            # the BaseDeferred surface of the abstraction (DESIGN section 4): an unsettled deferred whose final value is v.final
            if attr == "typ": return BUILTINS["int"] if v.typ == "int" else BUILTINS["bytes"] if v.typ == "bytes" else Opaque("typ")
            if attr == "is_awaiting": return False
            if attr == "get_current_best_estimate": return Builtin("Lazy.get_current_best_estimate", lambda eng, _v=v: _v)
            if attr == "wait": return Builtin("Lazy.wait", lambda eng, _v=v: _v.final)
            if attr == "length":
                def ln(eng, _v=v):
                    if _v.typ != "bytes": raise PyRaise(Exc("TypeError"))
                    a = announced_len(_v)
                    return a if _v.size is not None else Lazy(a, "int")
                return Builtin("Lazy.length", ln)
            if attr in ("size",) and v.size is not None: return v.size
            raise Unsupported(f"Lazy.{attr}")
        if isinstance(v, tuple) and v and isinstance(v[0], str) and v[0] == "module":
            if (v[1], attr) in MODULE_OVERRIDES and not getattr(self, "real_reports", False): return MODULE_OVERRIDES[(v[1], attr)]
            m = self.load_module(v[1]); return self.resolve_global(m, attr)
        if isinstance(v, tuple) and v and isinstance(v[0], str) and v[0] == "pymodule":
            key = f"{v[1]}.{attr}"
            if key in BUILTINS: return BUILTINS[key]
            if any(k.startswith(key + ".") for k in BUILTINS): return ("pymodule", key)
            raise Unsupported(f"python module attr {key}")
        if isinstance(v, SuperV):
            for b in v.owner.bases:
                if isinstance(b, ClassV):
                    f = b.lookup(attr)
                    if isinstance(f, Func): return Bound(v.obj, f)
            if attr == "__init__": return Builtin("object.__init__", lambda eng, *a, **k: None)
            raise Unsupported(f"super().{attr}")
        if isinstance(v, Obj):
            if attr in v.attrs: return v.attrs[attr]
            if isinstance(v.cls, ClassV):
                f = v.cls.lookup(attr)
                if isinstance(f, Func): return Bound(v, f)
                if f is not None: return f
            hook = OPAQUE_ATTR.get((v.cls if isinstance(v.cls, str) else v.cls.name, attr))
            if hook: return hook(self, v)
            # opaque attribute: materialise an opaque child, remembered
            child = Obj("opaque", name=f"{v.name}.{attr}"); v.attrs[attr] = child; return child
        if isinstance(v, Func) and attr == "__name__": return v.node.name if not isinstance(v.node, ast.Lambda) else "<lambda>"
        if isinstance(v, ClassV):
            f = v.lookup(attr)
            if isinstance(f, Func) and getattr(f, "is_classmethod", False): return Bound(v, f)
            if f is not None: return f
            if attr == "__name__": return v.name
        if isinstance(v, Opaque): return Opaque(v.tag + "." + attr)
        if isinstance(v, dict) and attr in ("get", "items", "keys", "values"):
            return Builtin("dict." + attr, lambda eng, *a, _m=getattr(v, attr): _m(*a))
        if is_symstr(v) or (isinstance(v, str) and attr in SYMSTR_METHODS):
            zs = z3.StringVal(v) if isinstance(v, str) else v
            conc = getattr(v, attr, None) if isinstance(v, str) else None
            def strmeth(eng, *a, _s=zs, _attr=attr, _conc=conc):
                if _conc is not None and _attr != "encode" and not any(is_sym(x) for x in a): return _conc(*a)
                return symstr_method(eng, _s, _attr, a)
            return Builtin("str." + attr, strmeth)
        if isinstance(v, SymBits):
            if attr == "isdigit": return Builtin("isdigit", lambda eng: True)
        if isinstance(v, (str, bytes)) and attr == "join": return Builtin("join", b_join(v))
        if isinstance(v, str) or isinstance(v, (bytes, bytearray)):
            return Builtin("str." + attr, lambda eng, *a, _m=getattr(v, attr): _m(*a))
        if is_symbytes(v) and attr == "ljust":
            def bljust(eng, n, fill=b" ", _v=v):
                if not isinstance(n, int) or n > 32 or not isinstance(fill, (bytes, bytearray)) or len(fill) != 1: raise Unsupported("bytes.ljust with symbolic width")
                L = slen(_v); r = _v
                if isinstance(L, int): return _v if L >= n else z3.Concat(_v, to_z3bytes(bytes(fill) * (n - L)))
                for k in range(n - 1, -1, -1):
                    padk = to_z3bytes(bytes(fill) * (n - k))
                    r = z3.If(L == k, z3.Concat(_v, padk) if k else padk, r)
                return r
            return Builtin("bytes.ljust", bljust)
        if isinstance(v, SymMap):
            if attr == "get": return Builtin("dict.get", lambda eng, key, default=None, _m=v: _m.lookup(eng, key, default))
            raise Unsupported(f"symbolic dict .{attr}")
        if isinstance(v, SymList):
            if attr == "append":
                def lapp(eng, x, _v=v):
                    x = eng.undyn(x)
                    _v.arr = z3.Store(_v.arr, _v.n, z3.IntVal(x) if isinstance(x, int) else x); _v.n = _v.n + 1
                return Builtin("list.append", lapp)
            raise Unsupported(f"symbolic list .{attr}")
        if isinstance(v, ByteBuf):
            if attr == "append":
                def app(eng, x, _v=v):
                    x = eng.undyn(x)
                    if is_sym(x):
                        if eng.branch(z3.Or(x < 0, x > 255)): raise PyRaise(Exc("ValueError"))
                        _v.v = z3.Concat(to_z3bytes(_v.v), z3.Unit(x)) if (is_sym(_v.v) or len(_v.v)) else z3.Unit(x)
                    else:
                        if not 0 <= x <= 255: raise PyRaise(Exc("ValueError"))
                        _v.v = (_v.v + bytes([x])) if not is_sym(_v.v) else z3.Concat(_v.v, z3.Unit(z3.IntVal(x)))
                return Builtin("bytearray.append", app)
            raise Unsupported(f"bytearray.{attr}")
        if isinstance(v, set) and attr in ("add", "discard", "remove", "update", "copy", "clear", "pop"):
            def smeth(eng, *a, _m=getattr(v, attr)):
                if any(is_sym(x) for x in a): raise Unsupported("set with a symbolic member")
                try: return _m(*[list(eng.iterate(x)) if attr == "update" else x for x in a])
                except KeyError: raise PyRaise(Exc("KeyError"))
            return Builtin("set." + attr, smeth)
        if isinstance(v, list) and attr == "append":
            return Builtin("list.append", lambda eng, x, _v=v: _v.append(x))
        if isinstance(v, list) and attr == "sort":
            def lsort(eng, key=None, _v=v):
                r = b_sort(eng, list(_v), key); _v[:] = r
            return Builtin("list.sort", lsort)
        if isinstance(v, list) and attr in ("pop", "remove", "insert", "extend", "reverse", "copy", "index", "count", "clear"):
            def lmeth(eng, *a, _m=getattr(v, attr)):
                try: return _m(*a)
                except IndexError: raise PyRaise(Exc("IndexError"))
                except ValueError: raise PyRaise(Exc("ValueError"))
            return Builtin("list." + attr, lmeth)
        raise Unsupported(f"getattr {v!r}.{attr}")

    def e_Subscript(self, n, env, mod):
        v = self.eval(n.value, env, mod)
        if isinstance(n.slice, ast.Slice) and (is_symstr(v) or isinstance(v, SymList) or is_symbytes(v)):
            lo = self.eval(n.slice.lower, env, mod) if n.slice.lower else None
            hi = self.eval(n.slice.upper, env, mod) if n.slice.upper else None
            if n.slice.step is not None: raise Unsupported("slice step")
            return self.sym_slice(v, lo, hi)
        if isinstance(v, SymMap):
            return v.lookup(self, self.eval(n.slice, env, mod))
        if isinstance(v, SymSplit):
            idx = self.eval(n.slice, env, mod)
            sep = z3.StringVal(v.sep); L = z3.Length(v.s)
            if idx == -1:
                k = z3.LastIndexOf(v.s, sep)
                return z3.SubString(v.s, k + 1, L)
            if idx == 0:
                k = z3.IndexOf(v.s, sep, 0)
                return z3.If(k >= 0, z3.SubString(v.s, 0, k), v.s)
            raise Unsupported("index %r of a symbolic split" % (idx,))
        if is_symstr(v) or isinstance(v, SymList):
            idx = self.undyn(self.eval(n.slice, env, mod))
            ln = z3.Length(v) if is_symstr(v) else v.n
            if self.branch(z3.Or(idx >= ln, idx < -ln)): raise PyRaise(Exc("IndexError"))
            pos = idx if (isinstance(idx, int) and idx >= 0) else (ln + idx if isinstance(idx, int) else z3.If(idx >= 0, idx, ln + idx))
            return z3.SubString(v, pos, 1) if is_symstr(v) else z3.Select(v.arr, pos)
        if isinstance(n.slice, ast.Slice):
            lo = self.eval(n.slice.lower, env, mod) if n.slice.lower else None
            hi = self.eval(n.slice.upper, env, mod) if n.slice.upper else None
            if is_sym(v) or is_sym(lo) or is_sym(hi): raise Unsupported("symbolic slice")
            return v[lo:hi]
        idx = self.eval(n.slice, env, mod)
        if isinstance(v, ClassV) and v.lookup("construct") is not None:
            if v.name in ("Deferred", "SizedDeferred") and not getattr(self, "real_deferred", False):
                # Deferred[T](fn) / SizedDeferred[T](n, fn): the construct contract of DESIGN section 4
                return Builtin(f"{v.name}[]", lambda eng, *a, _c=v, _t=idx: eng.make_deferred(_c, _t, *a))
            # LinearPolynomial[T](...), Concatenator[T](...), Promise[T](...) (and the Deferred family when deferred.py itself is
            # under verification): BaseDeferredMetaclass.__getitem__ -> cls.construct(typ, ...), interpreted from the real source
            def construct(eng, *a, _c=v, _t=idx, **kw):
                c = _c.lookup("construct")
                return eng.call(c, [_c, _t] + list(a), kw)      # classmethod: cls passed explicitly
            return Builtin(f"{v.name}[]", construct)
        if isinstance(v, dict) and is_sym(idx):
            val, has = dict_fns(v, idx)
            if self.branch(z3.Not(has(idx))): raise PyRaise(Exc("KeyError"))
            return val(idx)
        if isinstance(v, dict):
            if type(v).__name__ == "defaultdict": return v[idx]
            if idx not in v: raise PyRaise(Exc("KeyError"))
            return v[idx]
        if isinstance(idx, BitOf) and isinstance(v, (list, tuple)) and len(v) == 2 and all(isinstance(x, (bytes, bytearray)) or is_symbytes(x) for x in v):
            return z3.If(idx.term == 1, to_z3bytes(v[1]), to_z3bytes(v[0]))
        if isinstance(idx, BitOf): idx = idx.term
        if isinstance(v, (list, tuple)) and is_sym(idx) and v and all(isinstance(x, (bytes, bytearray)) or is_symbytes(x) for x in v):
            # [ZERO, ONE][bit]: selection by a symbolic index, IndexError outside the list
            if self.branch(z3.Or(idx < -len(v), idx >= len(v))): raise PyRaise(Exc("IndexError"))
            r = to_z3bytes(v[-1])
            for k in range(len(v) - 2, -1, -1):
                r = z3.If(z3.Or(idx == k, idx == k - len(v)), to_z3bytes(v[k]), r)
            return r
        if isinstance(v, (list, tuple)) and is_sym(idx) and len(v) > 16 and all(isinstance(x, str) for x in v):
            # a long constant table of strings indexed by a symbolic int: uninterpreted function + facts computed from the table
            if self.branch(z3.Or(idx < -len(v), idx >= len(v))): raise PyRaise(Exc("IndexError"))
            k = id(v)
            if k not in LISTFN: LISTFN[k] = (z3.Function("listval_%d" % len(LISTFN), z3.IntSort(), z3.StringSort()), v)
            r = LISTFN[k][0](idx)
            self.assume(z3.And(z3.Length(r) >= min(len(x) for x in v), z3.Length(r) <= max(len(x) for x in v)))
            return r
        if isinstance(v, (list, tuple)) and is_sym(idx) and len(v) <= 8:
            # a short concrete list indexed by a symbolic int: IndexError outside the range, one path per admissible position
            if self.branch(z3.Or(idx < -len(v), idx >= len(v))): raise PyRaise(Exc("IndexError"))
            for k in range(len(v) - 1):
                if self.branch(z3.Or(idx == k, idx == k - len(v))): return v[k]
            return v[len(v) - 1] if v else None
        if isinstance(v, (list, tuple, str, bytes)):
            if is_sym(idx): raise Unsupported("symbolic index into concrete seq")
            try: return v[idx]
            except IndexError: raise PyRaise(Exc("IndexError"))
        if isinstance(v, Obj) and isinstance(v.cls, ClassV) and v.cls.lookup("__getitem__") is not None:
            return self.call(Bound(v, v.cls.lookup("__getitem__")), [idx], {})
        if isinstance(v, Obj) and "__items__" in v.attrs:
            d = v.attrs["__items__"]
            if idx in d: return d[idx]
            child = Obj("opaque", name=f"{v.name}[{idx!r}]"); d[idx] = child; return child
        raise Unsupported(f"subscript {v!r}")

    def sym_slice(self, v, lo, hi):
        """python slicing of a symbolic sequence with clamping; supports non-negative bounds and negative concrete bounds"""
        if is_symstr(v) and hi is None and isinstance(lo, int) and lo >= 0:
            head, rest = head_const(v)
            if len(head) >= lo: return join_parts(head[lo:], rest)
        if is_symstr(v) and lo is None and isinstance(hi, int) and hi < 0:
            rest, tail = tail_const(v)
            if len(tail) >= -hi: return join_parts("", rest + ([z3.StringVal(tail[:hi])] if tail[:hi] else []))
        seq = v.arr if isinstance(v, SymList) else v
        ln = v.n if isinstance(v, SymList) else (z3.Length(seq) if not is_symbytes(seq) else slen(seq))
        def norm(b, default):
            if b is None: return default
            if isinstance(b, int): b = z3.IntVal(b)
            # common case: the bound is provably inside 0..len - keep the term as it is (no clamping noise for the solver)
            r, _ = self.check([z3.Not(z3.And(b >= 0, b <= ln))], timeout_ms=self.branch_timeout_ms)
            if r == z3.unsat: return b
            b = z3.If(b < 0, ln + b, b)
            return z3.If(b < 0, 0, z3.If(b > ln, ln, b))
        a = norm(lo, z3.IntVal(0)); b = norm(hi, ln)
        if isinstance(v, SymList): return SymSlice(seq, a, b)
        return z3.SubString(seq, a, z3.If(b > a, b - a, 0)) if is_symstr(seq) else z3.Extract(seq, a, z3.If(b > a, b - a, 0))

    def e_DictComp(self, n, env, mod):
        out = {}
        def rec(i, e):
            if i == len(n.generators):
                out[self.eval(n.key, e, mod)] = self.eval(n.value, e, mod); return
            g = n.generators[i]
            for item in self.iterate(self.eval(g.iter, e, mod)):
                e2 = Env(e); self.assign_target(g.target, item, e2, mod)
                if all(self.truth(self.eval(c, e2, mod)) for c in g.ifs): rec(i + 1, e2)
        rec(0, env)
        return out
    def e_GeneratorExp(self, n, env, mod): return self.comprehension(n, env, mod)
    def e_ListComp(self, n, env, mod): return self.comprehension(n, env, mod)
    def comp_key(self, n):
        f = self.func_stack[-1] if self.func_stack else None
        if f is None: return None
        cache = getattr(f, "_comps", None)
        if cache is None:
            cache = [c for c in ast.walk(f.node) if isinstance(c, (ast.GeneratorExp, ast.ListComp))]
            cache.sort(key=lambda c: (c.lineno, c.col_offset))
            f._comps = cache
        for i, c in enumerate(cache):
            if c is n: return (f.qualname, i)
        return None

    def comprehension(self, n, env, mod):
        if len(n.generators) == 1 and not n.generators[0].ifs:
            g = n.generators[0]
            it = self.eval(g.iter, env, mod)
            if isinstance(it, (SymList, SymRange)) or is_symstr(it) or is_symbytes(it):
                # comprehension over a symbolic-length sequence: sidecar contract = summary + generic-element obligation
                key = self.comp_key(n)
                spec = self.comp_specs.get(key)
                if spec is None: raise Unsupported("comprehension over a symbolic-length iterable without a contract: %s:%d" % (mod["name"], n.lineno))
                if self.branch(self.fresh_bool("generic_element")):
                    gi = self.fresh_int("g"); self.assume(gi >= 0); self.assume(gi < self.iter_len(it))
                    e2 = Env(env); self.assign_target(g.target, self.iter_item(it, gi), e2, mod)
                    try: outcome = ("value", self.eval(n.elt, e2, mod))
                    except PyRaise as pr: outcome = ("raise", pr.exc)
                    spec.element(self, it, gi, outcome)
                    raise PathEnd()
                return spec.summary(self, it)
        out = []
        def rec(i, e):
            if i == len(n.generators):
                out.append(self.eval(n.elt, e, mod)); return
            g = n.generators[i]
            it = self.eval(g.iter, e, mod)
            for item in self.iterate(it):
                e2 = Env(e); self.assign_target(g.target, item, e2, mod)
                if all(self.truth(self.eval(c, e2, mod)) for c in g.ifs): rec(i + 1, e2)
        rec(0, env)
        return out
    def iterate(self, it):
        if type(it).__name__ in ("dict_items", "dict_keys", "dict_values", "map", "enumerate"): return list(it)
        if isinstance(it, (list, tuple, str, range, bytes)): return list(it)
        if isinstance(it, (set, frozenset)): return sorted(it, key=lambda x: (type(x).__name__, x if isinstance(x, (int, str)) else id(x)))
        if isinstance(it, dict): return list(it)
        if isinstance(it, zip): return list(it)
        raise Unsupported(f"iterate over {it!r}")

    def e_Call(self, n, env, mod):
        if isinstance(n.func, ast.Name) and n.func.id == "super" and not n.args:
            e = env
            while e is not None and getattr(e, "owner_class", None) is None: e = e.parent
            if e is None: raise Unsupported("super() outside a method")
            return SuperV(e.self_obj, e.owner_class)
        f = self.eval(n.func, env, mod)
        args = []
        for a in n.args:
            if isinstance(a, ast.Starred): args += list(self.iterate(self.eval(a.value, env, mod)))
            else: args.append(self.eval(a, env, mod))
        kwargs = {}
        for k in n.keywords:
            if k.arg is None: kwargs.update(self.eval(k.value, env, mod))
            else: kwargs[k.arg] = self.eval(k.value, env, mod)
        return self.call(f, args, kwargs, n)

    def call(self, f, args, kwargs, n=None):
        if isinstance(f, Builtin): return f.fn(self, *args, **kwargs)
        if isinstance(f, Bound): return self.call(f.func, [f.obj] + list(args), kwargs, n)
        if isinstance(f, Func):
            if f.qualname in self.contracts and f.qualname != getattr(self, "verifying", None):
                return self.contracts[f.qualname](self, *args, **kwargs)
            return self.call_func(f, args, kwargs)
        if isinstance(f, Opaque): return Opaque("result")        # a method of diagnostic text: text again
        if isinstance(f, ExcName): return Exc(f.name, tuple(args))
        if isinstance(f, ClassV):
            if f.name in EXC_CLASSES or "Exception" in f.mro_names(): return Exc(f.name, tuple(args))
            obj = Obj(f, name=f.name)
            init = f.lookup("__init__")
            if init is not None: self.call_func(init, [obj] + list(args), kwargs)
            return obj
        if isinstance(f, Obj) and isinstance(f.cls, ClassV) and f.cls.lookup("__call__") is not None:
            return self.call(Bound(f, f.cls.lookup("__call__")), args, kwargs, n)
        if f in (int, str, bytes): raise Unsupported("type call")
        raise Unsupported(f"call {f!r}")

    def call_func(self, f, args, kwargs):
        node = f.node
        # every real function body the engine executes (not replaced by a contract) is code under verification: recorded for the evidence
        try:
            owner = getattr(f, "owner", None)
            mname = f.module["name"] if isinstance(f.module, dict) else str(f.module)
            self.entered.add("%s.%s%s" % (mname, (owner.name + ".") if owner is not None and hasattr(owner, "name") else "", getattr(node, "name", "<lambda>")))
        except Exception:      # pragma: no cover
            pass
        env = Env(f.env)
        env.owner_class = getattr(f, "owner", None) or getattr(f.env, "owner_class", None)
        env.self_obj = args[0] if (getattr(f, "owner", None) is not None and args) else getattr(f.env, "self_obj", None)
        a = node.args
        params = [p.arg for p in a.args]
        defaults = a.defaults
        nd = len(params) - len(defaults)
        args = list(args)
        for i, p in enumerate(params):
            if i < len(args): env.vars[p] = args[i]
            elif p in kwargs: env.vars[p] = kwargs.pop(p)
            elif i >= nd: env.vars[p] = self.eval(defaults[i - nd], f.env, f.module)
            else: raise PyRaise(Exc("TypeError"))
        if a.vararg: env.vars[a.vararg.arg] = tuple(args[len(params):])
        elif len(args) > len(params): raise PyRaise(Exc("TypeError"))
        for k in a.kwonlyargs:
            if k.arg in kwargs: env.vars[k.arg] = kwargs.pop(k.arg)
        if a.kwarg: env.vars[a.kwarg.arg] = dict(kwargs)
        elif kwargs: raise PyRaise(Exc("TypeError"))
        if isinstance(node, ast.Lambda): return self.eval(node.body, env, f.module)
        self.func_stack.append(f)
        try:
            self.exec_block(node.body, env, f.module)
        except ReturnSig as r:
            return r.v
        finally:
            self.func_stack.pop()
        return None

    # Deferred[T](fn) / SizedDeferred[T](size, fn): contract of BaseDeferred.construct --
    # evaluates fn symbolically once (its obligations are those of the enclosing function) and returns
    # either the raw result (eager) or a Lazy wrapper (postponed) -- both continuations are explored.
    def free_captures(self, fn):
        """(env, name, current value) of every variable a deferred body reads from an enclosing *function* scope"""
        if not isinstance(fn, Func): return []
        node = fn.node
        body = node.body if isinstance(node.body, list) else [node.body]
        loads, stores = set(), set()
        for st in body:
            for n in ast.walk(st):
                if isinstance(n, ast.Name):
                    (loads if isinstance(n.ctx, ast.Load) else stores).add(n.id)
        if not isinstance(node, ast.Lambda):
            for p in node.args.args: stores.add(p.arg)
        out = []
        for name in sorted(loads - stores):
            e = fn.env
            while e is not None and e.parent is not None:        # stop before the module env
                if name in e.vars:
                    out.append((e, name, e.vars[name])); break
                e = e.parent
        return out

    def check_sites(self):
        """site obligation of every SizedDeferred constructed on this path (C02): the announced size is the real length, or an error was reported"""
        for note in self.path.notes:
            if note[0] == "sized" and not (len(note) > 3 and note[3]):
                _, size, value = note[:3]
                v = value.final if isinstance(value, Lazy) else value
                if isinstance(v, ByteBuf): v = v.v
                try: ln = slen(v)
                except Unsupported: continue
                conc = any(e[0] == "error" for e in self.path.events)
                syms = [e[2] for e in self.path.events if e[0] == "sym-error"]
                self.prove("sized-site:announced-size==length-of-the-final-bytes-or-an-error-was-reported", z3.Or([z3.BoolVal(conc)] + syms + [ln == size]) if (is_sym(ln) or is_sym(size) or syms) else (conc or ln == size))
        self.path.notes = [n for n in self.path.notes if n[0] != "sized"]

    def check_captures(self):
        for qual, line, caps in self.path.captures:
            changed = [name for (env_, name, val) in caps if env_.vars.get(name) is not val and not _same_value(env_.vars.get(name), val)]
            if changed:
                self.prove("deferred-body-%s@%d-reads-no-variable-that-is-reassigned-after-its-construction(late binding): %s" % (qual, line, ",".join(changed)), False)
        self.path.captures = []

    def make_deferred(self, cls, typ, *a):
        if cls.name == "SizedDeferred": size, fn = a
        else: size, fn = None, a[0]
        # the abstraction evaluates the body now; the real body may run later: what it reads from enclosing scopes must not change
        self.path.captures.append((getattr(fn, "qualname", "?"), getattr(getattr(fn, "node", None), "lineno", 0), self.free_captures(fn)))
        self.path.n_deferred = getattr(self.path, "n_deferred", 0) + 1
        typ = getattr(typ, "pytype", typ)
        if not isinstance(typ, (type, ClassV)):
            raise PyRaise(Exc("TypeError"))        # BaseDeferredMetaclass.__getitem__: 'must be passed a type in brackets'
        value = self.call(fn, [], {})
        tname = "int" if typ is int else "bytes" if typ is bytes else "obj"
        if size is not None:
            self.path.notes.append(("sized", size, value))
        mode = getattr(self, "lazy_mode", "both")
        if mode == "eager": return value
        if mode == "both":
            eager = self.fresh_bool("eager")
            if self.branch(eager): return value
        if isinstance(value, Lazy): return Lazy(value.final, tname, size if size is not None else value.size)
        return Lazy(value, tname, size)

    # ---------- statements
    def exec_block(self, body, env, mod):
        for st in body: self.exec(st, env, mod)
    def exec(self, st, env, mod):
        m = getattr(self, "s_" + type(st).__name__, None)
        if m is None: raise Unsupported(f"stmt {type(st).__name__} at {mod['name']}:{st.lineno}")
        return m(st, env, mod)
    def s_Expr(self, st, env, mod): self.eval(st.value, env, mod)
    def s_Pass(self, st, env, mod): pass
    def s_Return(self, st, env, mod): raise ReturnSig(self.eval(st.value, env, mod) if st.value else None)
    def s_Break(self, st, env, mod): raise BreakSig()
    def s_Continue(self, st, env, mod): raise ContinueSig()
    def s_Nonlocal(self, st, env, mod): env.nonlocals.update(st.names)
    def s_ImportFrom(self, st, env, mod):
        for a in st.names:
            if st.module is None: env.assign(a.asname or a.name, ("module", a.name))
            else: env.assign(a.asname or a.name, self.resolve_global(self.load_module(st.module), a.name))
    def s_FunctionDef(self, st, env, mod):
        f = Func(st, env, mod, st.name); f.owner = getattr(env, "owner_class", None)
        env.assign(st.name, f)
    def s_ClassDef(self, st, env, mod): env.assign(st.name, self.build_class(st, env, mod))
    def s_Assign(self, st, env, mod):
        v = self.eval(st.value, env, mod)
        for t in st.targets: self.assign_target(t, v, env, mod)
    def s_AnnAssign(self, st, env, mod):
        if st.value is not None: self.assign_target(st.target, self.eval(st.value, env, mod), env, mod)
    def s_AugAssign(self, st, env, mod):
        cur = self.eval(st.target, env, mod)
        rhs = self.eval(st.value, env, mod)
        if isinstance(cur, list) and isinstance(st.op, ast.Add) and isinstance(rhs, (list, tuple, type({}.items()), type({}.keys()), type({}.values()), set, frozenset)):
            cur.extend(rhs)          # list.__iadd__: in place, any iterable
            self.assign_target(st.target, cur, env, mod)
            return
        v = self.binop(st.op, cur, rhs)
        self.assign_target(st.target, v, env, mod)
    def assign_target(self, t, v, env, mod):
        if isinstance(t, ast.Name): env.assign(t.id, v)
        elif isinstance(t, (ast.Tuple, ast.List)) and is_symstr(v):
            k = len(t.elts)
            kl = known_len(v)
            if (kl != k) if kl is not None else self.branch(z3.Length(v) != k): raise PyRaise(Exc("ValueError"))
            for j, tt in enumerate(t.elts): self.assign_target(tt, substr1(v, j), env, mod)
        elif isinstance(t, (ast.Tuple, ast.List)) and isinstance(v, SymSlice):
            k = len(t.elts)
            n_ = z3.simplify(z3.If(v.stop > v.start, v.stop - v.start, 0))
            if self.branch(n_ != k): raise PyRaise(Exc("ValueError"))
            for j, tt in enumerate(t.elts): self.assign_target(tt, z3.Select(v.arr, v.start + j), env, mod)
        elif isinstance(t, (ast.Tuple, ast.List)) and any(isinstance(e, ast.Starred) for e in t.elts):
            vs = list(self.iterate(v))
            k = [i for i, e in enumerate(t.elts) if isinstance(e, ast.Starred)][0]
            after = len(t.elts) - k - 1
            if len(vs) < len(t.elts) - 1: raise PyRaise(Exc("ValueError"))
            for tt, vv in zip(t.elts[:k], vs[:k]): self.assign_target(tt, vv, env, mod)
            self.assign_target(t.elts[k].value, vs[k:len(vs) - after], env, mod)
            for tt, vv in zip(t.elts[k + 1:], vs[len(vs) - after:]): self.assign_target(tt, vv, env, mod)
        elif isinstance(t, (ast.Tuple, ast.List)):
            vs = list(self.iterate(v))
            if len(vs) != len(t.elts): raise PyRaise(Exc("ValueError"))
            for tt, vv in zip(t.elts, vs): self.assign_target(tt, vv, env, mod)
        elif isinstance(t, ast.Attribute):
            o = self.eval(t.value, env, mod)
            if isinstance(o, Obj):
                o.attrs[t.attr] = v
                if self.path is not None: self.path.notes.append(("store", o, t.attr, v))
            elif isinstance(o, ClassV):
                o.ns[t.attr] = v
                if t.attr == "__name__" and isinstance(v, str): o.name = v
                if self.path is not None: self.path.notes.append(("class-store", o, t.attr, v))
            else: raise Unsupported("attr store")
        elif isinstance(t, ast.Subscript):
            o = self.eval(t.value, env, mod); i = self.eval(t.slice, env, mod)
            if isinstance(o, SymMap): o.store(i, v)
            elif isinstance(o, (list, dict)) and not is_sym(i): o[i] = v
            elif isinstance(o, dict) and is_symint(i):
                # int-keyed registry with a symbolic key (internal_prefix_to_state): kept as an association list on the side
                o.setdefault("__symkeys__", []).append((i, v))
            elif isinstance(o, Obj) and isinstance(o.cls, ClassV) and o.cls.lookup("__setitem__") is not None:
                self.call(Bound(o, o.cls.lookup("__setitem__")), [i, v], {})
            else: raise Unsupported("subscript store")
        else: raise Unsupported("assign target")
    def s_If(self, st, env, mod):
        if self.truth(self.eval(st.test, env, mod)): self.exec_block(st.body, env, mod)
        else: self.exec_block(st.orelse, env, mod)
    def s_Assert(self, st, env, mod):
        c = self.eval(st.test, env, mod)
        if not self.truth(c): raise PyRaise(Exc("AssertionError"))
    def s_Raise(self, st, env, mod):
        if st.exc is None:
            # bare 'raise' inside a handler: the exception being handled
            cur = getattr(self, "handling", None)
            if not cur: raise Unsupported("bare raise outside an except block")
            raise PyRaise(cur[-1])
        e = self.eval(st.exc, env, mod)
        if isinstance(e, ClassV): e = Exc(e.name)
        raise PyRaise(e)
    def s_For(self, st, env, mod):
        it = self.eval(st.iter, env, mod)
        if isinstance(it, (SymList, SymRange, SymObjList)) or is_symstr(it) or is_symbytes(it):
            spec = self.loop_spec_for(st)
            if spec is None and is_symstr(it) and known_len(it) is not None and known_len(it) <= 16:
                it = [z3.SubString(it, k_, 1) for k_ in range(known_len(it))]        # a string of known length: unrolled
                for item in it:
                    self.assign_target(st.target, item, env, mod)
                    try: self.exec_block(st.body, env, mod)
                    except BreakSig: break
                    except ContinueSig: continue
                else:
                    self.exec_block(st.orelse, env, mod)
                return
            if spec is None: raise Unsupported("for loop over a symbolic-length iterable without a loop contract: %s:%d" % (mod["name"], st.lineno))
            return self.cut_loop(spec, st, env, mod, it)
        for item in self.iterate(it):
            self.assign_target(st.target, item, env, mod)
            try: self.exec_block(st.body, env, mod)
            except BreakSig: break
            except ContinueSig: continue
        else:
            self.exec_block(st.orelse, env, mod)
    def s_While(self, st, env, mod):
        fuel = 4096
        while True:
            c = self.eval(st.test, env, mod)
            spec = self.loop_spec_for(st)
            if spec is not None:
                return self.cut_loop(spec, st, env, mod)
            if not self.truth(c): break
            fuel -= 1
            if fuel <= 0: raise Unsupported("while loop without invariant exceeded fuel")
            try: self.exec_block(st.body, env, mod)
            except BreakSig: return
            except ContinueSig: continue
        self.exec_block(st.orelse, env, mod)
    def loop_key(self, st):
        f = self.func_stack[-1] if self.func_stack else None
        if f is None: return None
        cache = getattr(f, "_loops", None)
        if cache is None:
            cache = []
            def walk(n):
                for c in ast.iter_child_nodes(n):
                    if isinstance(c, (ast.FunctionDef, ast.Lambda, ast.ClassDef)): continue
                    if isinstance(c, (ast.For, ast.While)): cache.append(c)
                    walk(c)
            walk(f.node)
            f._loops = cache
        for i, n in enumerate(cache):
            if n is st: return (f.qualname, i)
        return None
    def loop_spec_for(self, st):
        k = self.loop_key(st)
        return self.loop_specs.get(k) if k else None

    def iter_len(self, it):
        if isinstance(it, (SymList, SymObjList)): return it.n
        if isinstance(it, SymRange):
            span = it.stop - it.start
            if not (isinstance(it.step, int) and it.step > 0): raise Unsupported("symbolic range step")
            return z3.If(span <= 0, 0, (span + it.step - 1) / it.step)
        if is_symstr(it): return z3.Length(it)
        return slen(it)
    def iter_item(self, it, i):
        if isinstance(it, SymList): return z3.Select(it.arr, i)
        if isinstance(it, SymObjList): return it.factory(self, i)
        if isinstance(it, SymRange): return it.start + it.step * i
        if is_symstr(it): return z3.SubString(it, i, 1)
        return it[i]

    def cut_loop(self, spec, st, env, mod, it=None):
        """cut-point rule: invariant on entry; havoc; assume invariant; one arbitrary iteration re-establishes it
        (and decreases the variant); continue after the loop from invariant and not guard"""
        qual, ordn = self.loop_key(st)
        label = "%s#loop%d" % (qual, ordn)
        idx = "__i%d" % ordn
        self.loops_cut = getattr(self, "loops_cut", set()) | {label}
        if it is not None: env.vars[idx] = 0
        env.vars["__ghost%d" % ordn] = None      # ghost state of this loop instance (set by spec.havoc, read by spec.inv)
        for lab, c in spec.inv(self, env): self.prove("%s:invariant-holds-on-entry:%s" % (label, lab), c)
        before = dict(env.vars)
        spec.havoc(self, env)
        # every other variable the body assigns is arbitrary at the head of an arbitrary iteration too: the contract is silent about it
        assigned = set()
        def stores0(node):
            for c in ast.iter_child_nodes(node):
                if isinstance(c, (ast.FunctionDef, ast.Lambda, ast.ClassDef)):
                    if isinstance(c, (ast.FunctionDef, ast.ClassDef)): assigned.add(c.name)
                    for sub in ast.walk(c):
                        if isinstance(sub, ast.Nonlocal): assigned.update(sub.names)
                    continue
                if isinstance(c, ast.Name) and isinstance(c.ctx, ast.Store): assigned.add(c.id)
                stores0(c)
        for b_ in st.body: stores0(ast.Module(body=[b_], type_ignores=[]))
        for name in sorted(assigned):
            if name.startswith("__") or name in env.nonlocals: continue
            if name in env.vars and env.vars[name] is not before.get(name, env): continue     # the contract's havoc set it
            env.vars[name] = Havoc(name, label)
        i = None
        if it is not None:
            i = self.fresh_int("i"); env.vars[idx] = i
            n = self.iter_len(it)
            self.assume(i >= 0); self.assume(i <= n)
        for lab, c in spec.inv(self, env): self.assume(c)
        if self.branch(self.fresh_bool("loop_continues")):
            if it is None:
                if not self.truth(self.eval(st.test, env, mod)): raise PathEnd()
            else:
                self.assume(i < n)
                self.assign_target(st.target, self.iter_item(it, i), env, mod)
            v0 = spec.variant(self, env) if spec.variant else None
            try: self.exec_block(st.body, env, mod)
            except ContinueSig: pass
            except BreakSig: return
            if it is not None: env.vars[idx] = i + 1
            # a deferred body constructed in this iteration may run after later iterations: it must not read loop-carried variables
            carried = set()
            def stores(node):
                for c in ast.iter_child_nodes(node):
                    if isinstance(c, (ast.FunctionDef, ast.Lambda, ast.ClassDef)):
                        for sub in ast.walk(c):
                            if isinstance(sub, ast.Nonlocal): carried.update(sub.names)
                        continue
                    if isinstance(c, ast.Name) and isinstance(c.ctx, ast.Store): carried.add(c.id)
                    stores(c)
            stores(st)
            for qual, line, caps in self.path.captures:
                late = sorted(name for (env_, name, val) in caps if env_ is env and name in carried)
                if late:
                    self.prove("deferred-body-%s@%d-reads-no-loop-carried-variable(late binding across iterations): %s" % (qual, line, ",".join(late)), False)
            self.check_captures()
            self.check_sites()
            for lab, c in spec.inv(self, env): self.prove("%s:invariant-preserved:%s" % (label, lab), c)
            if v0 is not None:
                v1 = spec.variant(self, env)
                self.prove("%s:variant-decreases-and-is-bounded-below" % label, z3.And(v1 < v0, v0 >= 0))
            raise PathEnd()
        if it is None:
            if self.truth(self.eval(st.test, env, mod)): raise PathEnd()
        else:
            self.assume(i == n)
        self.exec_block(st.orelse, env, mod)
    def s_With(self, st, env, mod):
        if len(st.items) != 1: raise Unsupported("multi-item with")
        item = st.items[0]
        cm = self.eval(item.context_expr, env, mod)
        enter = self.getattr(cm, "__enter__"); exit_ = self.getattr(cm, "__exit__")
        v = self.call(enter, [], {})
        if item.optional_vars is not None: self.assign_target(item.optional_vars, v, env, mod)
        try:
            self.exec_block(st.body, env, mod)
        except PyRaise as pr:
            cls = self.exc_class_value(pr.exc)
            swallow = self.call(exit_, [cls, pr.exc, Opaque("tb")], {})
            if not self.truth(swallow): raise
            return
        except (ReturnSig, BreakSig, ContinueSig):
            self.call(exit_, [None, None, None], {})
            raise
        self.call(exit_, [None, None, None], {})
    def exc_class_value(self, exc):
        """class object for an Exc: the repo ClassV when it is a repo class, else a name token"""
        for m in self.modules.values():
            v = m["env"].vars.get(exc.cls)
            if isinstance(v, ClassV): return v
            if isinstance(v, tuple) and v and v[0] == "lazyclass": return self.resolve_global(m, exc.cls)
        return ExcName(exc.cls)
    def s_Try(self, st, env, mod):
        try:
            try:
                self.exec_block(st.body, env, mod)
            except PyRaise as pr:
                for h in st.handlers:
                    if h.type is None or self.exc_matches(pr.exc, self.eval(h.type, env, mod)):
                        if h.name: env.assign(h.name, pr.exc)
                        if not hasattr(self, "handling"): self.handling = []
                        self.handling.append(pr.exc)
                        try: self.exec_block(h.body, env, mod)
                        finally: self.handling.pop()
                        break
                else: raise
            else:
                self.exec_block(st.orelse, env, mod)
        finally:
            if st.finalbody: self.exec_block(st.finalbody, env, mod)
    def exc_matches(self, exc, spec):
        specs = spec if isinstance(spec, tuple) else (spec,)
        for s in specs:
            name = s.name if isinstance(s, (ClassV, ExcName)) else getattr(s, "__name__", str(s))
            if exc.cls == name or name == "BaseException": return True
            if name == "Exception" and exc.cls not in ("SystemExit", "KeyboardInterrupt", "GeneratorExit"): return True
            if name in EXC_PARENTS.get(exc.cls, ()): return True
        return False

DECORATORS_INTERPRETED = {"operators", "formats"}
EAGER_MODULES = {"formats"}
EXC_CLASSES = {"RecoverableError", "UnrecoverableError", "NotReadyError", "DeferredCycle"}
EXC_PARENTS = {"FileNotFoundError": ("OSError", "IOError"), "IsADirectoryError": ("OSError", "IOError"), "ZeroDivisionError": ("ArithmeticError",),
               "UnicodeEncodeError": ("UnicodeError", "ValueError"), "UnicodeDecodeError": ("UnicodeError", "ValueError"),
               "IndexError": ("LookupError",), "KeyError": ("LookupError",), "OSError": ("IOError",), "IOError": ("OSError",),
               "OverflowError": ("ArithmeticError",), "RecursionError": ("RuntimeError",), "NotImplementedError": ("RuntimeError",), "UnicodeError": ("ValueError",),
               "struct.error": ()}
OPAQUE_ATTR = {}
MODULE_OVERRIDES = {}

# ---------- builtin models
def b_isinstance(eng, v, cls):
    classes = cls if isinstance(cls, tuple) else (cls,)
    for c in classes:
        c = getattr(c, "pytype", c)
        if c is int:
            if isinstance(v, bool): return True
            if isinstance(v, int) or is_symint(v): return True
            if isinstance(v, Dyn): return v.is_int
            continue
        if c is str:
            if isinstance(v, str) or is_symstr(v): return True
            if isinstance(v, Obj) and v.cls == "SymStr": return True
            if isinstance(v, Dyn): return z3.Not(v.is_int)
            continue
        if c is bytes:
            if isinstance(v, bytes) or is_symbytes(v): return True
            continue
        if c is dict or c is list:
            if isinstance(v, c): return True
            continue
        if isinstance(c, ClassV):
            if isinstance(v, Lazy):
                if c.name in ("BaseDeferred", "Deferred"): return True
                if c.name == "SizedDeferred":
                    if v.size is not None: return True
                    continue
                continue
            if isinstance(v, Obj) and isinstance(v.cls, ClassV) and any(c is k for k in v.cls.mro()): return True
            if isinstance(v, Obj) and isinstance(v.cls, str) and v.cls == "opaque": raise Unsupported(f"isinstance of opaque {v} vs {c.name}")
            continue
    return False

def announced_len(v):
    if isinstance(v, Lazy):
        return v.announced if v.announced is not None else slen(to_z3bytes(v.final))
    if isinstance(v, ByteBuf): v = v.v
    return slen(v)

def b_set(eng, v=()):
    """a set of concrete hashable members (objects by identity, concrete ints / strings); symbolic members are outside the subset"""
    items = list(eng.iterate(v))
    if any(is_sym(x) for x in items): raise Unsupported("set of symbolic values")
    return set(items)

def b_len(eng, v):
    if isinstance(v, Obj) and isinstance(v.cls, ClassV) and v.cls.lookup("__len__") is not None:
        return eng.call(Bound(v, v.cls.lookup("__len__")), [], {})
    if is_symbytes(v): return slen(v)
    if is_symstr(v): return known_len(v) if known_len(v) is not None else z3.Length(v)
    if isinstance(v, SymList): return v.n
    if isinstance(v, ByteBuf): return b_len(eng, v.v)
    if isinstance(v, Lazy):
        if v.size is not None: return v.size       # SizedDeferred.__len__
        raise PyRaise(Exc("NotImplementedError"))
    return len(v)

def b_struct_pack(eng, fmt, *vals):
    import struct
    import re as _re
    vals = [eng.undyn(v) for v in vals]
    if not any(is_sym(v) for v in vals):
        try: return struct.pack(fmt, *vals)
        except struct.error: raise PyRaise(Exc("struct.error"))
    if fmt[0] not in "<>": raise Unsupported("struct byte order " + fmt[0])
    big = fmt[0] == ">"
    codes = _re.findall(r"(\d*)([A-Za-z])", fmt[1:])
    if "".join(n + c for n, c in codes) != fmt[1:] or not all(c in "HBIs" and (not n or c == "s") for n, c in codes): raise Unsupported("struct fmt " + fmt)
    if len(codes) != len(vals): raise PyRaise(Exc("struct.error"))
    vals = [z3.IntVal(v) if isinstance(v, int) else v for v in vals]
    out = []
    for (cnt, code), v in zip(codes, vals):
        if code == "s":
            n = int(cnt or 1)
            if isinstance(v, (bytes, bytearray)):
                out.append(to_z3bytes(bytes(v[:n]).ljust(n, b"\0")))
            elif is_symbytes(v):
                # exact only when the length is known to be n (else struct pads / truncates)
                ln = slen(v)
                r = z3.unsat if (isinstance(ln, int) and ln == n) else (eng.check([ln != n])[0] if is_sym(ln) else z3.sat)
                if r != z3.unsat: raise Unsupported("struct 's' with a symbolic sequence of unknown length")
                out.append(v)
            else: raise PyRaise(Exc("struct.error"))
            continue
        if not is_symint(v) and not isinstance(v, z3.IntNumRef): raise PyRaise(Exc("struct.error"))
        if code == "H":
            if eng.branch(z3.Or(v < 0, v > 65535)): raise PyRaise(Exc("struct.error"))
            out += [z3.Unit(v / 256), z3.Unit(v % 256)] if big else [z3.Unit(v % 256), z3.Unit(v / 256)]
        elif code == "B":
            if eng.branch(z3.Or(v < 0, v > 255)): raise PyRaise(Exc("struct.error"))
            out += [z3.Unit(v + 0)]
        elif code == "I":
            if eng.branch(z3.Or(v < 0, v > 2 ** 32 - 1)): raise PyRaise(Exc("struct.error"))
            bs = [z3.Unit(v % 256), z3.Unit(v / 256 % 256), z3.Unit(v / 65536 % 256), z3.Unit(v / 16777216)]
            out += bs[::-1] if big else bs
    return out[0] if len(out) == 1 else z3.Concat(*out)

def b_report(kind):
    def fn(eng, ident, *spans):
        eng.path.events.append((kind, ident))
        if kind == "critical": raise PyRaise(Exc("UnrecoverableError"))
    return fn

def b_wait(eng, v):
    if isinstance(v, Lazy): return v.final
    return v

def b_abs(eng, v):
    v = eng.undyn(v)
    if not is_sym(v): return abs(v)
    return v if eng.branch(v >= 0) else -v

def b_oct(eng, v):
    v = eng.undyn(v)
    if not is_sym(v): return oct(v)
    eng.assumptions.add("oct() of a symbolic int is '0o' / '-0o' followed by an uninterpreted non-empty digit string octdigits(|n|)")
    if eng.branch(v >= 0):
        d = octstr(v); pre = "0o"
    else:
        d = octstr(-v); pre = "-0o"
    eng.assume(z3.Length(d) >= 1)
    return z3.Concat(z3.StringVal(pre), d)

def b_int(eng, v, base=10):
    if isinstance(v, SymBits): 
        assert base == 2; return v.value()
    if is_symstr(v):
        if base == 8: return octval(v)
        if base == 10:
            if eng.branch(z3.StrToInt(v) < 0): raise PyRaise(Exc("ValueError"))
            return z3.StrToInt(v)
        if base == 16:
            # one or two hexadecimal digits (what '\\xNN' hands over): the value is an uninterpreted function of the text within 0..255;
            # any other symbolic text is outside the subset
            hexdig = z3.StringVal("0123456789abcdefABCDEF")
            c0, c1 = z3.SubString(v, 0, 1), z3.SubString(v, 1, 1)
            two = z3.And(z3.Length(v) == 2, z3.Contains(hexdig, c0), z3.Contains(hexdig, c1))
            one = z3.And(z3.Length(v) == 1, z3.Contains(hexdig, c0))
            if eng.branch(z3.Or(one, two)):
                r = hexval(v)
                eng.assume(z3.And(r >= 0, r <= 255, z3.Implies(one, r <= 15)))
                return r
        raise Unsupported("int(symbolic str, %r)" % base)
    if is_sym(v): return v
    try:
        return int(v, base) if isinstance(v, str) else int(v)
    except (ValueError, TypeError, OverflowError) as e:
        if isinstance(v, (str, int, float, bytes, bool)) or v is None:       # concrete operand: this IS what CPython does
            raise PyRaise(Exc(type(e).__name__))
        raise

class SymBits:
    """a str built from '0'/'1' characters some of which are symbolic bits (list of int | SymDigit).
    value(): runs of digits (v,k-1) ... (v,0) of one value v are recomposed to v mod 2^k - justified by
    the step lemmas  v mod 2^k == ((v div 2^(k-1)) mod 2) * 2^(k-1) + v mod 2^(k-1)  (lemma unit bit-recomposition)."""
    def __init__(self, bits): self.bits = bits
    def value(self):
        n = len(self.bits); terms = []; i = 0
        while i < n:
            b = self.bits[i]
            if isinstance(b, SymDigit) and b.src is not None:
                v, hi = b.src; j = i
                while (j + 1 < n and isinstance(self.bits[j + 1], SymDigit) and self.bits[j + 1].src is not None
                       and self.bits[j + 1].src[0] is v and self.bits[j + 1].src[1] == self.bits[j].src[1] - 1): j += 1
                lo = self.bits[j].src[1]; k = hi - lo + 1
                if lo == 0 and k > 1:
                    terms.append((v % 2 ** k) * 2 ** (n - 1 - j)); i = j + 1; continue
            bit = b.bit if isinstance(b, SymDigit) else b
            terms.append(bit * 2 ** (n - 1 - i)); i += 1
        return z3.Sum(terms) if any(is_sym(t) for t in terms) else sum(terms)

class SymDigit:
    def __init__(self, bit, src=None): self.bit = bit; self.src = src

def b_str(eng, v):
    if isinstance(v, BitOf): return SymDigit(v.term, (v.v, v.i))
    if is_symint(v):
        # str() of a symbolic int is only modelled for single binary digits
        if not eng.branch(z3.And(v >= 0, v <= 1)): raise Unsupported("str(symbolic int) outside {0,1}")
        return SymDigit(v)
    return str(v)

class BitOf:
    """(v >> i) & 1 of a symbolic v with provenance"""
    def __init__(self, v, i): self.v, self.i = v, i; self.term = fdiv(v, 2 ** i) % 2

def b_join(sep):
    def fn(eng, items):
        if (is_symstr(items) and sep == "") or (is_symbytes(items) and sep == b""): return items     # summary of a comprehension over a symbolic sequence
        items = list(items)
        if any(isinstance(i, SymDigit) for i in items):
            assert sep == ""
            bits = []
            for it in items:
                if isinstance(it, SymDigit): bits.append(it)
                elif isinstance(it, str) and len(it) == 1 and it in "01": bits.append(int(it))
                else: return Opaque("str")      # non-binary char: isdigit() may fail
            return SymBits(bits)
        if any(is_symbytes(i) for i in items) or isinstance(sep, bytes) and any(is_sym(i) for i in items):
            zs = [to_z3bytes(i) for i in items]
            return z3.Concat(*zs) if len(zs) > 1 else zs[0] if zs else b""
        if isinstance(sep, str) and any(is_symstr(i) for i in items):
            zs = []
            for k_, i in enumerate(items):
                if k_ and sep: zs.append(z3.StringVal(sep))
                zs.append(zstr(i))
            return z3.Concat(*zs) if len(zs) > 1 else zs[0]
        return sep.join(items)
    return fn

BUILTINS = {
    "isinstance": Builtin("isinstance", b_isinstance),
    "len": Builtin("len", b_len),
    "struct.pack": Builtin("struct.pack", b_struct_pack),
    "int": TypeV("int", b_int, int), "str": TypeV("str", b_str, str), "bytes": TypeV("bytes", lambda eng, v=b"": b_bytes(eng, v), bytes),
    "list": TypeV("list", lambda eng, v=(): list(eng.iterate(v)), list),
    "set": TypeV("set", lambda eng, v=(): b_set(eng, v), set),
    "dict": TypeV("dict", lambda eng, v=(), **kw: dict(v, **kw), dict),
    "range": Builtin("range", lambda eng, *a: b_range(eng, *a)),
    "zip": Builtin("zip", lambda eng, *a: list(zip(*[eng.iterate(x) for x in a]))),
    "enumerate": Builtin("enumerate", lambda eng, a: list(enumerate(eng.iterate(a)))),
    "type": Builtin("type", lambda eng, v: v.cls if isinstance(v, Obj) and isinstance(v.cls, ClassV) else Opaque("type")),
    "hasattr": Builtin("hasattr", lambda eng, o, a: b_hasattr(eng, o, a)),
    "callable": Builtin("callable", lambda eng, v: isinstance(v, (Func, Builtin, Bound, ClassV))),
    "float": Builtin("float", lambda eng, v: float(v)),
    "min": Builtin("min", lambda eng, *a: b_minmax(eng, a, True)),
    "max": Builtin("max", lambda eng, *a: b_minmax(eng, a, False)),
    "map": Builtin("map", lambda eng, f, it: [eng.call(f, [x], {}) for x in eng.iterate(it)]),
    "tuple": Builtin("tuple", lambda eng, v=(): tuple(eng.iterate(v))),
    "bytearray": Builtin("bytearray", lambda eng, v=b"": ByteBuf(v)),
    "sum": Builtin("sum", lambda eng, it, start=0: b_sum(eng, it, start)),
    "all": Builtin("all", lambda eng, it: all(eng.truth(x) for x in eng.iterate(it))),
    "any": Builtin("any", lambda eng, it: any(eng.truth(x) for x in eng.iterate(it))),
    "oct": Builtin("oct", b_oct),
    "abs": Builtin("abs", lambda eng, v: b_abs(eng, v)),
    "sorted": Builtin("sorted", lambda eng, it, key=None: b_sort(eng, list(eng.iterate(it)), key)),
    "repr": Builtin("repr", lambda eng, v: Opaque("repr")),
    "print": Builtin("print", lambda eng, *a, **k: eng.path.events.append(("print", "stderr" if "file" in k else "stdout"))),
    "chr": Builtin("chr", lambda eng, v: b_chr(eng, v)),
    "reversed": Builtin("reversed", lambda eng, it: list(reversed(list(eng.iterate(it))))),
    "struct.unpack": Builtin("struct.unpack", lambda eng, fmt, data: b_struct_unpack(eng, fmt, data)),
}
for _n in ("Exception", "BaseException", "TypeError", "ValueError", "KeyError", "IndexError", "ZeroDivisionError", "IOError", "OSError",
           "FileNotFoundError", "IsADirectoryError", "UnicodeEncodeError", "UnicodeDecodeError", "NotImplementedError", "AssertionError",
           "LookupError", "RecursionError", "OverflowError", "ArithmeticError", "AttributeError", "MemoryError", "StopIteration", "RuntimeError", "UnicodeError"):
    BUILTINS[_n] = ExcName(_n)
BUILTINS["struct.error"] = ExcName("struct.error")
BUILTINS["SystemExit"] = ExcName("SystemExit")
BUILTINS["LookupError"] = ExcName("LookupError")
def _sys_exit(eng, code=0):
    eng.path.events.append(("exit", code))
    raise PyRaise(Exc("SystemExit", (code,)))
BUILTINS["sys.exit"] = Builtin("sys.exit", _sys_exit)
BUILTINS["sys.stderr"] = Opaque("stderr")
BUILTINS["traceback.print_exc"] = Builtin("traceback.print_exc", lambda eng: eng.path.events.append(("print", "stderr")))
for _n in ("python_implementation", "python_version", "platform"):
    BUILTINS["platform." + _n] = Builtin("platform." + _n, lambda eng: Opaque("platform"))
def b_type_hints(eng, fn):
    out = {}
    if isinstance(fn, Func) and getattr(fn.node, "returns", None) is not None:
        out["return"] = eng.eval(fn.node.returns, fn.env, fn.module)
    return out
BUILTINS["typing.get_type_hints"] = Builtin("typing.get_type_hints", b_type_hints)
def b_defaultdict(eng, factory=None):
    import collections
    py = {"int": int, "dict": dict, "list": list}.get(getattr(factory, "name", None))
    if factory is not None and py is None: raise Unsupported("defaultdict factory")
    return collections.defaultdict(py)
BUILTINS["collections.defaultdict"] = Builtin("collections.defaultdict", b_defaultdict)
BUILTINS["NotImplemented"] = NotImplemented
BUILTINS["None"] = None


class ByteBuf:
    """bytearray whose content may be symbolic: value is bytes or a z3 Seq(Int)"""
    def __init__(self, v=b""): self.v = bytes(v) if isinstance(v, (bytes, bytearray)) else v


strupper = z3.Function("strupper", z3.StringSort(), z3.StringSort())
strlower = z3.Function("strlower", z3.StringSort(), z3.StringSort())
SYMSTR_METHODS = {"count", "rfind", "isascii", "isdigit", "upper", "lower", "index", "find", "endswith", "startswith", "encode", "ljust", "rjust", "split", "rpartition", "partition"}

class SymSplit:
    """s.split(sep) of a symbolic string: only the first and the last piece are modelled"""
    def __init__(self, s, sep): self.s, self.sep = s, sep
ENCODERS = {}

def zstr(v): return z3.StringVal(v) if isinstance(v, str) else v

KNOWN_STRLEN = {}   # name of a String constant -> its (assumed) concrete length

def known_len(s):
    """concrete length of a string term when it is determined structurally, else None"""
    if isinstance(s, str): return len(s)
    if z3.is_string_value(s): return len(s.as_string()) if s.as_string().isascii() else None
    if z3.is_app(s):
        k = s.decl().kind()
        if k == z3.Z3_OP_SEQ_CONCAT:
            ls = [known_len(c) for c in s.children()]
            return None if any(l is None for l in ls) else sum(ls)
        if k == z3.Z3_OP_UNINTERPRETED and s.num_args() == 0: return KNOWN_STRLEN.get(s.decl().name())
    return None

def str_parts(s):
    if z3.is_app(s) and s.decl().kind() == z3.Z3_OP_SEQ_CONCAT:
        out = []
        for c in s.children(): out += str_parts(c)
        return out
    return [s]

def head_const(s):
    """(leading constant text, list of remaining parts) of a string term"""
    parts = str_parts(s)
    head = ""
    k = 0
    while k < len(parts) and z3.is_string_value(parts[k]) and parts[k].as_string().isascii():
        head += parts[k].as_string(); k += 1
    return head, parts[k:]

def join_parts(head, rest):
    ps = ([z3.StringVal(head)] if head else []) + list(rest)
    if not ps: return z3.StringVal("")
    return ps[0] if len(ps) == 1 else z3.Concat(*ps)

def tail_const(s):
    parts = str_parts(s)
    tail = ""
    k = len(parts)
    while k > 0 and z3.is_string_value(parts[k - 1]) and parts[k - 1].as_string().isascii():
        tail = parts[k - 1].as_string() + tail; k -= 1
    return parts[:k], tail

octstr = z3.Function("octdigits", z3.IntSort(), z3.StringSort())      # octal digits of a non-negative int, no prefix
octval = z3.Function("int8", z3.StringSort(), z3.IntSort())           # int(text, 8)

def substr1(s, j):
    """s[j] (a one-character string) for concrete j, picked structurally when the parts have known lengths"""
    if isinstance(j, int):
        pos = 0
        for p in str_parts(s):
            l = known_len(p)
            if l is None: break
            if pos <= j < pos + l:
                if l == 1: return p
                if z3.is_string_value(p): return z3.StringVal(p.as_string()[j - pos])
                break
            pos += l
    return z3.SubString(s, j, 1)

LISTFN = {}
DICTFN = {}

def dict_fns(d, key):
    """a large constant dict indexed by a symbolic key: (value function, membership predicate), both uninterpreted;
    the dict's content is the business of closed obligations"""
    k = id(d)
    if k not in DICTFN:
        ksort = z3.StringSort() if is_symstr(key) else z3.IntSort()
        DICTFN[k] = (z3.Function("dictval_%d" % len(DICTFN), ksort, z3.IntSort()), z3.Function("dicthas_%d" % len(DICTFN), ksort, z3.BoolSort()), d)
    return DICTFN[k][0], DICTFN[k][1]

FINDFN = {}

def str_find(eng, s, x):
    """str.find(s, x).  For a concrete haystack and a symbolic needle the result is an uninterpreted function of the
    needle, find_<haystack>(x), constrained by the range facts of str.find: the sequence solver is kept out of the
    arithmetic (sound over-approximation; concrete needles are evaluated)."""
    if z3.is_string_value(s) and z3.is_string_value(x): return s.as_string().find(x.as_string())
    if z3.is_string_value(s):
        hay = s.as_string()
        if hay not in FINDFN: FINDFN[hay] = z3.Function("find_%d" % len(FINDFN), z3.StringSort(), z3.IntSort())
        r = FINDFN[hay](x)
        lx = known_len(x) if known_len(x) is not None else z3.Length(x)
        if eng is not None:
            eng.assume(z3.Or(r == -1, z3.And(r >= 0, r + lx <= len(hay))))
            eng.assume(z3.Implies(lx == 0, r == 0))
            eng.assumptions.add("str.find/index on a constant haystack is an uninterpreted function of the needle with the range facts of str.find")
        return r
    r = z3.IndexOf(s, x, 0)
    return r


strisascii = z3.Function("str_isascii", z3.StringSort(), z3.BoolSort())
strisdigit = z3.Function("str_isdigit", z3.StringSort(), z3.BoolSort())
strrfind = z3.Function("str_rfind", z3.StringSort(), z3.StringSort(), z3.IntSort(), z3.IntSort(), z3.IntSort())
strcount = z3.Function("str_count", z3.StringSort(), z3.StringSort(), z3.IntSort())        # number of non-overlapping occurrences: uninterpreted, with its range


def symstr_method(eng, s, attr, a):
    if attr == "count":
        if len(a) != 1: raise Unsupported("str.count with start/end")
        n_ = strcount(zstr(s), zstr(a[0]))
        eng.assume(z3.And(n_ >= 0, n_ <= z3.Length(zstr(s))))
        return n_
    if attr == "rfind":
        sub = zstr(a[0])
        lo = a[1] if len(a) > 1 else 0
        hi = a[2] if len(a) > 2 else z3.Length(zstr(s))
        if known_len(sub) != 1: raise Unsupported("str.rfind of a needle that is not one character")
        # stdlib contract (A5), for a one-character needle: the result is -1 and no position of s[lo:hi] holds the needle, or it is the
        # LAST position of s[lo:hi] that holds it
        r_ = strrfind(zstr(s), sub, lo, hi)
        j_ = z3.Int("j!rfind")
        eng.assume(z3.Or(r_ == -1, z3.And(r_ >= lo, r_ < hi, r_ < z3.Length(zstr(s)), z3.SubString(zstr(s), r_, 1) == sub)))
        eng.assume(z3.ForAll([j_], z3.Implies(z3.And(j_ > r_, j_ >= lo, j_ < hi, j_ < z3.Length(zstr(s))), z3.SubString(zstr(s), j_, 1) != sub)))
        eng.assumptions.add("str.rfind(one character, lo, hi) is external: an uninterpreted function with the documented contract (last position or -1)")
        return r_
    if attr == "isdigit":
        # uninterpreted predicate with the facts the stdlib guarantees for one ASCII character: the ten digits are digits, the other ASCII characters
        # are not; the empty string is not; everything else (digits of other scripts, longer strings) is left open
        eng.assumptions.add("str.isdigit() is an uninterpreted predicate on symbolic strings (facts: '0'..'9' are digits, other single ASCII characters and '' are not)")
        r = strisdigit(s)
        one = z3.Length(s) == 1
        code = z3.StrToCode(s)
        eng.assume(z3.Implies(z3.And(one, code >= 48, code <= 57), r))
        eng.assume(z3.Implies(z3.And(one, code >= 0, code < 128, z3.Or(code < 48, code > 57)), z3.Not(r)))
        eng.assume(z3.Implies(z3.Length(s) == 0, z3.Not(r)))
        return r
    if attr == "isascii":
        # uninterpreted predicate (like upper/lower): which characters it admits is the stdlib's business; contracts that need the link
        # discharge it by enumeration over the code points
        eng.assumptions.add("str.isascii() is an uninterpreted predicate on symbolic strings")
        return strisascii(s)
    if attr in ("upper", "lower"):
        r = (strupper if attr == "upper" else strlower)(s)
        # case mapping never yields an empty string from a non-empty one (it may yield several characters)
        eng.assume(z3.Implies(z3.Length(s) >= 1, z3.Length(r) >= 1))
        return r
    if attr in ("index", "find"):
        if len(a) != 1: raise Unsupported("str.%s with start/end" % attr)
        r = str_find(eng, s, zstr(a[0]))
        if attr == "index" and eng.branch(r < 0): raise PyRaise(Exc("ValueError"))
        return r
    if attr == "endswith":
        if isinstance(a[0], str):
            rest, tail = tail_const(s)
            if len(tail) >= len(a[0]): return tail.endswith(a[0])
        return z3.SuffixOf(zstr(a[0]), s)
    if attr == "startswith":
        if isinstance(a[0], str):
            head, rest = head_const(s)
            if len(head) >= len(a[0]): return head.startswith(a[0])
            if head and not a[0].startswith(head): return False
        return z3.PrefixOf(zstr(a[0]), s)
    if attr == "rjust":
        n, fill = a[0], (a[1] if len(a) > 1 else " ")
        if not isinstance(n, int) or n > 32 or not isinstance(fill, str) or len(fill) != 1: raise Unsupported("rjust with symbolic width")
        kl = known_len(s)
        if kl is not None: return s if kl >= n else z3.Concat(z3.StringVal(fill * (n - kl)), s)
        L = z3.Length(s); r = s
        for k in range(n - 1, -1, -1):
            r = z3.If(L == k, z3.Concat(z3.StringVal(fill * (n - k)), s) if k else z3.StringVal(fill * n), r)
        return r
    if attr == "split":
        if len(a) != 1 or not isinstance(a[0], str) or len(a[0]) != 1: raise Unsupported("str.split form")
        return SymSplit(s, a[0])
    if attr == "partition" and len(a) == 1 and isinstance(a[0], str) and a[0]:
        head, rest = head_const(s)
        k = head.find(a[0])
        if k >= 0: return (head[:k], a[0], join_parts(head[k + len(a[0]):], rest))      # the separator first occurs inside the constant head
    if attr == "rpartition" and len(a) == 1 and isinstance(a[0], str) and a[0]:
        rest, tail = tail_const(s)
        k = tail.rfind(a[0])
        if k >= 0: return (join_parts("", rest + ([z3.StringVal(tail[:k])] if tail[:k] else [])), a[0], tail[k + len(a[0]):])
    if attr in ("partition", "rpartition"):
        if len(a) != 1 or not isinstance(a[0], str) or not a[0]: raise Unsupported("str.partition form")
        sep = z3.StringVal(a[0]); L = z3.Length(s)
        k = z3.IndexOf(s, sep, 0) if attr == "partition" else z3.LastIndexOf(s, sep)
        found = k >= 0
        if attr == "partition":
            return (z3.If(found, z3.SubString(s, 0, k), s), z3.If(found, sep, z3.StringVal("")), z3.If(found, z3.SubString(s, k + len(a[0]), L), z3.StringVal("")))
        return (z3.If(found, z3.SubString(s, 0, k), z3.StringVal("")), z3.If(found, sep, z3.StringVal("")), z3.If(found, z3.SubString(s, k + len(a[0]), L), s))
    if attr == "ljust":
        n, fill = a[0], (a[1] if len(a) > 1 else " ")
        if not isinstance(n, int) or n > 32 or not isinstance(fill, str): raise Unsupported("ljust with symbolic width")
        kl = known_len(s)
        if kl is not None:
            if kl >= n: return s
            return z3.Concat(s, z3.StringVal(fill * (n - kl))) if kl else z3.StringVal(fill * n)
        L = z3.Length(s); r = s
        for k in range(n - 1, -1, -1):
            r = z3.If(L == k, z3.Concat(s, z3.StringVal(fill * (n - k))) if k else z3.StringVal(fill * n), r)
        return r
    if attr == "encode":
        cs = a[0] if a else "utf-8"
        if not isinstance(cs, str): raise Unsupported("encode with non-constant charset")
        if cs not in ENCODERS:
            ENCODERS[cs] = (z3.Function("encode_" + cs.replace("-", "_"), z3.StringSort(), BYTES), z3.Function("unencodable_" + cs.replace("-", "_"), z3.StringSort(), z3.BoolSort()))
        enc, bad = ENCODERS[cs]
        eng.assumptions.add("str.encode(%r) is external: an uninterpreted function that may raise UnicodeEncodeError" % cs)
        if eng.branch(bad(s)): raise PyRaise(Exc("UnicodeEncodeError"))
        return enc(s)
    raise Unsupported("str." + attr)


def b_range(eng, *a):
    a = [eng.undyn(x) for x in a]
    if not any(is_sym(x) for x in a): return range(*a)
    if len(a) == 1: return SymRange(0, a[0], 1)
    if len(a) == 2: return SymRange(a[0], a[1], 1)
    return SymRange(a[0], a[1], a[2])


def tuple_lt(eng, a, b):
    """a < b for sort keys: ints, strings or tuples of those (lexicographic), symbolic components allowed; forks"""
    if isinstance(a, tuple) and isinstance(b, tuple):
        for x, y in zip(a, b):
            if eng.truth(eng.compare(ast.Lt(), x, y)): return True
            if eng.truth(eng.compare(ast.Lt(), y, x)): return False
        return len(a) < len(b)
    return eng.truth(eng.compare(ast.Lt(), a, b))

def b_sort(eng, items, key=None):
    """stable insertion sort with the comparisons decided by forking: exact for the small lists of the units"""
    if len(items) > 4: raise Unsupported("sort of more than 4 symbolic items")
    keyed = [(eng.call(key, [x], {}) if key is not None else x, x) for x in items]
    out = []
    for k, x in keyed:
        pos = len(out)
        while pos > 0 and tuple_lt(eng, k, out[pos - 1][0]): pos -= 1
        out.insert(pos, (k, x))
    return [x for _, x in out]


def b_bytes(eng, v=b""):
    if isinstance(v, (bytes, bytearray)): return bytes(v)
    if isinstance(v, ByteBuf): return v.v
    if is_symbytes(v): return v
    items = [eng.undyn(x) for x in eng.iterate(v)]
    if not any(is_sym(x) for x in items):
        try: return bytes(items)
        except ValueError: raise PyRaise(Exc("ValueError"))
    for x in items:
        if is_sym(x) and eng.branch(z3.Or(x < 0, x > 255)): raise PyRaise(Exc("ValueError"))
    us = [z3.Unit(z3.IntVal(x) if isinstance(x, int) else x) for x in items]
    return us[0] if len(us) == 1 else z3.Concat(*us)


def b_hasattr(eng, o, a):
    if isinstance(o, Obj):
        if a in o.attrs: return True
        if isinstance(o.cls, ClassV): return o.cls.lookup(a) is not None
        if o.cls == "opaque": raise Unsupported(f"hasattr on opaque {o}")
        return False
    if isinstance(o, (Func, Builtin)): return a == "__call__"
    raise Unsupported(f"hasattr {o!r}")


def b_minmax(eng, a, is_min):
    if len(a) == 1: a = list(eng.iterate(a[0]))
    if not any(is_sym(x) for x in a): return min(a) if is_min else max(a)
    r = a[0]
    for x in a[1:]:
        r = z3.If((x < r) if is_min else (x > r), x, r)
    return r


seqsum = z3.Function("seqsum", BYTES, z3.IntSort())

def b_sum(eng, it, start=0):
    if is_symbytes(it):
        # sum of the elements of a byte sequence of symbolic length: uninterpreted, with the range fact for bytes
        eng.assume(seqsum(it) >= 0); eng.assume(seqsum(it) <= 255 * slen(it))
        eng.assumptions.add("sum(bytes of symbolic length) is an uninterpreted seqsum with 0 <= seqsum <= 255*len")
        return start + seqsum(it)
    items = list(eng.iterate(it)); r = start
    for x in items: r = eng.binop(ast.Add(), r, x)
    return r


chrfn = z3.Function("chr", z3.IntSort(), z3.StringSort())
hexval = z3.Function("hexval", z3.StringSort(), z3.IntSort())


def b_chr(eng, v):
    v = eng.undyn(v)
    if is_sym(v):
        # CPython: an argument that does not fit a C int is an OverflowError, one outside the code space a ValueError
        if eng.branch(z3.Or(v < -2 ** 31, v >= 2 ** 31)): raise PyRaise(Exc("OverflowError"))
        if eng.branch(z3.Or(v < 0, v >= 0x110000)): raise PyRaise(Exc("ValueError"))
        r = chrfn(v)
        eng.assume(z3.Length(r) == 1)
        return r
    try: return chr(v)
    except ValueError: raise PyRaise(Exc("ValueError"))
    except OverflowError: raise PyRaise(Exc("OverflowError"))


def b_struct_unpack(eng, fmt, data):
    import struct
    if not is_sym(data):
        try: return struct.unpack(fmt, data)
        except struct.error: raise PyRaise(Exc("struct.error"))
    if fmt == "<H":
        ln = slen(data)
        if (eng.branch(ln != 2) if is_sym(ln) else ln != 2): raise PyRaise(Exc("struct.error"))
        return (data[0] + 256 * data[1],)
    raise Unsupported("struct.unpack " + fmt)


MODULE_OVERRIDES[("reports", "error")] = Builtin("reports.error", b_report("error"))
MODULE_OVERRIDES[("reports", "warning")] = Builtin("reports.warning", b_report("warning"))
MODULE_OVERRIDES[("reports", "critical")] = Builtin("reports.critical", b_report("critical"))

def find_func(eng, modname, path):
    """locate a (possibly nested-in-class) function by name path inside a module"""
    mod = eng.load_module(modname)
    v = eng.resolve_global(mod, path[0])
    for p in path[1:]:
        v = v.lookup(p)
    return v

def _same_value(a, b):
    try:
        if isinstance(a, (int, str, bytes, bool, type(None))) and isinstance(b, (int, str, bytes, bool, type(None))): return a == b
        if is_sym(a) and is_sym(b): return a.eq(b)
    except Exception:
        pass
    return False


def verify(eng, name, run, post, max_paths=5000, func=None):
    """Explore every path of run(eng) (which calls the real function on symbolic inputs; may raise
    PyRaise) and let post(eng, outcome) issue eng.prove(...) obligations.  Returns a summary dict; an
    Unsupported construct makes the *whole* unit undecided (one 'unsupported' obligation), never a
    pass or a violation."""
    eng.worklist = [[]]
    npaths = 0
    t0 = time.time()
    start = len(eng.obligations)
    try:
        while eng.worklist:
            dec = eng.worklist.pop()
            eng.path = Path(dec); eng.fresh_n = 0; Opaque.n = 0; eng.inputs = {}
            eng.reset_statics()
            npaths += 1
            if npaths > max_paths: raise Unsupported("too many paths")
            try:
                try:
                    outcome = ("return", run(eng))
                except PyRaise as pr:
                    outcome = ("raise", pr.exc)
                eng.outcome = outcome
                eng.check_captures()
                eng.check_sites()
                post(eng, outcome)
            except PathEnd:
                npaths -= 1; continue
    except (Unsupported, RecursionError, TypeError, AttributeError, KeyError, ValueError, IndexError, AssertionError, z3.Z3Exception) as u:
        import traceback
        tb = traceback.extract_tb(u.__traceback__)
        where = "; ".join("%s:%d" % (os.path.basename(f.filename), f.lineno) for f in tb[-3:])
        eng.obligations.append(dict(label="engine-supports-function", kind="vc", status="unsupported", secs=0.0, path=[],
                                    witness=None, detail="%s: %s [%s]" % (type(u).__name__, u, where), events=[], smt2=None, backend="pyvc"))
    obs = eng.obligations[start:]
    for o in obs:
        o["unit"] = name; o["func"] = func or name
    return dict(unit=name, func=func or name, paths=npaths, obligations=obs, wall=time.time() - t0)
