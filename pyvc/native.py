"""Native replay harness.  Runs under /venv/bin/python (the interpreter the repository's own tests
use) against the tree named by argv[1]; reads a list of JSON jobs on stdin, prints a list of JSON
results.  A job drives the *real* pdpy11 code:

  {"kind": "asm", "sources": [text...], "names": [...], "charset": "bk"}   parse + compile + link
  {"kind": "call", "target": "module:qualname", "args": [...], ...}        direct call of a function
  {"kind": "py", "code": "...python..."}                                   free-form snippet; must set `result`

Values that are not JSON (bytes) are returned hex-encoded under keys ending in _hex.
"""
import json
import os
import sys
import traceback


def load(tree):
    sys.path.insert(0, tree)
    import pdpy11  # noqa
    from pdpy11 import bk_encoding, reports  # noqa
    return sys.modules["pdpy11"]


def asm(job):
    from pdpy11 import reports
    from pdpy11.compiler import Compiler
    from pdpy11.parser import parse
    diags = []

    def handler(priority, identifier, *lst):
        sev = "W" if priority is reports.warning else "E"
        spans = []
        for a, b, _text in lst:
            spans.append([getattr(a, "filename", None), getattr(a, "pos", None), getattr(b, "pos", None), repr(a), repr(b)])
        diags.append([sev, identifier, spans])

    names = job.get("names") or ["/t/f%d.mac" % i for i in range(len(job["sources"]))]
    out = {"diags": diags}
    comp = None
    try:
        with reports.handle_reports(handler):
            files = [parse(names[i], s) for i, s in enumerate(job["sources"])]
            comp = Compiler(output_charset=job.get("charset", "bk"))
            base, code = comp.compile_and_link_files(files)
        out.update(status="ok", base=base, code_hex=code.hex())
        if job.get("listing"):
            out["listing"] = comp.generate_listing()
        if job.get("symbols"):
            from pdpy11.deferred import wait
            out["symbols"] = {k: wait(v[1]) if isinstance(wait(v[1]), int) else None for k, v in comp.symbols.container.values() for k in [k]}
        if job.get("emitted"):
            out["emitted"] = [[e[2], e[3]] + [x.hex() if isinstance(x, bytes) else x for x in e[4:]] for e in comp.emitted_files]
        if job.get("formats"):
            from pdpy11.formats import file_formats
            res = {}
            for fmt, args in job["formats"]:
                try:
                    res[fmt] = file_formats[fmt](base, code, *[bytes.fromhex(a) for a in args]).hex()
                except Exception as e:  # pylint: disable=broad-except
                    res[fmt] = "EXC:" + type(e).__name__
            out["formats"] = res
    except reports.UnrecoverableError:
        out.update(status="fail")
    except RecursionError:
        out.update(status="crash", exc="RecursionError")
    except Exception as e:  # pylint: disable=broad-except
        out.update(status="crash", exc=type(e).__name__, trace=traceback.format_exc()[-1500:])
    return out


def py(job):
    env = {"result": None}
    try:
        exec(job["code"], env)  # pylint: disable=exec-used
        return {"status": "ok", "result": env["result"]}
    except Exception as e:  # pylint: disable=broad-except
        return {"status": "crash", "exc": type(e).__name__, "msg": str(e)[:500], "trace": traceback.format_exc()[-1500:]}


def main():
    tree = sys.argv[1]
    load(tree)
    jobs = json.load(sys.stdin)
    results = []
    for job in jobs:
        if job["kind"] == "asm":
            results.append(asm(job))
        elif job["kind"] == "py":
            results.append(py(job))
        else:
            results.append({"status": "bad-job"})
    json.dump(results, sys.stdout)


if __name__ == "__main__":
    main()
