"""CLI: python3-vt -m pyvc.check <property id> [--tier quick|thorough] [--only <unit glob>] [--replay <file>]"""
import argparse
import json
import os
import sys
import traceback


def main():
    ap = argparse.ArgumentParser()
    ap.add_argument("prop")
    ap.add_argument("--tier", default=os.environ.get("VERIF_TIER", "quick"), choices=["quick", "thorough"])
    ap.add_argument("--only", default=None)
    ap.add_argument("--replay", default=None, help="re-run the native replay recorded in a replay file")
    args = ap.parse_args()
    here = os.path.dirname(os.path.dirname(os.path.abspath(__file__)))
    sys.path.insert(0, here)
    from pyvc import driver
    if args.replay:
        rep = json.load(open(args.replay))
        jobs = (rep.get("replay") or {}).get("jobs")
        if not jobs:
            print("no native jobs recorded in", args.replay)
            print(json.dumps(rep, indent=1)[:3000])
            return 0
        print(json.dumps(driver.native(jobs), indent=1))
        return 0
    try:
        return driver.main(args.prop.upper(), args.tier, args.only)
    except SystemExit:
        raise
    except Exception:  # pylint: disable=broad-except
        traceback.print_exc()
        return 3


if __name__ == "__main__":
    sys.exit(main())
