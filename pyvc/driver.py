"""pyvc driver: runs the verification units of one property in a process pool, handles known
findings, replays counterexamples on the real code, writes evidence, sets the exit code.

exit 0  every obligation discharged (known findings aside)
exit 1  an obligation failed: VIOLATION property=<id> replay=<path>
exit 2  undecided (solver unknown / construct outside the subset / contract mismatch) - never a violation
exit 3  checker crash
"""
import fnmatch
import importlib
import json
import multiprocessing
import os
import subprocess
import sys
import time
import traceback

VERIF = os.path.dirname(os.path.dirname(os.path.abspath(__file__)))
PROOF_KINDS = ("vc", "lemma", "closed", "frame")


def tree_root():
    return os.environ.get("PDPY11_SRC", "/repo")


def native(jobs, tree=None, timeout=600):
    """run jobs through the real code under /venv/bin/python (see native.py)"""
    p = subprocess.run(["/venv/bin/python", os.path.join(VERIF, "pyvc", "native.py"), tree or tree_root()],
                       input=json.dumps(jobs), capture_output=True, text=True, timeout=timeout, cwd="/")
    if p.returncode != 0:
        raise RuntimeError("native harness failed: " + p.stderr[-2000:])
    return json.loads(p.stdout)


def load_known_findings(prop):
    path = os.path.join(VERIF, "known_findings.json")
    if not os.path.exists(path):
        return []
    data = json.load(open(path))
    return [f for f in data.get("findings", []) if f["property"] == prop and f.get("status", "open") == "open"]


def _run_unit(job):
    modname, fname, kwargs, active, keep_smt2 = job
    sys.path.insert(0, VERIF)
    t0 = time.time()
    try:
        from pyvc import engine
        mod = importlib.import_module(modname)
        mod.ACTIVE_FINDINGS = set(active)
        importlib.import_module("contracts.common").ACTIVE_FINDINGS = set(active)
        eng = engine.Engine()
        eng.keep_smt2 = keep_smt2
        res = getattr(mod, fname)(eng, **kwargs)
        if isinstance(res, dict):
            res = [res]
        out = []
        for r in res:
            for o in r["obligations"]:
                o.setdefault("kind", "vc")
                o["path"] = "".join("T" if d else "F" for d in o.get("path", []))
                if not o.get("keep_smt2"):
                    pass
            r["assumptions"] = sorted(eng.assumptions)
            r["entered"] = sorted(eng.entered)
            out.append(r)
        return dict(ok=True, units=out, wall=time.time() - t0, job=(modname, fname, kwargs))
    except Exception:  # pylint: disable=broad-except
        return dict(ok=False, error=traceback.format_exc(), wall=time.time() - t0, job=(modname, fname, kwargs))


def run_units(jobs, procs=None):
    procs = procs or min(16, max(1, len(jobs)))
    if procs == 1 or os.environ.get("PYVC_SERIAL"):
        return [_run_unit(j) for j in jobs]
    # every unit runs in a process of its own (at most `procs` at a time), forked from this single-threaded parent: a worker that dies (the
    # solver has been seen to abort the process - heap corruption inside z3 on some string queries) then costs that unit only, and the check
    # never waits for a dead worker.  A unit whose process died is tried once more; if it dies again it is a crash of the check for that
    # unit (exit 3 - never a verdict).
    from multiprocessing import connection
    ctx = multiprocessing.get_context("fork")
    results = [None] * len(jobs)
    attempts = [0] * len(jobs)
    queue = list(range(len(jobs)))
    running = {}
    while queue or running:
        while queue and len(running) < procs:
            i = queue.pop(0)
            rd, wr = ctx.Pipe(duplex=False)
            pr = ctx.Process(target=_child, args=(jobs[i], wr))
            pr.start()
            wr.close()
            running[rd] = (i, pr)
        for rd in connection.wait(list(running), timeout=2.0):
            i, pr = running.pop(rd)
            try:
                results[i] = rd.recv()
            except (EOFError, OSError):
                attempts[i] += 1
                if attempts[i] < 2:
                    queue.append(i)
                else:
                    results[i] = dict(ok=False, error="the worker process died while running this unit, twice (solver or interpreter abort)", wall=0.0, job=jobs[i][:3])
            rd.close()
            pr.join()
    return results


def _child(job, wr):
    try:
        wr.send(_run_unit(job))
    finally:
        wr.close()


def main(prop, tier="quick", only=None):
    t0 = time.time()
    seed = int(os.environ.get("VERIF_SEED", "0") or 0)
    sys.path.insert(0, VERIF)
    modname = "contracts." + prop.lower()
    mod = importlib.import_module(modname)
    outdir = os.path.join(VERIF, "out", prop)
    os.makedirs(outdir, exist_ok=True)
    for f in os.listdir(outdir):
        if f.startswith("replay-"):
            os.unlink(os.path.join(outdir, f))

    # ---- known findings: replay each witness first; only still-failing ones are active
    findings = load_known_findings(prop)
    active, kf_lines = [], []
    for f in findings:
        wit = getattr(mod, "FINDING_WITNESS", {}).get(f["id"])
        if wit is None:
            print("UNDECIDED known finding %s has no witness replay in %s" % (f["id"], modname))
            continue
        still, what = wit(tree_root())
        f["_still"] = still
        f["_observed"] = what
        if still:
            active.append(f["id"])
            kf_lines.append("KNOWN-FINDING: property=%s %s [%s]" % (prop, f["text"], f["id"]))

    # ---- run the units
    units = mod.units(tier)
    if only:
        units = [u for u in units if fnmatch.fnmatch(u[0], only)]
    keep = True
    jobs = [(modname, u[1], u[2], active, keep) for u in units]
    if tier == "thorough" and not os.environ.get("PYVC_NO_CVC5"):
        os.environ["PYVC_CVC5"] = "1"          # the workers re-discharge every z3-proved vc/lemma with cvc5 (a second solver must not contradict)
    results = run_units(jobs)
    os.environ.pop("PYVC_CVC5", None)

    crashed = [r for r in results if not r["ok"]]
    all_units, obs = [], []
    for r in results:
        if r["ok"]:
            for u in r["units"]:
                all_units.append(u)
                obs.extend(u["obligations"])

    # ---- vacuity guards
    vacuity = []
    for (uname, fname, kwargs), r in zip(units, results):
        if r["ok"]:
            n = sum(len(u["obligations"]) for u in r["units"])
            if n == 0:
                vacuity.append("unit %s produced no obligation" % uname)
            for u in r["units"]:
                for cov in u.get("cover_missing", []):
                    vacuity.append("unit %s: cover predicate never reached: %s" % (u["unit"], cov))
    canary_ok = True
    if hasattr(mod, "canary"):
        cr = _run_unit((modname, "canary", {}, active, False))
        canary_ok = cr["ok"] and any(o["status"] == "failed" for u in cr["units"] for o in u["obligations"])
        if not canary_ok:
            vacuity.append("canary obligation (must fail) did not fail: " + str(cr.get("error", ""))[-300:])

    proof_obs = [o for o in obs if o["kind"] in PROOF_KINDS]
    other_obs = [o for o in obs if o["kind"] not in PROOF_KINDS]
    failed = [o for o in obs if o["status"] == "failed"]
    undecided = [o for o in obs if o["status"] in ("unknown", "unsupported")]
    region = [o for o in obs if o["status"] == "known-region"]
    discharged = [o for o in proof_obs if o["status"] in ("proved", "known-region")]

    # ---- violations: replay on the real code
    violations = []
    seen = set()
    for o in sorted(failed, key=lambda o: 0 if o["kind"] in PROOF_KINDS else 1):
        key = (o.get("func"), o["label"])
        if key in seen:
            continue
        seen.add(key)
        if len(violations) >= 8:
            break
        rep = dict(property=prop, obligation="%s::%s" % (o["unit"], o["label"]), function=o.get("func"), kind=o["kind"],
                   witness=o.get("witness"), events=o.get("events"), solver_output=o.get("detail"), backend=o.get("backend"),
                   tree=tree_root())
        reproduced = False
        try:
            if hasattr(mod, "replay"):
                rr = mod.replay(o, tree_root())
                if rr is not None:
                    rep["replay"] = rr
                    reproduced = bool(rr.get("reproduced"))
        except Exception:  # pylint: disable=broad-except
            rep["replay_error"] = traceback.format_exc()[-1500:]
        if not reproduced and o["kind"] in ("rac", "closed", "bounded") and "replay" not in rep:
            # these obligations ARE evaluations of the real, imported code: the recorded detail is the failing input/fact
            reproduced = True
            rep["note"] = "obligation of kind '%s' is evaluated on the real imported package; the failing case is in solver_output" % o["kind"]
        rep["reproduced_on_real_code"] = reproduced
        if o.get("needs_replay") and not reproduced:
            # the proof failed only because the path reads loop state the loop contract says nothing about (the code's loop changed shape):
            # that is 'undecided', not a violation, unless a failing input is reproduced on the real code
            o["status"] = "unknown"
            undecided.append(o)
            continue
        path = os.path.join(outdir, "replay-%d.json" % len(violations))
        json.dump(rep, open(path, "w"), indent=1, default=str)
        violations.append((path, reproduced, o))

    # ---- evidence
    funcs = {}
    for u in all_units:
        f = funcs.setdefault(u["func"], dict(function=u["func"], units=0, paths=0, obligations=0, discharged=0, solver_s=0.0, kinds={}))
        f["units"] += 1
        f["paths"] += u.get("paths", 0)
        for o in u["obligations"]:
            f["obligations"] += 1
            f["discharged"] += o["status"] in ("proved", "known-region")
            f["solver_s"] = round(f["solver_s"] + o.get("secs", 0.0), 3)
            f["kinds"][o["kind"]] = f["kinds"].get(o["kind"], 0) + 1
    samples = []
    for o in obs:
        if o.get("smt2") and o["status"] == "proved" and len(samples) < 3 and len(o["smt2"]) < 6000:
            samples.append(dict(obligation="%s::%s" % (o["unit"], o["label"]), status=o["status"], backend=o["backend"], smt2=o["smt2"]))
    for o in obs:
        if not o.get("smt2") and len(samples) < 5:
            samples.append(dict(obligation="%s::%s" % (o["unit"], o["label"]), status=o["status"], backend=o.get("backend"), detail=o.get("detail", "")[:300]))
            if len(samples) >= 5:
                break
    assumptions = sorted(set(list(getattr(mod, "ASSUMPTIONS", [])) + [a for u in all_units for a in u.get("assumptions", [])]))
    by_kind = {}
    for o in obs:
        by_kind.setdefault(o["kind"], dict(total=0, ok=0))
        by_kind[o["kind"]]["total"] += 1
        by_kind[o["kind"]]["ok"] += o["status"] in ("proved", "known-region")
    backends = {}
    for o in obs:
        backends[o.get("backend", "?")] = backends.get(o.get("backend", "?"), 0) + 1
    interpreted = sorted({f_ for u in all_units for f_ in u.get("entered", []) if not f_.endswith(".<lambda>")})
    cvc5 = {}
    for o in obs:
        if "cvc5" in o:
            cvc5[o["cvc5"]] = cvc5.get(o["cvc5"], 0) + 1
    # ---- thorough: mutation self-test of this property's checks (an undetected mutant means the check is weaker than it says: undecided)
    selftest = None
    if tier == "thorough" and not only and not os.environ.get("PYVC_NO_SELFTEST") and tree_root() == "/repo":
        import subprocess
        p_ = subprocess.run([sys.executable, os.path.join(VERIF, "tools", "selftest.py"), prop], capture_output=True, text=True, cwd=VERIF,
                            env=dict(os.environ, PYVC_NO_SELFTEST="1", PYVC_NO_EVIDENCE="1"))
        lines = [l for l in p_.stdout.splitlines() if " exit=" in l]
        missed = [l.split()[0] for l in lines if " MISS" in l]
        selftest = dict(mutants=len(lines), detected_or_green_as_expected=len(lines) - len(missed), missed=missed)
        for m_ in missed:
            vacuity.append("self-test: the edit %s did not give the expected verdict" % m_)
    evidence = dict(
        property_id=prop, tier=tier, seed=seed, level="proof",
        coverage=dict(
            obligations=len(proof_obs), discharged=len(discharged),
            checker_cmd="python3-vt -m pyvc.check %s --tier %s" % (prop, tier),
            trusted_base=list(getattr(mod, "TRUSTED", [])),
            samples=samples,
            functions_under_contract=sorted(funcs.values(), key=lambda f: f["function"]),
            by_kind=by_kind, backends=backends, functions_interpreted=interpreted, cvc5_recheck=cvc5 or None, mutation_selftest=selftest,
            solver_seconds=round(sum(o.get("secs", 0.0) for o in obs), 3),
            bounded_standins=[dict(obligation="%s::%s" % (o["unit"], o["label"]), status=o["status"], bound=o.get("bound"), cases=o.get("cases"))
                              for o in other_obs if o["kind"] == "bounded"],
            runtime_checks=[dict(obligation="%s::%s" % (o["unit"], o["label"]), status=o["status"], cases=o.get("cases")) for o in other_obs if o["kind"] == "rac"],
            region_restricted_count=len(region),
            region_restricted=[dict(obligation="%s::%s" % (o["unit"], o["label"]), witness=o.get("witness")) for o in region][:20],
            known_findings=[dict(id=f["id"], text=f["text"], still_failing=f.get("_still"), observed=f.get("_observed")) for f in findings],
            undecided=["%s::%s: %s" % (o["unit"], o["label"], o.get("detail", "")[:200]) for o in undecided][:20],
            vacuity_guards=dict(units=len(units), units_without_obligations=[v for v in vacuity], canary_failed_as_required=canary_ok),
            tree=tree_root(),
            explanation=getattr(mod, "EXPLANATION", ""),
            exhaustive=False,
        ),
        assumptions=assumptions,
        wall_s=round(time.time() - t0, 2),
        violations=len(violations),
    )
    os.makedirs(os.path.join(VERIF, "evidence"), exist_ok=True)
    if not only and not os.environ.get("PYVC_NO_EVIDENCE"):
        json.dump(evidence, open(os.path.join(VERIF, "evidence", prop + ".json"), "w"), indent=1, default=str)

    # ---- report
    print("[%s] tier=%s units=%d functions=%d obligations=%d (proof-kind %d, discharged %d) failed=%d undecided=%d region-restricted=%d wall=%.1fs" % (
        prop, tier, len(units), len(funcs), len(obs), len(proof_obs), len(discharged), len(failed), len(undecided), len(region), time.time() - t0))
    for line in kf_lines:
        print(line)
    if crashed:
        for r in crashed:
            print("CHECKER-CRASH unit=%s\n%s" % (r["job"][1], r["error"]))
        if not violations:
            return 3
    if violations:
        for path, reproduced, o in violations:
            print("VIOLATION property=%s replay=%s obligation=%s::%s%s" % (
                prop, path, o["unit"], o["label"], "" if reproduced else " no-failing-input-found"))
        return 1
    if undecided or vacuity:
        for o in undecided[:20]:
            print("UNDECIDED obligation=%s::%s reason=%s" % (o["unit"], o["label"], o.get("detail", "")[:300].replace("\n", " ")))
        for v in vacuity:
            print("UNDECIDED vacuity-guard: " + v)
        return 2
    return 0
