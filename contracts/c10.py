"""C10 - Spelling does not matter.

vc (relational):  CaseInsensitiveDict on symbolic names: two names with equal lower() are the same key for in / [] / []= / get; a symbol defined under one spelling is
        found by Symbol._resolve under another; '(Rn)' vs '@Rn', 'Rn' vs '%n', explicit '.word' vs implicit word list, '( )' vs '< >' grouping give the same
        field / bytes (two runs tied by the same values); try_as_register / try_accumulator_from_symbol on every register spelling in three letter cases
closed: mnemonic synonyms have identical records (C01 table); 'sp'/'pc' are r6/r7
bounded: Context.skip_whitespace (blanks, tabs, ';' comments) and Parser.literal case folding: exhaustive small scope on the real functions (NOT proof)
rac:    generated programs vs their respelled variants (letter case, whitespace, comments, radix, grouping, register and synonym spelling, .word) - testing
Outside: the regular-expression layer of the scanner (re.I), radix spellings beyond the C05 stand-in.
"""
import itertools
import os
import z3
from contracts.common import *  # noqa
from contracts import structure
from contracts.structure import *  # noqa
from contracts.deferred_c import *  # noqa
from contracts import common, insn, symbols_c, c06
from contracts.insn import *  # noqa
from contracts.symbols_c import sym_tables, mk_state, name_input, key, unit_extern  # noqa
from contracts import compiler_c
from contracts.compiler_c import compiler_obj, unit_dispatch  # noqa
from pyvc import driver
from pyvc.engine import SymMap, strlower

ID = "C10"
EXPLANATION = "names symbolic (z3 strings) with lower() uninterpreted; operand values symbolic; scanner-level spelling only bounded / tested"
TRUSTED = ["pyvc engine semantics incl. SymMap (A1)", "z3 (A7)", "str.lower() is an uninterpreted function with lower(p + n) == lower(p) + lower(n) for the identifiers the parser admits (ASCII)"]
ASSUMPTIONS = ["A2: the regular-expression scanner (re.I, whitespace, comments) is unverified except for the bounded stand-ins", "warnings are not part of the comparison (the property says 'warnings aside')"]


def lower_hom(eng, prefix, name):
    eng.assume(strlower(z3.Concat(prefix, name)) == z3.Concat(strlower(prefix), strlower(name)))


def unit_cidict(eng):
    out = []

    def mk(eng):
        ccls = eng.resolve_global(eng.load_module("containers"), "CaseInsensitiveDict")
        d = eng.call(ccls, [], {})
        m = SymMap("cidict", lambda e, k: ("origkey", Obj("PriorValue", name="prior")))
        d.attrs["container"] = m
        n1, n2 = name_input(eng, "n1"), name_input(eng, "n2")
        eng.assume(strlower(n1) == strlower(n2))
        return d, m, n1, n2

    def run_set(eng):
        eng.I = {}
        d, m, n1, n2 = mk(eng)
        v = Obj("Value", name="v")
        eng.assign_target(ast.Subscript(value=ast.Name(id="d", ctx=ast.Load()), slice=ast.Name(id="k", ctx=ast.Load()), ctx=ast.Store()), v, _env(eng, d=d, k=n1), eng.load_module("containers"))
        eng.I.update(v=v)
        e = _env(eng, d=d, k=n2)
        mod = eng.load_module("containers")
        return (eng.eval(ast.parse("k in d", mode="eval").body, e, mod), eng.eval(ast.parse("d[k]", mode="eval").body, e, mod), eng.eval(ast.parse("d.get(k)", mode="eval").body, e, mod))

    def post_set(eng, o):
        eng.prove("no-exception", o[0] == "return")
        if o[0] == "return":
            c, g, gg = o[1]
            eng.prove("a-key-stored-under-one-spelling-is-found-under-any-spelling-with-the-same-lower()", z3.And(c if is_sym(c) else z3.BoolVal(bool(c)), z3.BoolVal(g is eng.I["v"] and gg is eng.I["v"])))
    out.append(verify(eng, "CaseInsensitiveDict[set n1, look up n2]", run_set, post_set, func="containers.CaseInsensitiveDict"))

    def run_prior(eng):
        eng.I = {}
        d, m, n1, n2 = mk(eng)
        mod = eng.load_module("containers")
        c1 = eng.eval(ast.parse("k in d", mode="eval").body, _env(eng, d=d, k=n1), mod)
        c2 = eng.eval(ast.parse("k in d", mode="eval").body, _env(eng, d=d, k=n2), mod)
        g1 = eng.eval(ast.parse("d.get(k)", mode="eval").body, _env(eng, d=d, k=n1), mod)
        g2 = eng.eval(ast.parse("d.get(k)", mode="eval").body, _env(eng, d=d, k=n2), mod)
        return c1, c2, g1, g2

    def post_prior(eng, o):
        eng.prove("no-exception", o[0] == "return")
        if o[0] == "return":
            c1, c2, g1, g2 = o[1]
            eng.prove("membership-and-value-agree-for-two-spellings-of-a-key-over-arbitrary-content", z3.And(c1 == c2, z3.BoolVal(g1 is g2)))
    out.append(verify(eng, "CaseInsensitiveDict[prior content, n1 vs n2]", run_prior, post_prior, func="containers.CaseInsensitiveDict"))
    return out


def _env(eng, **vars_):
    from pyvc.engine import Env
    e = Env(eng.load_module("containers")["env"])
    e.vars.update(vars_)
    return e


def unit_define_resolve_case(eng, what):
    """define under spelling n1, refer under spelling n2 (same lower()): the reference binds to that definition"""
    def run(eng):
        use_callee_contracts(eng, "wait")
        eng.I = {}
        comp = compiler_obj(eng)
        S, X = sym_tables(eng, comp, empty=True)
        n1, n2 = name_input(eng, "n1"), name_input(eng, "n2")
        eng.assume(strlower(n1) == strlower(n2))
        state, lp, ip = mk_state(eng, comp)
        for p in (lp, ip):
            for n in (n1, n2):
                lower_hom(eng, p, n)
        eng.assume(z3.Not(z3.Or([strlower(n2) == z3.StringVal(r) for r in symbols_c.REGS])))
        eng.contracts["not_ready"] = lambda e: None
        if what == "label":
            tok = mk_token(eng, "Label", name=n1, local=False, is_extern=False)
            addr = Lazy(int_input(eng, "addr"), "int")
            eng.call(eng.getattr(comp, "compile_label"), [tok, addr, state], {})
            eng.I.update(tok=tok, val=addr)
        else:
            v = int_input(eng, "val")
            tok = mk_token(eng, "Assignment", target=mk_token(eng, "Symbol", name=n1, is_necessarily_label=False), value=value_token(eng, v), is_extern=False)
            eng.call(eng.getattr(comp, "compile_assignment"), [tok, state], {})
            eng.I.update(tok=tok, val=v)
        ref = mk_token(eng, "Symbol", name=n2, is_necessarily_label=False)
        return eng.call(eng.getattr(ref, "_resolve"), [state], {})

    def post(eng, o):
        kind, val = o
        eng.prove("no-exception-and-no-error", kind == "return" and not errors(eng))
        if kind == "return":
            eng.prove("a-reference-in-another-letter-case-binds-to-the-definition", val[0] is eng.I["tok"])
    return verify(eng, "define-then-resolve-in-another-case[%s]" % what, run, post, func="compiler.Compiler.compile_%s + types.Symbol._resolve" % what)


def unit_forms_equal(eng, pair):
    """two spellings of one operand, tied by the same register number / value: same field and extension word"""
    a, b = pair
    name = "operand-forms[%s == %s]" % (a, b)

    def run(eng):
        install(eng, "wait", "get_as_int", "try_as_register")
        eng.lazy_mode = "eager"
        eng.I = {}
        ta, ia = shape_build(eng, a, False)
        tb, ib = shape_build(eng, b, False)
        # tie the leaves: same register number (a register spelled %n has n == r)
        ra, rb = ia["reg"], ib["reg"]
        eng.assume(ra == rb)
        stub = stub_obj(eng, "RegisterModeOperandStub", "s", [5, 4, 3, 2, 1, 0])
        rel = int_input(eng, "rel")
        r1 = eng.call(Bound(stub, stub.cls.lookup("encode")), [ta, state_for(eng, rel)], {})
        r2 = eng.call(Bound(stub, stub.cls.lookup("encode")), [tb, state_for(eng, rel)], {})
        return r1, r2

    def post(eng, o):
        kind, val = o
        if kind == "raise":
            eng.prove("only-RecoverableError-after-an-error", val.cls == "RecoverableError" and len(errors(eng)) >= 1)
            return
        (f1, e1), (f2, e2) = val
        eng.prove("both-spellings-give-the-same-mode-register-field-and-no-extension-word", z3.And(final(f1) == final(f2), z3.BoolVal(e1 == b"" and e2 == b"")))
    return verify(eng, name, run, post, func="insns.RegisterModeOperandStub.encode (two spellings)")


def unit_word_forms(eng, n, dot=False):
    """explicit '.word a, b' vs the implicit word list 'a, b': same bytes, same size, same odd-address behaviour; with dot=True every word is
    the location counter '.' (the real InstructionPointer token): in both spellings it denotes the address of the statement"""
    def run(eng):
        use_callee_contracts(eng, "wait", "get_as_int")
        eng.lazy_mode = "eager"
        eng.I = {}
        vals = [dyn_input(eng, "v%d" % i) for i in range(n)]
        addr = int_input(eng, "addr")
        if dot:
            toks1 = [insn.new(eng, "types", "InstructionPointer") for _ in range(n)]
            toks2 = [insn.new(eng, "types", "InstructionPointer") for _ in range(n)]
        else:
            toks1 = [value_token(eng, d[0], "a%d" % i) for i, d in enumerate(vals)]
            toks2 = [value_token(eng, d[0], "b%d" % i) for i, d in enumerate(vals)]
        out = []
        for which in ("explicit", "implicit"):
            before = len(eng.path.events)
            try:
                if which == "explicit":
                    r = c06.run_directive(eng, ".word", toks1, addr)
                else:
                    ccls = eng.resolve_global(eng.load_module("compiler"), "Compiler")
                    comp = Obj(ccls, name="compiler")
                    insn_ = mk_token(eng, "WordList", words=toks2)
                    r = eng.call(Bound(comp, ccls.lookup("compile_word_list")), [insn_, toks2, {"insn": insn_, "emit_address": addr, "compiler": comp}], {})
                out.append(("return", r, [e[1] for e in eng.path.events[before:] if e[0] == "error"]))
            except PyRaise as pr:
                out.append(("raise", pr.exc.cls, [e[1] for e in eng.path.events[before:] if e[0] == "error"]))
        return out

    def post(eng, o):
        eng.prove("no-exception-from-the-harness", o[0] == "return")
        if o[0] != "return":
            return
        ex, im = o[1]
        # '.word' catches the RecoverableError of a refused operand and emits nothing; the implicit list lets it propagate: both are 'refused with an error'
        ok1 = ex[0] == "return" and not ex[2]
        ok2 = im[0] == "return" and not im[2]
        eng.prove("accepted-by-one-spelling-iff-accepted-by-the-other", ok1 == ok2)
        if ok1 and ok2:
            eng.prove("same-bytes", zbytes(ex[1]) == zbytes(im[1]))
            eng.prove("same-announced-size", announced_len(ex[1]) == announced_len(im[1]) if (isinstance(ex[1], Lazy) and isinstance(im[1], Lazy)) else True)
    r = verify(eng, "word-forms[n=%d%s]" % (n, ",dot" if dot else ""), run, post, func="metacommands.word vs compiler.Compiler.compile_word_list")
    for o_ in r["obligations"]:
        o_["cfg"] = dict(kind="word-forms", n=n, dot=dot)
    return r


def unit_paren(eng):
    out = []
    for opening in ("(", "<", "^/"):
        def run(eng, opening=opening):
            eng.I = {}
            e, v = leaf_value(eng, "e")
            tok = paren(eng, e, opening)
            eng.I["v"] = v
            return eng.call(eng.getattr(tok, "resolve"), [{}], {})
        out.append(verify(eng, "ParenthesizedExpression.resolve[%s]" % opening, run, lambda eng, o: eng.prove("grouping-style-does-not-change-the-value", o[0] == "return" and o[1] is eng.I["v"]),
                          func="types.ParenthesizedExpression.resolve"))
    return out


def unit_text_frame(eng):
    """frame: the source text of a token (Token.text(), a slice of Context.code) is spelling; after parsing it may be read only to build a
    diagnostic (inside the arguments of a reports.* call) - a decision taken on it makes the output depend on how an expression is written
    (which bracket, which blanks, which comment) instead of on the token tree"""
    import ast
    from pyvc import frames
    pkg = os.path.join(driver.tree_root(), "pdpy11")
    bad = []
    for mname, tree in frames.parse_package(pkg).items():
        if mname in ("parser", "context", "reports"):
            continue                      # the scanner itself and the report renderer read text by definition
        in_report = set()
        for node in ast.walk(tree):
            if isinstance(node, ast.FunctionDef) and node.name == "text":
                for sub in ast.walk(node):
                    in_report.add(id(sub))         # the accessor itself
            if isinstance(node, ast.Call) and isinstance(node.func, ast.Attribute) and frames.root_name(node.func) == "reports":
                for sub in ast.walk(node):
                    in_report.add(id(sub))
        for node in ast.walk(tree):
            hit = None
            if isinstance(node, ast.Call) and isinstance(node.func, ast.Attribute) and node.func.attr == "text" and not node.args:
                hit = frames.text(node)
            if isinstance(node, ast.Attribute) and node.attr == "code" and isinstance(node.ctx, ast.Load) and frames.text(node).split(".")[-2:-1] in (["ctx_start"], ["ctx_end"], ["ctx"]):
                hit = frames.text(node)
            if hit and id(node) not in in_report:
                bad.append((mname, node.lineno, hit))
    ob = dict(label="token-source-text-is-read-only-to-build-diagnostics(no decision depends on how an expression is spelled)", kind="frame", status="proved" if not bad else "failed", secs=0.0,
              path=[], witness=None, detail=str(bad), events=[], smt2=None, backend="ast-inventory", unit="text-frame", func="package-wide frame (AST inventory)", cfg=dict(kind="text-frame"))
    return dict(unit="text-frame", func="package-wide frame (AST inventory)", paths=1, obligations=[ob], wall=0.0)


def replay_text_frame(tree):
    """bracket styles in a branch operand: ( ) versus < > versus ^/ / must give the same outcome"""
    groups = [("(%s)", "<%s>", "^/%s/")]
    progs = ["nop\nbr %s+2\n", "1: nop\nbr 1+%s\n", "a: nop\nsob r1, a+%s\n"]
    inner = ["1000", "0", "0"]
    jobs, keys = [], []
    for pr, inn in zip(progs, inner):
        for st in groups[0]:
            jobs.append({"kind": "asm", "sources": [pr % (st % inn)]})
            keys.append((pr, st))
    res = driver.native(jobs, tree)
    out = [(r["status"], r.get("code_hex")) for r in res]
    bad = []
    for i in range(0, len(out), 3):
        if len(set(out[i:i + 3])) != 1:
            bad.append((jobs[i]["sources"][0], out[i:i + 3]))
    return dict(jobs=jobs[:3], expected="the three bracket styles of one operand give the same status and bytes", observed=bad, reproduced=bool(bad))


# ------------------------------------------------------------------ bounded stand-ins
def unit_bounded_scanner(eng, tier="quick"):
    maxlen = 6 if tier == "quick" else 7
    code = r'''
import itertools
from pdpy11.context import Context
from pdpy11.parser import Parser
from pdpy11 import reports
def spec_skip(text, pos):
    while pos < len(text):
        c = text[pos]
        if c in " \t\n":
            pos += 1
        elif c == ";":
            while pos < len(text) and text[pos] != "\n":
                pos += 1
        else:
            break
    return pos
bad = []
n = 0
for L in range(0, %d + 1):
    for t in itertools.product("a \t\n;", repeat=L):
        text = "".join(t)
        for pos in range(0, L + 1):
            ctx = Context("f", text); ctx.pos = pos
            ctx.skip_whitespace(); n += 1
            if ctx.pos != spec_skip(text, pos):
                bad.append([text, pos, ctx.pos]); break
lits = 0
for lit in ("mov", ".word", "R0", "^X", "0x"):
    for case in itertools.product(*[(c.lower(), c.upper()) for c in lit]):
        s = "".join(case)
        for ins in ("", " ", "\t; c\n "):
            ctx = Context("f", ins + s + "!")
            try:
                r = Parser.literal(lit)(ctx)
                ok = r == lit.lower() and ctx.pos == len(ins + s)
            except reports.RecoverableError:
                ok = False
            lits += 1
            if not ok: bad.append(["literal", lit, s, ins])
result = [n, lits, bad[:5]]
''' % maxlen
    r = driver.native([{"kind": "py", "code": code}], driver.tree_root(), timeout=1200)[0]
    n, lits, bad = r["result"] if r["status"] == "ok" else (0, 0, [str(r)[:300]])
    obs = [dict(label="Context.skip_whitespace==reference-scanner;Parser.literal-matches-every-letter-case-after-blanks-and-comments", kind="bounded", status="proved" if n and not bad else "failed",
                secs=0.0, path=[], witness=None, detail=str(bad), events=[], smt2=None, backend="cpython-native", unit="bounded-scanner", func="context.Context.skip_whitespace / parser.Parser.literal (bounded stand-in)",
                bound="every text over {a, space, tab, newline, ';'} up to length %d x every start position; 5 literals x every letter-case combination x 3 leading blank/comment forms" % maxlen,
                cases=n + lits, cfg=dict(kind="bounded"))]
    return dict(unit="bounded-scanner", func="context.Context.skip_whitespace / parser.Parser.literal (bounded stand-in)", paths=n + lits, obligations=obs, wall=0.0)


def unit_bounded_literal_case(eng):
    """bounded stand-in for the scanner's number rules (outside the subset): every letter-case combination of every radix spelling of a set of
    values assembles to the same word as the plain octal spelling"""
    import itertools
    values = [0, 1, 7, 8, 9, 10, 15, 16, 31, 255, 0o777, 0xabc, 0xbeef, 0xffff, 0xfade]
    spellings = []
    for v in values:
        forms = ["0x%x" % v, "0o%o" % v, "0b" + bin(v)[2:], "^x%x" % v, "^o%o" % v, "^b" + bin(v)[2:], "^d%d" % v, "%d." % v, "^c<^c%o>" % v]
        for f in forms:
            letters = [i for i, ch in enumerate(f) if ch.isalpha()]
            if len(letters) > 6:
                combos = [tuple(ch.upper() == ch for _ in letters) for ch in "aA"] + [tuple((k >> j) & 1 == 1 for j in range(len(letters))) for k in (0b101010, 0b010101, 0b110011, 1, 2)]
            else:
                combos = itertools.product((False, True), repeat=len(letters))
            for c in combos:
                t = list(f)
                for i, up in zip(letters, c):
                    t[i] = t[i].upper() if up else t[i].lower()
                spellings.append((v, "".join(t)))
    # the sign belongs to the number whatever its radix spelling: '-^O32' is '-32' (one letter case per form; the sign written tight and with a blank)
    for v in values:
        for f in ["0x%x" % v, "0o%o" % v, "0b" + bin(v)[2:], "^x%x" % v, "^o%o" % v, "^b" + bin(v)[2:], "^d%d" % v, "%d." % v, "%o" % v, "^X%X" % v, "^D%d" % v]:
            spellings.append(((-v) % 65536, "-" + f))
            spellings.append(((-v) % 65536, "- " + f))
            spellings.append((v, "+" + f))
    spellings = sorted(set(spellings))
    jobs = [{"kind": "asm", "sources": [".word %s\nmov #%s, r0\n" % (sp, sp)]} for _, sp in spellings]
    res = driver.native(jobs, driver.tree_root(), timeout=900)
    bad = []
    for (v, sp), r in zip(spellings, res):
        want = (v.to_bytes(2, "little") + (0o012700).to_bytes(2, "little") + v.to_bytes(2, "little")).hex()
        if r["status"] != "ok" or r.get("code_hex") != want:
            bad.append((sp, "%o" % v, r["status"], r.get("code_hex"), [d[1] for d in r.get("diags", [])][:2]))
    ob = dict(label="every-letter-case-and-sign-of-every-radix-spelling(0x 0o 0b ^X ^O ^B ^D ^C, hex digits)-assembles-like-the-octal-spelling", kind="bounded", status="proved" if spellings and not bad else "failed",
              secs=0.0, path=[], witness=None, detail=str(bad[:5]), events=[], smt2=None, backend="cpython-native", unit="bounded-literal-case", func="parser.number (bounded stand-in)",
              bound="%d values x 9 radix spellings x every letter-case combination, and x 11 spellings x 3 signs (%d spellings)" % (len(values), len(spellings)), cases=len(spellings), cfg=dict(kind="bounded"))
    return dict(unit="bounded-literal-case", func="parser.number (bounded stand-in)", paths=len(spellings), obligations=[ob], wall=0.0)


def unit_bounded_grouping(eng):
    """bounded stand-in: ( ) versus < > versus ^/ / around sub-expressions, nested up to depth 3, in '.word E' and 'mov #E, r0' - every
    spelling gives the bytes of the ( ) spelling.  Finding D42: an angle bracket written directly next to another one is lexed as a shift."""
    exprs = set()
    atoms = ["1", "2", "x"]
    level = list(atoms)
    for _ in range(2):
        nxt = []
        for a in level[:6]:
            nxt.append("(%s)" % a)
            for b in atoms[:2]:
                for o in ("+", "*", "-"):
                    nxt.append("(%s%s%s)" % (a, o, b))
                    nxt.append("%s%s(%s)" % (b, o, a))
        exprs.update(nxt)
        level = nxt
    exprs.update(["((1))", "((1)+2)", "(1+(2))", "((1)+(2))", "(((2)))", "(4)>>1", "1<<(2)", "((4)>>1)", "(1<<(2))", "-(1)", "-((1))", "(-(1))+2"])
    exprs = sorted(e for e in exprs if len(e) <= 14)
    cases = []
    for e in exprs:
        angle = e.replace("(", "<").replace(")", ">")
        cases.append((e, angle))
        if e.count("(") == 1:
            cases.append((e, e.replace("(", "^/").replace(")", "/")))
    jobs = []
    for e, v in cases:
        jobs.append({"kind": "asm", "sources": ["x = 3\n.word %s\nmov #%s, r0\n" % (e, e)]})
        jobs.append({"kind": "asm", "sources": ["x = 3\n.word %s\nmov #%s, r0\n" % (v, v)]})
    res = driver.native(jobs, driver.tree_root(), timeout=900)
    bad, known = [], []
    for i, (e, v) in enumerate(cases):
        ra, rb = res[2 * i], res[2 * i + 1]
        if ra["status"] != "ok":
            continue                                  # the reference spelling itself is not a valid program (e.g. division result out of range)
        if (rb["status"], rb.get("code_hex")) != ("ok", ra.get("code_hex")):
            adjacent = ("<<" in v and "<<" not in e) or (">>" in v and ">>" not in e) or ">>>" in v or "<<<" in v
            (known if adjacent and "D42" in common.ACTIVE_FINDINGS else bad).append((e, v, rb["status"], [d[1] for d in rb.get("diags", [])][:1]))
    status = "failed" if bad else ("known-region" if known else "proved")
    ob = dict(label="( )-versus-< >-versus-^/ /-grouping-gives-identical-bytes(nested, in .word and in an immediate operand)", kind="bounded", status=status, secs=0.0, path=[], witness=None,
              detail=str(dict(new=bad[:5], known_D42=known[:3])), events=[], smt2=None, backend="cpython-native", unit="bounded-grouping", func="parser.expression (bounded stand-in)",
              bound="%d expressions with up to 3 nested groups x 2 operand positions x the angle-bracket (and, for single groups, ^/ /) spelling" % len(exprs), cases=len(cases),
              cfg=dict(kind="bounded"))
    return dict(unit="bounded-grouping", func="parser.expression (bounded stand-in)", paths=len(cases), obligations=[ob], wall=0.0)


def witness_D42(tree):
    res = driver.native([{"kind": "asm", "sources": ["mov #((1)), r0\n"]}, {"kind": "asm", "sources": ["mov #<<1>>, r0\n"]}], tree)
    return (res[0]["status"], res[0].get("code_hex")) != (res[1]["status"], res[1].get("code_hex")), "'mov #((1)), r0' -> %s, 'mov #<<1>>, r0' -> %s" % (res[0]["status"], res[1]["status"])


FINDING_WITNESS = {"D42": witness_D42}


def unit_bounded_terminators(eng=None):
    """what ends a statement is spelling: every kind of statement followed by nothing, a blank, a tab, a comment (attached or after blanks, empty,
    with further ';' inside), a line break - all spellings assemble identically (bounded stand-in for the statement scanners of the parser)"""
    stmts = ["mov r0, r1", "nop", "1, 2", "100.", "177777", ".word 1", ".word", "lab:", "x = 5", "x == 5", ".ascii \"a\"", ".ascii /a/", "br .", "v", "v, 1", "clr (r1)+", "mov #1, @#100", ".byte 1, 2", ".even",
             ".blkb 2", "lab2: nop", ".repeat 2 { nop }", "jsr pc, @(r1)+", "emt 10", "'a", "\"ab", ".word ^Rabc", "<1+2>*3", "rts pc", ".rad50 /ab/", "ldf (r0), ac1", "0x1f", "1$: sob r0, 1$"]
    terms = ["", " ", "\t", ";c", " ;c", "\t; c ; d", ";", " ; ", ";;", " ;'\"<", "\n", " \n\n", ";c\n;d\n"]
    jobs = []
    for st in stmts:
        for t in terms:
            jobs.append({"kind": "asm", "sources": ["v = 7\n" + st + t + "\nhalt\n"]})
    res = driver.native(jobs, driver.tree_root())
    bad = []
    for i, st in enumerate(stmts):
        ref = res[i * len(terms)]
        for j, t in enumerate(terms):
            r = res[i * len(terms) + j]
            if (r["status"], r.get("code_hex")) != (ref["status"], ref.get("code_hex")) or r["status"] == "crash":
                bad.append((st, t, [ref["status"], ref.get("code_hex")], [r["status"], r.get("code_hex"), [d[1] for d in r.get("diags", [])][:2]]))
        if ref["status"] != "ok":
            bad.append((st, "", "the reference spelling itself does not assemble", [d[1] for d in ref.get("diags", [])][:2]))
    ob = dict(label="every-statement-kind-assembles-identically-whatever-ends-it(blank, tab, attached / detached / empty / nested comment, line break)", kind="bounded",
              status="proved" if jobs and not bad else "failed", secs=0.0, path=[], witness=None, detail=str(bad[:4]), events=[], smt2=None, backend="cpython-native", unit="bounded-terminators",
              func="parser statement scanners (bounded stand-in)", bound="%d statement kinds x %d terminators" % (len(stmts), len(terms)), cases=len(jobs), cfg=dict(kind="bounded"))
    return dict(unit="bounded-terminators", func="parser statement scanners (bounded stand-in)", paths=len(jobs), obligations=[ob], wall=0.0)


# ------------------------------------------------------------------ rac: structured respelling
def gen_pair(rnd):
    """one program in two spellings that must assemble identically"""
    import random
    regs = [("r0", "%0", "R0"), ("r1", "%1", "R1"), ("r5", "%5", "R5"), ("sp", "r6", "SP"), ("pc", "r7", "PC"), ("r6", "sp", "%6"), ("sp", "Sp", "sP"), ("pc", "Pc", "pC"), ("r3", "R3", "%3")]
    syn = [("bcc", "bhis"), ("bcs", "blo"), ("ccc", "clnzvc"), ("trap", "sys"), ("halt", "hlt"), ("ret", "return")]
    a, b = [], []
    labels = ["start", "Loop", "data_1"]
    for i in range(rnd.randrange(3, 10)):
        k = rnd.random()
        ws = rnd.choice([" ", "  ", "\t", " \t "])
        cm = rnd.choice(["", " ; comment", "\t;x ; y", ";attached", "; two; of them", ";"])
        blank = rnd.choice(["", "\n", "\n; only a comment\n"])
        if k < 0.35:
            r1, r2 = rnd.choice(regs), rnd.choice(regs)
            n = rnd.randrange(0, 200)
            forms = [("mov %s, %s", "MOV %s,%s"), ("add (%s)+, -(%s)", "Add (%s)+ ,-(%s)"), ("cmp %o(%%s), @#1000" % n, "CMP <%d.>(%%s) , @#0x200" % n),
                     ("mov start-2(%%s), @start+%o(%%s)" % n, "MOV Start-2(%%s) ,@START+0x%x(%%s)" % n)]
            fa, fb = rnd.choice(forms)
            if fa.count("%s") == 2:
                a.append(fa % (r1[0], r2[0]))
                b.append(blank + ws + (fb % (r1[rnd.choice([1, 2])], r2[rnd.choice([1, 2])])) + cm)
            else:
                a.append(fa % r1[0])
                b.append(blank + ws + (fb % r1[rnd.choice([1, 2])]) + cm)
        elif k < 0.5:
            r = rnd.choice(regs[:3])
            a.append("clr (%s)" % r[0])
            b.append(ws + "clr @%s" % r[2] + cm)
        elif k < 0.65:
            vals = [rnd.randrange(0, 65536) for _ in range(rnd.randrange(1, 4))]
            a.append(".word " + ", ".join("%o" % v for v in vals))
            # an implicit word list must not begin with an operator character: the expression grammar lets the previous line continue ('x' newline '^B1' is x ^ B1)
            first = rnd.choice(["%d." % vals[0], "0x%X" % vals[0], "0X%x" % vals[0], "0o%o" % vals[0], "0O%o" % vals[0], "%o" % vals[0]])
            rest = [rnd.choice(["%d." % v, "0x%X" % v, "0X%x" % v, "0o%o" % v, "0B" + bin(v)[2:], "^X%x" % v, "^x%X" % v, "^B" + bin(v)[2:], "^d%d" % v, "%o" % v]) for v in vals[1:]]
            head = rnd.choice(["", ".WORD ", ".Word\t"])
            if head:
                first = rnd.choice([first, "^X%x" % vals[0], "^B" + bin(vals[0])[2:]])
            b.append(blank + head + " , ".join([first] + rest) + cm)
        elif k < 0.75:
            s1, s2 = rnd.choice(syn)
            if s1 in ("bcc", "bcs"):
                a.append("%s start" % s1)
                b.append(ws + "%s START" % s2.upper() + cm)
            elif s1 == "trap":
                a.append("trap 12")
                b.append("SYS\t10." + cm)
            else:
                a.append(s1)
                b.append(ws + s2.upper() + cm)
        elif k < 0.85 and labels:
            l = labels.pop(0)
            a.append("%s:" % l)
            b.append("%s:%s" % (l, cm))
        else:
            x, y = rnd.randrange(1, 50), rnd.randrange(1, 50)
            a.append(".word (%o + %o) * 2, start" % (x, y))
            b.append(".word <%o + %o>*2 ,Start" % (x, y) + cm)
    if "start:" not in a:
        a.insert(0, "start:")
        b.insert(0, "START:")
    return "\n".join(a) + "\n", "\n".join(b) + "\n"


def unit_rac(eng, tier="quick"):
    import random
    rnd = random.Random(int(os.environ.get("VERIF_SEED", "0") or 0))
    pairs = [gen_pair(rnd) for _ in range(60 if tier == "quick" else 600)]
    jobs = []
    for a, b in pairs:
        jobs += [{"kind": "asm", "sources": [a]}, {"kind": "asm", "sources": [b]}]
    res = driver.native(jobs, driver.tree_root(), timeout=1500)
    bad = []
    for i, (a, b) in enumerate(pairs):
        ra, rb = res[2 * i], res[2 * i + 1]
        if ra["status"] != "ok" or (rb["status"], rb.get("code_hex")) != ("ok", ra.get("code_hex")):
            bad.append((a[:120], b[:160], ra["status"], rb["status"], [d[1] for d in rb.get("diags", []) if d[0] == "E"][:2]))
    ob = dict(label="respelled-programs(case, blanks, comments, radix, grouping, register and synonym spelling, .word)-assemble-identically", kind="rac", status="proved" if not bad else "failed",
              secs=0.0, path=[], witness=None, detail=str(bad[:3]), events=[], smt2=None, backend="cpython-native", unit="respelling-rac", func="parser + Compiler (run-time check)",
              cases=len(pairs), cfg=dict(kind="rac"))
    return dict(unit="respelling-rac", func="parser + Compiler (run-time check)", paths=len(pairs), obligations=[ob], wall=0.0)


def units(tier):
    us = [("rac", "unit_rac", dict(tier=tier)), ("bounded-scanner", "unit_bounded_scanner", dict(tier=tier)), ("cidict", "unit_cidict", {}), ("paren", "unit_paren", {}),
          ("try_as_register", "unit_try_as_register", {}), ("try_accumulator", "unit_try_accumulator", {}), (".extern[all]", "unit_extern", dict(shape=("all", "sym")))]
    for what in ("label", "assignment"):
        us.append(("define-resolve[%s]" % what, "unit_define_resolve_case", dict(what=what)))
    for pair in (("(Rn)", "@Rn"), ("Rn", "%e"), ("(Rn)", "(Rn)")):
        us.append(("forms[%s,%s]" % pair, "unit_forms_equal", dict(pair=pair)))
    for n in (1, 2, 3):
        us.append(("word-forms[%d]" % n, "unit_word_forms", dict(n=n)))
        us.append(("word-forms[%d,dot]" % n, "unit_word_forms", dict(n=n, dot=True)))
    us.append(("synonyms", "unit_init_closed", {}))
    # rN versus %N inside every addressing form, also behind an index expression
    for sh in insn.PCT_SHAPES:
        us.append(("rm-pct[%s]" % sh, "unit_rm_pct", dict(shape=sh, reg_lazy=False)))
    us.append(("bounded-literal-case", "unit_bounded_literal_case", {}))
    us.append(("text-frame", "unit_text_frame", {}))
    # what a statement is: a built-in in any letter case, a metacommand without its dot, an implicit word list of a variable
    for k in compiler_c.DISPATCH_KINDS:
        us.append(("dispatch[%s]" % k, "unit_dispatch", dict(kind=k)))
    us.append(("bounded-grouping", "unit_bounded_grouping", {}))
    us.append(("bounded-terminators", "unit_bounded_terminators", {}))
    # whole programs: the statement holds wherever a statement stands (repeat body, included / linked file, any block) - contracts/structure.py
    us += structure.units()
    us += structure.kernel_units()
    return us


def canary(eng):
    def run(eng):
        eng.I = {}
        return None

    def post(eng, o):
        a, b = z3.String("a"), z3.String("b")
        eng.prove("canary-equal-lowercase-means-equal", z3.Implies(strlower(a) == strlower(b), a == b))
    return verify(eng, "canary", run, post, func="canary")


def replay(o, tree):
    r_ = None if o.get("_shared_replay") else structure.replay(dict(o, _shared_replay=True), tree)
    if r_ is not None and r_.get("reproduced"):
        return r_
    if (o.get("cfg") or {}).get("kind") == "dispatch":
        pairs = [("x = 5\nx\n", "x = 5\n.word x\n"), ("x = 5\nx, 1\n", "x = 5\n.word x, 1\n"), ("WORD 1, 2\n", ".word 1, 2\n"), ("MoV #1, R0\n", "mov #1, r0\n"),
                 ("x = 5\nX\n", "x = 5\n.word x\n"), ("lab: nop\nlab\n", "frob\n")]
        jobs = []
        for a_, b_ in pairs:
            jobs += [{"kind": "asm", "sources": [a_]}, {"kind": "asm", "sources": [b_]}]
        res = driver.native(jobs, tree)
        bad = [(pairs[i][0], [res[2 * i]["status"], res[2 * i].get("code_hex")], [res[2 * i + 1]["status"], res[2 * i + 1].get("code_hex")]) for i in range(len(pairs))
               if (res[2 * i]["status"], res[2 * i].get("code_hex")) != (res[2 * i + 1]["status"], res[2 * i + 1].get("code_hex"))]
        return dict(jobs=jobs[:4], expected="the implicit / differently-cased spelling assembles like the explicit one", observed=bad, reproduced=bool(bad))
    if (o.get("cfg") or {}).get("kind") == "word-forms":
        pairs = [("nop\n0, .\n", "nop\n.word 0, .\n"), ("a: nop\n3, a-., b-., c-.\nb: nop\nc:\n", "a: nop\n.word 3, a-., b-., c-.\nb: nop\nc:\n"), (".repeat 2 { 5, .+2 }\n", ".repeat 2 { .word 5, .+2 }\n"),
                 ("1, 2, 3\n", ".word 1, 2, 3\n"), (".byte 1\n1, 2\n", ".byte 1\n.word 1, 2\n"), ("177777, -1\n", ".word 177777, -1\n")]
        jobs = []
        for a_, b_ in pairs:
            jobs += [{"kind": "asm", "sources": [a_]}, {"kind": "asm", "sources": [b_]}]
        res = driver.native(jobs, tree)
        bad = [(pairs[i][0], [res[2 * i]["status"], res[2 * i].get("code_hex")], [res[2 * i + 1]["status"], res[2 * i + 1].get("code_hex")]) for i in range(len(pairs))
               if (res[2 * i]["status"], res[2 * i].get("code_hex")) != (res[2 * i + 1]["status"], res[2 * i + 1].get("code_hex"))]
        return dict(jobs=jobs[:4], expected="the implicit word list assembles like the explicit '.word'", observed=bad, reproduced=bool(bad))
    if (o.get("cfg") or {}).get("kind") == "pct":
        from contracts import c08
        r = c08.replay(o, tree)
        if r is not None:
            # the rN spelling of the same operand is the reference
            import re
            src = r["source"]
            ref = driver.native([{"kind": "asm", "sources": [re.sub(r"%1\b", "r1", src)]}, {"kind": "asm", "sources": [src]}], tree)
            same = (ref[0]["status"], ref[0].get("code_hex")) == (ref[1]["status"], ref[1].get("code_hex"))
            r.update(expected="the %N spelling assembles like the rN spelling", observed=[[x["status"], x.get("code_hex")] for x in ref], reproduced=r["reproduced"] or not same)
        return r
    if (o.get("cfg") or {}).get("kind") == "text-frame":
        return replay_text_frame(tree)
    if o.get("kind") in ("bounded", "rac", "closed"):
        return None          # evaluated on the real package already: the failing spelling is in the obligation's detail
    old = os.environ.get("PDPY11_SRC")
    os.environ["PDPY11_SRC"] = tree
    try:
        rr = unit_rac(None, "thorough")["obligations"][0]
    finally:
        if old is None:
            os.environ.pop("PDPY11_SRC", None)
        else:
            os.environ["PDPY11_SRC"] = old
    return dict(jobs=None, experiment="600 generated programs vs their respelled variants on the real assembler", observed=rr["detail"][:800], reproduced=rr["status"] == "failed")
