"""Contracts on the structural / zero-size directives of pdpy11/metacommands.py, executed through the real Metacommand.compile_insn.
Shared by C02 (site obligations of size=0 directives, .repeat accounting), C16, C11 (.extern), C12 (.link), C13 (make_*)."""
import z3
from contracts.common import *  # noqa
from contracts import common
from contracts.c06 import metacommand_obj
from contracts.compiler_c import make_chunk, pick, compiler_obj, link_base
from pyvc import driver
from pyvc.engine import LoopSpec, BUILTINS, SymRange


class FileSim:
    """open(path, mode): external.  Either raises one of the I/O exceptions or yields a file whose read() returns arbitrary content"""
    EXC = ["FileNotFoundError", "IsADirectoryError", "IOError", "UnicodeDecodeError"]


def install_io(eng):
    def b_open(eng_, path, mode="r", **kw):
        eng_.path.events.append(("open", mode))
        eng_.I["opened_path"] = path
        k = pick(eng_, ["ok"] + FileSim.EXC, "open")
        if k != "ok":
            if k == "UnicodeDecodeError" and "b" in mode:
                from pyvc.engine import PathEnd
                raise PathEnd()
            raise PyRaise(Exc(k))
        content = abstract_seq("file_bytes") if "b" in mode else z3.String("file_text")
        eng_.I["file_content"] = content
        f = Obj("File", name="file")
        f.attrs["__enter__"] = Builtin("enter", lambda e: f)
        f.attrs["__exit__"] = Builtin("exit", lambda e, *a: False)
        f.attrs["read"] = Builtin("read", lambda e: content)
        return f
    BUILTINS["open"] = Builtin("open", b_open)
    respath = z3.Function("resolve_relative_path", z3.StringSort(), z3.StringSort(), z3.StringSort())
    eng.I["respath"] = respath
    eng.contracts["resolve_relative_path"] = lambda eng_, path, base: respath(zs(path), zs(base))


def zs(v):
    return z3.StringVal(v) if isinstance(v, str) else v


class PathEndSignal(Exception):
    pass


def run_meta(eng, cmd_name, operand_tokens, extra_state=None, comp=None):
    use_callee_contracts(eng, "wait", "get_as_int")
    cmd = metacommand_obj(eng, cmd_name)
    insn = insn_token(eng, cmd_name, operand_tokens)
    comp = comp or compiler_obj(eng, output_charset="CHARSET")
    lb, p, sig = link_base(eng, False)
    state = {"insn": insn, "emit_address": Lazy(int_input(eng, "addr"), "int"), "compiler": comp, "filename": "/src/prog.mac", "context": "file",
             "internal_symbol_prefix": ".internal1.", "local_symbol_prefix": ".local1.", "link_base": lb, "internal_symbols_list": [], "extern_all": None}
    if extra_state:
        state.update(extra_state)
    eng.I.update(cmd=cmd, state=state, comp=comp, insn=insn)
    return eng.call(Bound(cmd, cmd.cls.lookup("compile_insn")), [state, insn], {})


def str_token(eng, name):
    s = z3.String(name)
    eng.inputs[name] = s
    return value_token(eng, s, name), s


ZERO_SIZE = {".error": (0, 1), ".list": (0, 1), ".nlist": (0, 1), ".title": (1, 1), ".sbttl": (1, 1), ".ident": (1, 1), ".page": (0, 0),
             "make_bin": (0, 1), "make_bk0010_rom": (0, 1), "make_raw": (0, 1), "make_wav": (0, 2), "make_turbo_wav": (0, 2), ".end": (0, 0), ".once": (0, 0)}
EXPECTED_REPORT = {".error": ("error", "user-error"), ".list": ("warning", "not-implemented"), ".nlist": ("warning", "not-implemented"), ".title": ("warning", "not-implemented"),
                   ".sbttl": ("warning", "not-implemented"), ".ident": ("warning", "not-implemented"), ".page": ("warning", "not-implemented")}


def unit_zero_size(eng, cmd, nops):
    """directives registered with size=0: the bytes they finally produce are empty (site obligation), whatever else they do"""
    name = "%s[operands=%d]" % (cmd, nops)

    def run(eng):
        eng.I = {}
        install_io(eng)
        ops = []
        for i in range(nops):
            if cmd in (".list", ".nlist"):
                ops.append(value_token(eng, int_input(eng, "n%d" % i)))
            else:
                ops.append(str_token(eng, "s%d" % i)[0])
        comp = compiler_obj(eng, output_charset="CHARSET")
        comp.attrs["times_file_compiled"] = {"/src/prog.mac": int_input(eng, "times")}
        return run_meta(eng, cmd, ops, comp=comp)

    def post(eng, o):
        kind, val = o
        if kind == "raise":
            eng.prove("only-the-documented-control-exceptions-escape", val.cls in ("RecoverableError", "CompilerStopIteration") and (val.cls != "RecoverableError" or len(errors(eng)) >= 1))
            if cmd == ".once" and val.cls == "CompilerStopIteration":
                eng.prove(".once-stops-only-from-the-second-inclusion-on", eng.I["comp"].attrs["times_file_compiled"]["/src/prog.mac"] > 1)
            return
        out = zbytes(val)
        eng.prove("emits-no-bytes(announced size 0)", z3.Or(err_cond(eng), slen(out) == 0) if is_sym(slen(out)) else slen(out) == 0)
        if cmd in EXPECTED_REPORT:
            sev, ident = EXPECTED_REPORT[cmd]
            eng.prove("reports-%s-%s" % (sev, ident), [(e[0], e[1]) for e in eng.path.events if e[0] in ("error", "warning")] == [(sev, ident)])
        if cmd == ".end":
            eng.prove(".end-always-stops-the-block", False)
        if cmd == ".once":
            eng.prove(".once-continues-on-the-first-inclusion", eng.I["comp"].attrs["times_file_compiled"]["/src/prog.mac"] <= 1)
    r = verify(eng, name, run, post, func="metacommands.%s" % cmd.lstrip(".").rstrip("_"))
    for o in r["obligations"]:
        o["cfg"] = dict(kind="zero", cmd=cmd)
    return r


EMIT_CMDS = {"make_bin": ("bin", ".bin"), "make_bk0010_rom": ("bin", ".bin"), "make_raw": ("raw", ""), "make_wav": ("bk_wav", ".wav"), "make_turbo_wav": ("bk_turbo_wav", ".wav")}
SOURCE_NAMES = {"/src/prog.mac": "/src/prog", "/src/DIR.mac/GAME.MAC": "/src/DIR.mac/GAME", "/src/prog.asm": "/src/prog.asm", "/src/noext": "/src/noext"}


def unit_add_emitted(eng, cmd, has_path, has_name, source):
    """make_bin / make_bk0010_rom / make_raw / make_wav / make_turbo_wav: exactly one output record is added - the directive's own span, its
    format, the path (the operand resolved against the source file, else the source name with a trailing .mac - any letter case - replaced by
    the format's extension) and, for tape formats, the 16-byte tape name (the encoded operand, else the last component of the path without
    .wav; padded with blanks; too long or unencodable is an error)"""
    fmt, ext = EMIT_CMDS[cmd]
    wav = fmt.startswith("bk_")
    name = "%s[path=%s,name=%s,source=%s]" % (cmd, has_path, has_name, source)

    def run(eng):
        eng.I = {}
        install_io(eng)
        ops = []
        if has_path:
            t, sp = str_token(eng, "path")
            ops.append(t)
            eng.I["path"] = sp
        if has_name:
            if not has_path:
                raise ValueError("a tape name needs a path operand before it")
            t, sn = str_token(eng, "tape")
            ops.append(t)
            eng.I["tape"] = sn
        comp = compiler_obj(eng, output_charset="CHARSET")
        eng.I["before"] = list(comp.attrs["emitted_files"])
        return run_meta(eng, cmd, ops, comp=comp, extra_state={"filename": source})

    def post(eng, o):
        I = eng.I
        kind, val = o
        if kind == "raise":
            eng.prove("only-RecoverableError-escapes-and-only-after-an-error-report", val.cls == "RecoverableError" and len(errors(eng)) >= 1)
            return
        eng.prove("emits-no-bytes", slen(zbytes(val)) == 0)
        recs = I["comp"].attrs["emitted_files"]
        eng.prove("exactly-one-output-record-is-added", len(recs) == len(I["before"]) + 1)
        if len(recs) != len(I["before"]) + 1:
            return
        r = recs[-1]
        insn = I["insn"]
        eng.prove("the-record-carries-the-directive's-own-span-and-format", r[0] is insn.attrs["ctx_start"] and r[1] is insn.attrs["ctx_end"] and r[2] == fmt and len(r) == (5 if wav else 4))
        if has_path:
            want = I["respath"](I["path"], z3.StringVal(source))
        else:
            want = z3.StringVal(SOURCE_NAMES[source] + ext)
        eng.prove("path-is-the-operand-resolved-against-the-source-file-else-the-source-name-with-.mac-replaced-by-the-format's-extension", zs(r[3]) == want)
        if wav:
            from pyvc.engine import ENCODERS
            tape = zbytes(r[4])
            errs = [e[1] for e in errors(eng)]
            eng.prove("tape-name-is-exactly-16-bytes", slen(tape) == 16)
            if has_name and not errs:
                enc, bad = ENCODERS["CHARSET"]
                e_ = enc(I["tape"])
                n_ = z3.Length(e_)
                eng.prove("tape-name-is-the-operand-in-the-output-charset-padded-with-blanks(only when it fits and is encodable)",
                          z3.And(z3.Not(bad(I["tape"])), n_ <= 16, z3.Extract(tape, 0, n_) == e_,
                                 z3.ForAll([z3.Int("k!t")], z3.Implies(z3.And(z3.Int("k!t") >= n_, z3.Int("k!t") < 16), tape[z3.Int("k!t")] == 32))))
            if not has_name and not has_path and not errs:
                enc, bad = ENCODERS["CHARSET"]
                stem = z3.StringVal(SOURCE_NAMES[source].split("/")[-1])
                e_ = enc(stem)
                n_ = z3.Length(e_)
                eng.prove("without-a-name-operand-the-tape-name-is-the-output-file's-name-without-.wav", z3.And(n_ <= 16, z3.Extract(tape, 0, n_) == e_))
            if errs:
                eng.prove("a-tape-name-is-refused-only-as-too-long-or-unencodable", all(e in ("too-long-string", "invalid-character") for e in errs))
    r_ = verify(eng, name, run, post, func="metacommands.%s / add_emitted_%s" % (cmd, "bk_wav" if wav else "file"))
    for o_ in r_["obligations"]:
        o_["cfg"] = dict(kind="add_emitted", cmd=cmd, has_path=has_path, has_name=has_name, source=source)
    return r_


def unit_include(eng):
    """.include: the included file's code is what the directive finally produces - its announced size must agree (finding D10: registered with size=0)"""
    def run(eng):
        eng.I = {}
        install_io(eng)
        comp = compiler_obj(eng, output_charset="CHARSET")
        rec = {}

        def c_parse(eng_, path, code):
            rec["parsed"] = (path, code)
            return Obj("File", name="included-ast")

        def c_compile_include(eng_, file_ast, addr):
            rec["include"] = (file_ast, addr)
            k = pick(eng_, ["ready", "unsized"], "included_code")
            c, B = make_chunk(eng_, k, "inc")
            rec["B"] = B
            return c
        eng.contracts["parse"] = c_parse
        comp.attrs["compile_include"] = Builtin("compile_include(contract)", c_compile_include)
        eng.I["rec"] = rec
        tok, s = str_token(eng, "path")
        eng.I["path_operand"] = s
        return run_meta(eng, ".include", [tok], comp=comp)

    def post(eng, o):
        kind, val = o
        rec = eng.I["rec"]
        eng.prove("no-exception-escapes", kind == "return")
        if kind != "return":
            return
        out = zbytes(view(eng, val))
        want_path = eng.I["respath"](eng.I["path_operand"], z3.StringVal("/src/prog.mac"))
        if "opened_path" in eng.I:
            eng.prove("the-file-opened-is-the-operand-resolved-against-the-including-file", zs(eng.I["opened_path"]) == want_path)
        if "include" in rec:
            # paths written inside the included file (its own includes, make_* outputs) resolve against ITS directory: the name it is parsed under
            eng.prove("included-file-is-parsed-under-its-resolved-path(not the spelling in the directive)", zs(rec["parsed"][0]) == want_path)
            eng.prove("included-file-is-compiled-at-the-current-address", rec["include"][1] is eng.I["state"]["emit_address"])
            eng.prove("produces-the-included-code", out == rec["B"])
            region = True if "D10" in common.ACTIVE_FINDINGS else None
            eng.prove("announced-size-of-.include==length-of-the-included-code", announced_len(val) == slen(rec["B"]) if not isinstance(val, Lazy) or val.size is None else val.size == slen(rec["B"]), region=region)
        else:
            eng.prove("unreadable-file-is-an-io-error-and-emits-nothing", [e[1] for e in errors(eng)] == ["io-error"] and slen(out) == 0)
    r = verify(eng, ".include", run, post, func="metacommands.include")
    for o in r["obligations"]:
        o["cfg"] = dict(kind="include")
    return r


def unit_insert_file(eng):
    def run(eng):
        eng.I = {}
        install_io(eng)
        tok, s = str_token(eng, "path")
        return run_meta(eng, "insert_file", [tok])

    def post(eng, o):
        kind, val = o
        eng.prove("no-exception-escapes", kind == "return")
        if kind != "return":
            return
        out = view(eng, val)
        if "file_content" in eng.I and not errors(eng):
            eng.prove("produces-exactly-the-file's-bytes(unsized: the accounting uses their real length)", zbytes(out) is eng.I["file_content"] and (not isinstance(val, Lazy) or val.size is None))
        else:
            eng.prove("unreadable-file-is-an-io-error-and-emits-nothing", [e[1] for e in errors(eng)] == ["io-error"] and slen(zbytes(out)) == 0)
    return verify(eng, "insert_file", run, post, func="metacommands.insert_file")


def unit_repeat(eng):
    """.repeat n { body }: the result is the concatenation of exactly n compile_block results (ghost G, ghost count c), copy i compiled in
    repeat context at the address where copy i-1 ended (loop contract); nothing else produces bytes"""
    def run(eng):
        eng.I = {}
        comp = compiler_obj(eng, output_charset="CHARSET")
        calls = []
        eng.I.update(G=z3.Empty(BYTES), c=0)

        def c_compile_block(eng_, state, block, start):
            calls.append((state, block, start))
            k = pick(eng_, ["ready", "sized", "unsized", "sized-wrong+error", "concat"], "copy")
            eng_.fresh_n += 1
            chunk, B = make_chunk(eng_, k, "copy!%d" % eng_.fresh_n)       # every copy has its own bytes
            G = eng_.I["G"]
            eng_.I["G"] = B if (z3.is_app(G) and G.decl().kind() == z3.Z3_OP_SEQ_EMPTY) else z3.Concat(G, B)
            eng_.I["c"] = eng_.I["c"] + 1
            return chunk
        comp.attrs["compile_block"] = Builtin("compile_block(contract)", c_compile_block)
        dyn, v, isint = dyn_input(eng, "count")
        body = mk_token(eng, "CodeBlock", insns=[])
        eng.I.update(calls=calls, body=body, count=v, isint=isint)

        def inv(eng_, env):
            addr, res = env.lookup("addr"), env.lookup("result")
            st = env.lookup("state")
            G, c = eng_.I["G"], eng_.I["c"]
            return [("error-or-address==start+bytes-of-the-copies-so-far", z3.Or(err_cond(eng_), view(eng_, addr) == view(eng_, st["emit_address"]) + slen(zbytes(view(eng_, res))))),
                    ("result-is-the-concatenation-of-the-copies-compiled-so-far", zbytes(view(eng_, res)) == G),
                    ("copies-compiled-so-far==iterations-done", c == env.lookup("__i0"))]

        def havoc(eng_, env):
            a = eng_.fresh_int("addr_final")
            env.assign("addr", Lazy(a, "int"))
            d = abstract_seq("result_final!%d" % eng_.fresh_n)
            eng_.fresh_n += 1
            env.assign("result", Lazy(d, "bytes") if pick(eng_, ["lazy", "ready"], "res_rep") == "lazy" else d)
            sym_error_marker(eng_)
            eng_.I["loop_addr"] = env.lookup("addr")
            eng_.I["G"] = d
            eng_.I["c"] = eng_.fresh_int("copies_so_far")
            del calls[:]
        spec = LoopSpec(inv, havoc)
        oinv = spec.inv

        def inv2(eng_, env):
            res = oinv(eng_, env)
            if calls and "loop_addr" in eng_.I:
                st, blk, start = calls[-1]
                res.append(("each-copy-is-the-same-body-compiled-in-repeat-context-at-the-running-address",
                            blk is body and start is eng_.I["loop_addr"] and st["context"] == "repeat" and all(st[k] is eng_.I["state"][k] for k in eng_.I["state"] if k != "context")))
            return res
        spec.inv = inv2
        eng.loop_specs[("repeat", 0)] = spec
        return run_meta(eng, ".repeat", [value_token(eng, dyn, "count"), body], comp=comp)

    def post(eng, o):
        kind, val = o
        if kind == "raise":
            eng.prove("only-RecoverableError-after-an-error", val.cls == "RecoverableError" and len(errors(eng)) >= 1)
            return
        n = eng.I["count"]
        eng.prove("the-result-is-exactly-the-concatenation-of-the-compiled-copies(nothing copied, dropped or added)", zbytes(view(eng, val)) == eng.I["G"])
        eng.prove("exactly-n-copies-were-compiled-each-at-its-own-address", eng.I["c"] == z3.If(n > 0, n, 0))
    r = verify(eng, ".repeat", run, post, func="metacommands.repeat")
    for o in r["obligations"]:
        o["cfg"] = dict(kind="repeat")
    return r
