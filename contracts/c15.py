"""C15 - Radix-50 packing.

closed: radix50.TABLE == the 40-character RADIX-50 alphabet (spec/rad50.py)
vc:     radix50.pack_to_int for strings of length 0..3 (symbolic characters); length 4 violates its assert (call-site precondition)
        metacommands.rad50 for chunk shapes over {string, <n>} with strings of ARBITRARY length: three loop contracts
        (character loop, padding loop with variant, packing loop) with ghost functions words
lemma:  unpack(pack(a,b,c)) == (a,b,c) for codes in 0..39; the packed word fits 16 bits
"""
import z3
from contracts.common import *  # noqa
from contracts import common
from contracts.c06 import run_directive, refused_by_abort
from pyvc import driver
from pyvc.engine import LoopSpec, SymList, strupper, abstract_seq, str_find

ID = "C15"
EXPLANATION = "strings of arbitrary length (z3 String), <n> codes arbitrary integers; chunk shapes up to 3 chunks enumerated"
TRUSTED = ["pyvc engine semantics incl. the cut-point loop rule (A1)", "z3 sequence/string theory (A7)", "struct.pack('<H') model",
           "str.upper() is an uninterpreted function on strings (case folding itself is the stdlib's)"]
ASSUMPTIONS = ["A2: '.rad50' receives the parser's chunk list; the regex that delimits a '^R' literal and truncates it to 3 characters is outside",
               "ghost function words(A,k) is a recursive definition unfolded at the loop index (definitional axioms)"]

ARR = z3.ArraySort(z3.IntSort(), z3.IntSort())
words = z3.Function("words", ARR, z3.IntSort(), BYTES)     # ghost: the first k packed words of a code list


def table(eng):
    return eng.resolve_global(eng.load_module("radix50"), "TABLE")


def code_at(tab, s, j):
    """spec: alphabet index of the upper-cased j-th character; 0 (with an error) for a character outside the alphabet"""
    ch = z3.SubString(s, j, 1)
    idx = str_find(None, z3.StringVal(tab), strupper(ch))
    return z3.If(in_alphabet(tab, ch), idx, 0)


def is_ascii1(ch):
    from pyvc.engine import strisascii
    return strisascii(ch)


def in_alphabet(tab, ch):
    """spec: an ASCII character whose upper-case form is ONE character of the alphabet (case folding is the ASCII one: the alphabet has no
    other letters; which characters that admits exactly is the closed obligation rad50-alphabet, over every code point)"""
    u = strupper(ch)
    return z3.And(is_ascii1(ch), z3.Length(u) == 1, str_find(None, z3.StringVal(tab), u) >= 0)


def bad_at(tab, s, j):
    return z3.Not(in_alphabet(tab, z3.SubString(s, j, 1)))


def word_of(A, k):
    return A[3 * k] * 1600 + A[3 * k + 1] * 40 + A[3 * k + 2]


def unfold_words(eng, A, k):
    eng.assume(words(A, 0) == z3.Empty(BYTES))
    eng.assume(z3.Implies(k >= 0, words(A, k + 1) == z3.Concat(words(A, k), le16(word_of(A, k)))))


def as_arr(v):
    if isinstance(v, SymList):
        return v.arr, v.n
    if isinstance(v, list):
        l = SymList.of(v)
        return l.arr, l.n
    raise Unsupported("as_arr %r" % (v,))


def in_range(A, n):
    j = z3.Int("j!r")
    return z3.ForAll([j], z3.Implies(z3.And(j >= 0, j < n), z3.And(A[j] >= 0, A[j] < 40)))


def sym_error_marker(eng):
    """ghost: 'at least one error was reported in the iterations abstracted by a loop cut'"""
    e = eng.fresh_bool("loop_err")
    eng.path.events.append(("sym-error", "invalid-character", e))
    return e


def ghost_err(eng):
    """current ghost error state: marker value or any concrete error logged after the last marker"""
    ev = eng.path.events
    last = max([i for i, e in enumerate(ev) if e[0] == "sym-error"], default=None)
    if last is None:
        return z3.BoolVal(any(e[0] == "error" for e in ev)), None
    later = any(e[0] == "error" for e in ev[last + 1:])
    return (z3.BoolVal(True) if later else ev[last][2]), last


def install_loop_specs(eng, tab):
    # ---- loop 1: for char in string   (metacommands.rad50, ordinal 1)
    def inv1(eng, env):
        s = env.lookup("string")
        i = env.vars.get("__i1", 0)
        A, n = as_arr(env.lookup("characters"))
        gh = env.vars.get("__ghost1") or {}
        P, p = gh.get("pre", (A, n))
        j = z3.Int("j!a")
        e_before = gh.get("err_before", None)
        g, _ = ghost_err(eng)
        anybad = z3.Exists([j], z3.And(j >= 0, j < i, bad_at(tab, s, j)))
        errc = z3.BoolVal(True) if e_before is None else (g == z3.Or(e_before, anybad))
        return [("length==before+i", n == p + i),
                ("earlier-codes-untouched", z3.ForAll([j], z3.Implies(z3.And(j >= 0, j < p), A[j] == P[j]))),
                ("codes-of-the-first-i-characters-appended", z3.ForAll([j], z3.Implies(z3.And(j >= 0, j < i), A[p + j] == code_at(tab, s, j)))),
                ("codes-in-0..39", in_range(A, n)),
                ("error-reported-iff-some-processed-character-is-outside-the-alphabet", errc)]

    def havoc1(eng, env):
        g, _ = ghost_err(eng)
        env.vars["__ghost1"] = dict(pre=as_arr(env.lookup("characters")), err_before=g)
        env.assign("characters", SymList(z3.Const("A1!%d" % eng.fresh_n, ARR), z3.Int("n1!%d" % eng.fresh_n)))
        eng.fresh_n += 1
        sym_error_marker(eng)
        for name in ("val", "char"):
            env.vars.pop(name, None)
    eng.loop_specs[("rad50", 1)] = LoopSpec(inv1, havoc1)

    # ---- loop 2: while len(characters) % 3 != 0: characters.append(0)
    def inv2(eng, env):
        A, n = as_arr(env.lookup("characters"))
        X, x = (env.vars.get("__ghost2") or {}).get("pre", (A, n))
        j = z3.Int("j!p")
        return [("padding-extends-the-list", z3.And(n >= x, z3.ForAll([j], z3.Implies(z3.And(j >= 0, j < x), A[j] == X[j])))),
                ("padding-is-spaces(code 0)", z3.ForAll([j], z3.Implies(z3.And(j >= x, j < n), A[j] == 0))),
                ("never-over-padded", (n - x) + ((-n) % 3) == (-x) % 3),
                ("codes-in-0..39", in_range(A, n))]

    def havoc2(eng, env):
        env.vars["__ghost2"] = dict(pre=as_arr(env.lookup("characters")))
        env.assign("characters", SymList(z3.Const("A2!%d" % eng.fresh_n, ARR), z3.Int("n2!%d" % eng.fresh_n)))
        eng.fresh_n += 1
    eng.loop_specs[("rad50", 2)] = LoopSpec(inv2, havoc2, variant=lambda eng, env: (-as_arr(env.lookup("characters"))[1]) % 3)

    # ---- loop 3: for i in range(0, len(characters), 3): pack
    def inv3(eng, env):
        A, n = as_arr(env.lookup("characters"))
        k = env.vars.get("__i3", 0)
        kz = z3.IntVal(k) if isinstance(k, int) else k
        unfold_words(eng, A, kz)
        res = env.lookup("result")
        return [("result==the-first-k-packed-words", zbytes(res) == words(A, kz))]

    def havoc3(eng, env):
        env.assign("result", abstract_seq("result3!%d" % eng.fresh_n))
        eng.fresh_n += 1
        for name in ("a", "b", "c", "i"):
            env.vars.pop(name, None)
    eng.loop_specs[("rad50", 3)] = LoopSpec(inv3, havoc3)


# ------------------------------------------------------------------ units
def unit_table(eng):
    from spec import rad50 as spec
    code = "from pdpy11 import radix50\nresult = radix50.TABLE\n"
    real = driver.native([{"kind": "py", "code": code}], driver.tree_root())[0]["result"]
    obs = []

    def ob(label, ok, detail=""):
        obs.append(dict(label=label, kind="closed", status="proved" if ok else "failed", secs=0.0, path=[], witness=None, detail=str(detail), events=[], smt2=None,
                        backend="cpython-eval", unit="rad50-table", func="radix50.TABLE (closed)", cfg=dict(kind="closed")))
    ob("TABLE==RADIX-50-alphabet-in-order", real == spec.ALPHABET, real)
    try:
        same = table(eng) == real
        ob("engine-reads-the-same-TABLE-from-the-AST", same)
    except Exception as ex:  # pylint: disable=broad-except
        # the table is built by a construct outside the subset: the units that read it through the engine are undecided, the closed facts decide
        ob("engine-reads-the-same-TABLE-from-the-AST", False, "the engine cannot evaluate radix50.TABLE: %s" % ex)
        obs[-1]["status"] = "unknown"
    bad = [(a, b, c) for a in range(40) for b in range(40) for c in range(40)
           if spec.unpack([(a * 40 + b) * 40 + c]) != spec.ALPHABET[a] + spec.ALPHABET[b] + spec.ALPHABET[c]][:1]
    ob("spec-unpack-inverts-spec-pack-on-all-64000-triples", not bad, bad)
    obs[-1]["kind"] = "lemma"
    return dict(unit="rad50-table", func="radix50.TABLE (closed)", paths=1, obligations=obs, wall=0.0)


def unit_pack_to_int(eng, n):
    def run(eng):
        eng.I = {}
        tab = table(eng)
        cs = []
        for i in range(n):
            c = z3.String("c%d" % i)
            eng.inputs["c%d" % i] = c
            eng.assume(z3.Length(c) == 1)
            from pyvc.engine import KNOWN_STRLEN
            KNOWN_STRLEN["c%d" % i] = 1
            cs.append(c)
        s = z3.StringVal("") if not cs else cs[0] if len(cs) == 1 else z3.Concat(*cs)
        eng.I.update(cs=cs, tab=tab)
        return eng.call(find_func(eng, "radix50", ["pack_to_int"]), [s], {})

    def post(eng, outcome):
        cs, tab = eng.I["cs"], eng.I["tab"]
        kind, val = outcome
        if n > 3:
            eng.prove("longer-than-3-characters-violates-the-assert(call-site precondition)", kind == "raise" and val.cls == "AssertionError")
            return
        idx = [str_find(eng, z3.StringVal(tab), c) for c in cs] + [z3.IntVal(0)] * (3 - n)
        allin = z3.And([i >= 0 for i in idx])
        if kind == "raise":
            eng.prove("raises-ValueError-only-for-a-character-outside-the-alphabet", z3.And(z3.Not(allin), val.cls == "ValueError"))
        else:
            eng.prove("returns-only-when-every-character-is-in-the-alphabet", allin)
            eng.prove("value-is-(c1*40+c2)*40+c3-with-space-padding", val == (idx[0] * 40 + idx[1]) * 40 + idx[2])
            eng.prove("value-fits-a-word", z3.And(val >= 0, val < 64000))
    return verify(eng, "radix50.pack_to_int[len=%d]" % n, run, post, func="radix50.pack_to_int")


def unit_rad50(eng, shape):
    """shape over {'s','n'}: s = string chunk of arbitrary length, n = <expr> raw code"""
    name = ".rad50[chunks=%s]" % shape

    def run(eng):
        tab = table(eng)
        install_loop_specs(eng, tab)
        eng.I = {}
        chunks, spec = [], []
        for i, c in enumerate(shape):
            if c == "s":
                s = z3.String("s%d" % i)
                eng.inputs["s%d" % i] = s
                chunks.append(value_token(eng, s, "chunk%d" % i))
                spec.append(("s", s))
            else:
                dyn, v, isint = dyn_input(eng, "v%d" % i)
                chunks.append(mk_token(eng, "AngleBracketedChar", expr=value_token(eng, dyn, "expr%d" % i), reported_error=False))
                spec.append(("n", v, isint))
        operand = chunks[0] if len(chunks) == 1 else mk_token(eng, "StringConcatenation", chunks=chunks)
        eng.I.update(spec=spec, tab=tab)
        return run_directive(eng, ".rad50", [operand], int_input(eng, "addr"))

    def post(eng, outcome):
        spec, tab = eng.I["spec"], eng.I["tab"]
        kind, val = outcome
        j = z3.Int("j!s")
        good_parts = []
        for x in spec:
            if x[0] == "s":
                good_parts.append(z3.Not(z3.Exists([j], z3.And(j >= 0, j < z3.Length(x[1]), bad_at(tab, x[1], j)))))
            else:
                good_parts.append(z3.And(x[2], x[1] >= 0, x[1] < 40))
        good = z3.And(good_parts)
        # concrete errors and symbolic (loop-abstracted) error markers
        conc = any(e[0] == "error" for e in eng.path.events)
        syms = [e[2] for e in eng.path.events if e[0] == "sym-error"]
        err = z3.Or([z3.BoolVal(conc)] + syms)
        if kind == "raise":
            eng.prove("only-RecoverableError-escapes-and-only-after-an-error-report", val.cls == "RecoverableError" and conc)
            eng.prove("abort-only-for-a-bad-<n>", z3.Not(good))
            return
        eng.prove("error-reported-iff-a-character-is-outside-the-alphabet-or-a-<n>-is-not-in-0..39", err == z3.Not(good))
        eng.prove("error-identifiers", all(e[1] in ("invalid-character", "value-out-of-bounds", "type-mismatch") for e in eng.path.events if e[0] in ("error", "sym-error")))
        # the code list the spec prescribes, stated pointwise over the final 'characters' list (A, n):
        # per chunk the codes of its characters / the raw code (0 where refused), then 0-padding to a multiple of 3
        if eng.I.get("final_chars") is None:
            # the directive body was aborted by a refused operand (RecoverableError caught by Metacommand.compile_insn.fn): nothing is emitted
            eng.prove("aborted-body-emits-nothing-and-only-after-an-error-report", conc and isinstance(final(val), bytes) and final(val) == b"")
            return
        A, n = eng.I.get("final_chars")
        jz = z3.Int("j!z")
        off = z3.IntVal(0)
        facts = []
        for x in spec:
            if x[0] == "s":
                ln = z3.Length(x[1])
                facts.append(z3.ForAll([jz], z3.Implies(z3.And(jz >= 0, jz < ln), A[off + jz] == code_at(tab, x[1], jz))))
                off = off + ln
            else:
                facts.append(A[off] == z3.If(z3.And(x[2], x[1] >= 0, x[1] < 40), x[1], 0))
                off = off + 1
        L = off
        pad = (-L) % 3
        out = zbytes(val)
        eng.prove("code-list-is-per-chunk-codes-in-order", z3.And(facts))
        eng.prove("code-list-is-padded-with-spaces-to-a-multiple-of-3", z3.And(n == L + pad, z3.ForAll([jz], z3.Implies(z3.And(jz >= L, jz < n), A[jz] == 0))))
        eng.prove("output-is-one-word-(c1*40+c2)*40+c3-per-three-codes", out == words(A, n / 3))
        eng.prove("every-code-is-in-0..39", in_range(A, n))
    # capture the final 'characters' list: wrap struct.pack? simpler: read it from the function's env through a return hook
    def run_capture(eng):
        import pyvc.engine as E
        orig = E.Engine.cut_loop

        def hook(self, spec_, st, env, mod, it=None):
            r = orig(self, spec_, st, env, mod, it)
            key = self.loop_key(st)
            if key == ("rad50", 3):
                self.I["final_chars"] = as_arr(env.lookup("characters"))
            return r
        E.Engine.cut_loop = hook
        try:
            return run(eng)
        finally:
            E.Engine.cut_loop = orig
    r = verify(eng, name, run_capture, post, func="metacommands.rad50")
    for o in r["obligations"]:
        o["cfg"] = dict(kind="rad50", shape=shape)
    return r


def unit_lemmas(eng):
    def run(eng):
        eng.I = {}
        return None

    def post(eng, outcome):
        a, b, c = z3.Ints("a b c")
        rng = z3.And(a >= 0, a < 40, b >= 0, b < 40, c >= 0, c < 40)
        w = a * 1600 + b * 40 + c
        eng.prove("a*1600+b*40+c==(a*40+b)*40+c", w == (a * 40 + b) * 40 + c)
        eng.prove("standard-unpacking-recovers-the-three-codes", z3.Implies(rng, z3.And(w / 1600 == a, (w / 40) % 40 == b, w % 40 == c)))
        eng.prove("packed-word-fits-16-bits", z3.Implies(rng, z3.And(w >= 0, w < 64000)))
    r = verify(eng, "rad50-arithmetic", run, post, func="lemma: radix-50 arithmetic")
    for o in r["obligations"]:
        o["kind"] = "lemma"
    return r


def unit_alphabet_closed(eng, which):
    """exhaustive over every Unicode code point (closed): a single character is accepted by '.rad50' / '^R' iff it is one of the 40 alphabet
    characters or an ASCII lower-case letter, with the alphabet code of its upper-case form; anything else is an error - never a crash and
    never a silent mapping through Unicode case folding (the uninterpreted upper() of the vc part is discharged here)"""
    from spec import rad50 as spec
    code = r'''
import sys
from pdpy11 import reports, parser, radix50
from pdpy11 import metacommands as _m
from pdpy11.metacommand_impl import metacommands
from pdpy11.context import Context
which = %r
class Tok:
    ctx_start = None; ctx_end = None
    def __init__(self, s): self.s = s
    def resolve(self, state): return self.s
accepted, crashed = {}, []
body = metacommands[".rad50"].fn
for cp in range(0x110000):
    ch = chr(cp)
    errs = []
    try:
        with reports.handle_reports(lambda p, i, *l: errs.append(i)):
            if which == "directive":
                out = body({"insn": Tok("x")}, Tok(ch))
                val = int.from_bytes(out, "little") if not errs else None
            else:
                ctx = Context("f.mac", "^R" + ch + ";")
                tok = parser.radix50_literal(ctx)
                val = tok.resolve({}) if not errs and ctx.pos == 3 else None
    except (reports.UnrecoverableError, reports.RecoverableError):
        val = None
    except Exception as e:
        crashed.append([cp, type(e).__name__]); val = None
    if val is not None:
        accepted[cp] = val
result = [sorted(accepted.items()), crashed[:40]]
''' % which
    r = driver.native([{"kind": "py", "code": code}], driver.tree_root(), timeout=1800)[0]
    obs = []
    fn = "metacommands.rad50 (closed, every code point)" if which == "directive" else "parser.radix50_literal (closed, every code point)"

    def ob(label, ok, detail=""):
        obs.append(dict(label=label, kind="closed", status="proved" if ok else "failed", secs=0.0, path=[], witness=None, detail=str(detail)[:600], events=[], smt2=None,
                        backend="cpython-eval", unit="rad50-alphabet[%s]" % which, func=fn, cfg=dict(kind="alphabet", which=which), cases=0x110000))
    if r["status"] != "ok":
        ob("exhaustive-run-completed", False, r)
        return dict(unit="rad50-alphabet[%s]" % which, func=fn, paths=1, obligations=obs, wall=0.0)
    acc, crashed = r["result"]
    acc = {int(k): v for k, v in acc}
    want = {}
    for i, ch in enumerate(spec.ALPHABET):
        want[ord(ch)] = i * 1600
        if "A" <= ch <= "Z":
            want[ord(ch.lower())] = i * 1600
    if which == "literal":
        want.pop(ord(" "))               # '^R' followed by a blank is an empty literal, not a character
    extra = sorted(set(acc) - set(want))
    missing = sorted(set(want) - set(acc))
    wrong = sorted(cp for cp in acc if cp in want and acc[cp] != want[cp])
    ob("no-code-point-crashes(an error report, never an internal exception)", not crashed, [("U+%04X" % c, e) for c, e in crashed])
    ob("accepted-characters==the-40-alphabet-characters-and-ASCII-lower-case-letters(nothing else, e.g. through Unicode case folding)", not extra and not missing,
       dict(accepted_outside_the_alphabet=["U+%04X" % c for c in extra], refused_alphabet_characters=["U+%04X" % c for c in missing]))
    ob("an-accepted-character-has-the-alphabet-code-of-its-upper-case-form", not wrong, ["U+%04X" % c for c in wrong])
    return dict(unit="rad50-alphabet[%s]" % which, func=fn, paths=1, obligations=obs, wall=0.0)


def unit_pack_closed(eng):
    """radix50.pack_to_int on its whole domain (every string of 0..3 alphabet characters: 65641 cases) against spec.pack - closed, complete"""
    from spec import rad50 as spec
    code = "import itertools\nfrom pdpy11 import radix50\nT = %r\nout = []\nfor n in range(4):\n    for t in itertools.product(T, repeat=n):\n        out.append(radix50.pack_to_int(''.join(t)))\nresult = out\n" % spec.ALPHABET
    r = driver.native([{"kind": "py", "code": code}], driver.tree_root(), timeout=600)[0]
    import itertools
    bad = []
    n = 0
    if r["status"] == "ok":
        vals = r["result"]
        for k in range(4):
            for t in itertools.product(spec.ALPHABET, repeat=k):
                s_ = "".join(t)
                w = (spec.pack(s_) or [0])[0]
                if vals[n] != w:
                    bad.append((s_, vals[n], w))
                n += 1
    else:
        bad.append(str(r)[:300])
    ob = dict(label="pack_to_int==spec.pack-on-every-string-of-0..3-alphabet-characters(short strings padded with spaces on the right)", kind="closed", status="proved" if n == 65641 and not bad else "failed",
              secs=0.0, path=[], witness=None, detail=str(bad[:4]), events=[], smt2=None, backend="cpython-eval", unit="pack_to_int-closed", func="radix50.pack_to_int (closed, whole domain)",
              cfg=dict(kind="pack-closed"), cases=n)
    return dict(unit="pack_to_int-closed", func="radix50.pack_to_int (closed, whole domain)", paths=1, obligations=[ob], wall=0.0)



def units(tier):
    import itertools
    us = [("table", "unit_table", {}), ("lemmas", "unit_lemmas", {}), ("alphabet[directive]", "unit_alphabet_closed", dict(which="directive")),
          ("alphabet[literal]", "unit_alphabet_closed", dict(which="literal")), ("pack-closed", "unit_pack_closed", {})]
    for n in range(0, 5):
        us.append(("pack_to_int[%d]" % n, "unit_pack_to_int", dict(n=n)))
    shapes = []
    for k in ((1, 2) if tier == "quick" else (1, 2, 3)):
        shapes += ["".join(p) for p in itertools.product("sn", repeat=k)]
    for sh in shapes:
        us.append(("rad50[%s]" % sh, "unit_rad50", dict(shape=sh)))
    return us


def canary(eng):
    def run(eng):
        eng.I = {}
        return None

    def post(eng, outcome):
        a, b, c = z3.Ints("a b c")
        eng.prove("canary-wrong-weights", z3.Implies(z3.And(a >= 0, a < 40, b >= 0, b < 40, c >= 0, c < 40), (a + b * 40 + c * 1600) / 1600 == a))
    return verify(eng, "canary", run, post, func="canary")


def replay_alphabet(o, tree):
    """the code points named by the exhaustive obligation, through the real assembler: each must be an error (not bytes, not a crash)"""
    import re
    cps = sorted({int(m, 16) for m in re.findall(r"U\+([0-9A-F]{4,6})", o.get("detail", ""))} | {0x131, 0x17f, 0x130, 0x212a})[:24]
    which = (o.get("cfg") or {}).get("which", "directive")
    jobs = [{"kind": "asm", "sources": [(".rad50 /%s/\n" if which == "directive" else ".word ^R%s\n") % chr(c)]} for c in cps]
    res = driver.native(jobs, tree)
    from spec import rad50 as spec
    inside = lambda c: chr(c) in spec.ALPHABET or "a" <= chr(c) <= "z"  # noqa
    bad = [("U+%04X" % c, r["status"], r.get("code_hex") or r.get("exc")) for c, r in zip(cps, res)
           if (r["status"] != "fail" and not inside(c)) or (inside(c) and chr(c) != " " and r["status"] != "ok")]
    return dict(jobs=jobs[:4], expected="every character outside the alphabet is refused with an error; every alphabet character is accepted", observed=bad[:8], reproduced=bool(bad))


def replay(o, tree):
    from spec import rad50 as spec
    cfg = o.get("cfg") or {}
    if cfg.get("kind") == "alphabet":
        r = replay_alphabet(o, tree)
        if r["reproduced"]:
            return r          # (otherwise: the codes, not the set of accepted characters, are wrong - the probe set below shows it)
    # the arithmetic of a failure is independent of the witness strings: replay a fixed probe set through the real assembler
    probes = ["ABC", "abc", "A", "AB", "ABCD", "$.%", "  Z", "X9", "HELLO WORLD"]
    jobs = [{"kind": "asm", "sources": [".rad50 \"%s\"\n" % p]} for p in probes] + [{"kind": "asm", "sources": [".rad50 <1><2><47>\n"]}, {"kind": "asm", "sources": [".word ^RABC, ^RZ\n"]},
                                                                                   {"kind": "asm", "sources": [".word ^RA, ^RAB, ^Rz9\n"]}]
    # characters outside the alphabet must be errors - including ones whose upper-casing is several alphabet characters (U+FB06 -> 'ST')
    outside = ["\ufb06", "a\ufb06b", "\u00df", "#", "a_b"]
    jobs += [{"kind": "asm", "sources": [".rad50 \"%s\"\n" % p]} for p in outside]
    # <n> codes: 0..39 decimal are the alphabet; 40 (octal 50) and beyond are errors, alone and in every position of a group
    codes_bad = ["<50>", "<50><47>", "<1><50>", "<1><2><50>", "<50>/99/", "<77>", "<100>", "<-1>"]
    jobs += [{"kind": "asm", "sources": [".rad50 %s\n" % c]} for c in codes_bad]
    res = driver.native(jobs, tree)
    exp = [b"".join(w.to_bytes(2, "little") for w in spec.pack(p)).hex() for p in probes] + [((1 * 40 + 2) * 40 + 39).to_bytes(2, "little").hex(),
                                                                                            b"".join(w.to_bytes(2, "little") for w in spec.pack("ABC") + spec.pack("Z")).hex(),
                                                                                            b"".join(w.to_bytes(2, "little") for w in spec.pack("A") + spec.pack("AB") + spec.pack("Z9")).hex()]
    exp += ["fail"] * len(outside)
    exp += ["fail"] * len(codes_bad)
    obs = [r.get("code_hex") if r["status"] == "ok" else r["status"] for r in res]
    return dict(jobs=jobs, expected=exp, observed=obs, reproduced=obs != exp)
