"""Contracts for pdpy11/insns.py shared by C01, C04, C08, C09, C10: operand-shape builders (real token
classes, parser-produced skeletons - assumption A2), callee contracts, and the verification units of
the operand stubs and of Instruction.compile_insn / get_opcode."""
import z3
from contracts.common import *  # noqa
from contracts import common
from pyvc import driver
from pyvc.engine import Path, BUILTINS

REG_NAMES = {"r0": 0, "r1": 1, "r2": 2, "r3": 3, "r4": 4, "r5": 5, "r6": 6, "r7": 7, "sp": 6, "pc": 7}


# ---------------------------------------------------------------- real tokens through their real constructors
def ctx(eng, pos=0):
    ccls = eng.resolve_global(eng.load_module("context"), "Context")
    return Obj(ccls, dict(filename="f.mac", code=Opaque("code"), pos=pos), name="ctx")


def new(eng, module, cls, *args, **attrs):
    c = eng.resolve_global(eng.load_module(module), cls)
    o = eng.call(c, [ctx(eng), ctx(eng)] + list(args), {})
    o.name = cls
    o.attrs.update(attrs)
    return o


def leaf_value(eng, name, lazy=False):
    """expression leaf with an arbitrary integer value (ready or lazy): assumed contract of resolve()"""
    v = int_input(eng, name)
    t = value_token(eng, Lazy(v) if lazy else v, name)
    t.attrs["_val"] = v
    return t, v


def reg_symbol(eng, name="r"):
    """a Symbol spelling a register; its index is symbolic in 0..7 (the name -> index map is proved
    for all ten names in unit try_as_register[*])"""
    r = int_input(eng, name)
    eng.assume(z3.And(r >= 0, r <= 7))
    s = new(eng, "types", "Symbol", "rN", False, _reg=r)
    return s, r


def op(eng, opname, *children, **attrs):
    return new(eng, "operators", opname, *children, **attrs)


def paren(eng, expr, opening="("):
    return new(eng, "types", "ParenthesizedExpression", expr, opening, {"(": ")", "<": ">"}.get(opening, opening))


# ---------------------------------------------------------------- callee contracts
def contract_try_as_register(eng, operand, state):
    """assumed at call sites; proved in unit try_as_register[*].  Symbol spelling a register -> its
    index; '%e' -> Deferred[int] of get_as_int(e, 3 bits, unsigned) (ready or lazy); anything else -> None"""
    eng.assumptions.add("callee contract assumed: insns.try_as_register - discharged by C01 unit try_as_register")
    if isinstance(operand, Obj):
        if "_reg" in operand.attrs:
            return operand.attrs["_reg"]
        reg_cls = eng.resolve_global(eng.load_module("operators"), "register")
        if operand.cls is reg_cls:
            v = contract_get_as_int(eng, state, "register index", operand, operand.attrs["operand"], 3, True)
            mode = getattr(eng, "reg_lazy", "eager")
            if mode == "lazy" or (mode == "both" and not eng.branch(eng.fresh_bool("regeager"))):
                return Lazy(v, "int")
            return v
    return None


def _setpos(tok, start, end):
    """give a stand-in token a definite place in the source text (Token.__init__ copies its contexts, so spans are compared by position)"""
    tok.attrs["ctx_start"].attrs["pos"] = start
    tok.attrs["ctx_end"].attrs["pos"] = end


def install(eng, *names):
    table = {"get_as_int": contract_get_as_int, "wait": contract_wait, "try_as_register": contract_try_as_register}
    for n in names:
        eng.contracts[n] = table[n]


# ---------------------------------------------------------------- operand shapes (source spelling -> parser skeleton)
# each builder returns (token, info) with info: mode (int), reg (z3 or None), ext: None | ("abs", e) | ("rel", e) | ("zero",)
def shape_build(eng, shape, lazy=False):
    L = lambda n: leaf_value(eng, n, lazy)  # noqa
    if shape == "Rn":
        s, r = reg_symbol(eng)
        return s, dict(mode=0, reg=r, ext=None, warn=[])
    if shape == "%e":
        e, v = L("n")
        return op(eng, "register", e), dict(mode=0, reg=v, regexpr=True, ext=None, warn=[])
    if shape == "(Rn)":
        s, r = reg_symbol(eng)
        return paren(eng, s), dict(mode=1, reg=r, ext=None, warn=[])
    if shape == "@Rn":
        s, r = reg_symbol(eng)
        return op(eng, "deferred", s), dict(mode=1, reg=r, ext=None, warn=["legacy-deferred"])
    if shape == "(Rn)+":
        s, r = reg_symbol(eng)
        return op(eng, "postadd", paren(eng, s)), dict(mode=2, reg=r, ext=None, warn=[])
    if shape == "@(Rn)+":
        s, r = reg_symbol(eng)
        return op(eng, "deferred", op(eng, "postadd", paren(eng, s))), dict(mode=3, reg=r, ext=None, warn=[])
    if shape == "-(Rn)":
        s, r = reg_symbol(eng)
        return op(eng, "neg", paren(eng, s)), dict(mode=4, reg=r, ext=None, warn=[])
    if shape == "@-(Rn)":
        s, r = reg_symbol(eng)
        return op(eng, "deferred", op(eng, "neg", paren(eng, s))), dict(mode=5, reg=r, ext=None, warn=[])
    if shape == "e(Rn)":
        e, v = L("e")
        s, r = reg_symbol(eng)
        return op(eng, "call", e, s), dict(mode=6, reg=r, ext=("abs", v), warn=[])
    if shape == "@e(Rn)":
        e, v = L("e")
        s, r = reg_symbol(eng)
        return op(eng, "deferred", op(eng, "call", e, s)), dict(mode=7, reg=r, ext=("abs", v), warn=[])
    if shape == "@(Rn)":
        s, r = reg_symbol(eng)
        return op(eng, "deferred", paren(eng, s)), dict(mode=7, reg=r, ext=("zero",), warn=["implicit-index"])
    if shape == "#e":
        e, v = L("e")
        return op(eng, "immediate", e), dict(mode=2, reg=7, ext=("abs", v), warn=[])
    if shape == "@#e":
        e, v = L("e")
        return op(eng, "deferred", op(eng, "immediate", e)), dict(mode=3, reg=7, ext=("abs", v), warn=[])
    if shape == "@e":
        e, v = L("e")
        return op(eng, "deferred", e), dict(mode=7, reg=7, ext=("rel", v), warn=[])
    if shape == "e":
        e, v = L("e")
        return e, dict(mode=6, reg=7, ext=("rel", v), warn=[])
    # ---- hoisted forms: 'a+b(Rn)' parses as a+(b(Rn)), '-a(Rn)' as -(a(Rn)), '@a+b(Rn)' as @(a+(b(Rn)))
    if shape in ("a+b(Rn)", "a-b(Rn)", "@a+b(Rn)"):
        a, va = L("a")
        b, vb = L("b")
        s, r = reg_symbol(eng)
        opn = "sub" if shape == "a-b(Rn)" else "add"
        node = op(eng, opn, a, op(eng, "call", b, s))
        # value contract of the (real) infix node: computed from its *current* children (hoist rewrites them)
        node.attrs["resolve"] = Builtin("resolve", lambda eng_, state, _n=node, _o=opn: eng_.binop(
            ast.Sub() if _o == "sub" else ast.Add(),
            eng_.call(eng_.getattr(_n.attrs["lhs"], "resolve"), [state], {}), eng_.call(eng_.getattr(_n.attrs["rhs"], "resolve"), [state], {})))
        val = va - vb if opn == "sub" else va + vb
        _setpos(a, 11, 14); _setpos(b, 17, 20); _setpos(node.attrs["rhs"], 17, 24); _setpos(node, 11, 24)       # 'aaa + bbb(rN)' written at offsets 11..24
        if shape.startswith("@"):
            return op(eng, "deferred", node), dict(mode=7, reg=r, ext=("abs", val), warn=[], hoisted=True, index_span=(node, b))
        return node, dict(mode=6, reg=r, ext=("abs", val), warn=[], hoisted=True, index_span=(node, b))
    if shape == "-a(Rn)":
        a, va = L("a")
        s, r = reg_symbol(eng)
        node = op(eng, "neg", op(eng, "call", a, s))
        node.attrs["resolve"] = Builtin("resolve", lambda eng_, state, _n=node: eng_.binop(
            ast.Sub(), 0, eng_.call(eng_.getattr(_n.attrs["operand"], "resolve"), [state], {})))
        _setpos(a, 12, 15); _setpos(node.attrs["operand"], 12, 19); _setpos(node, 11, 19)                       # '-aaa(rN)' written at offsets 11..19
        return node, dict(mode=6, reg=r, ext=("abs", -va), warn=[], hoisted=True, index_span=(node, a))
    raise ValueError(shape)


CPU_SHAPES = ["Rn", "%e", "(Rn)", "@Rn", "(Rn)+", "@(Rn)+", "-(Rn)", "@-(Rn)", "e(Rn)", "@e(Rn)", "@(Rn)", "#e", "@#e", "@e", "e",
              "a+b(Rn)", "a-b(Rn)", "@a+b(Rn)", "-a(Rn)"]


def stub_obj(eng, clsname, char, bits, unsigned=None):
    cls = eng.resolve_global(eng.load_module("insns"), clsname)
    attrs = dict(pattern_char=char, bit_indexes=list(bits))
    if unsigned is not None:
        attrs["unsigned"] = unsigned
    return Obj(cls, attrs, name=clsname)


def state_for(eng, rel, mnemonic="insn"):
    return {"insn": insn_token(eng, mnemonic), "rel_address": rel, "emit_address": Opaque("emit")}


# ---------------------------------------------------------------- unit: RegisterModeOperandStub.encode / FP11RMOperandStub.encode per shape
def unit_rm_encode(eng, shape, lazy, fp=False, prop="C01"):
    name = "%s.encode[%s,%s]" % ("FP11RMOperandStub" if fp else "RegisterModeOperandStub", shape, "lazy" if lazy else "ready")
    func = "insns.%s.encode" % ("FP11RMOperandStub" if fp else "RegisterModeOperandStub")

    def run(eng):
        install(eng, "wait", "get_as_int", "try_as_register")
        eng.I = {}
        asked = []

        def recording_get_as_int(eng_, state, what, token, arg_token, bitness, unsigned, default=None):
            asked.append((what, token, arg_token))
            return contract_get_as_int(eng_, state, what, token, arg_token, bitness, unsigned, default)
        eng.contracts["get_as_int"] = recording_get_as_int
        tok, info = shape_build(eng, shape, lazy)
        rel = int_input(eng, "rel")
        eng.I.update(info=info, rel=rel, asked=asked)
        stub = stub_obj(eng, "FP11RMOperandStub" if fp else "RegisterModeOperandStub", "s", [5, 4, 3, 2, 1, 0])
        return eng.call(Bound(stub, stub.cls.lookup("encode")), [tok, state_for(eng, Lazy(rel) if lazy else rel)], {})

    def post(eng, outcome):
        info, rel = eng.I["info"], eng.I["rel"]
        kind, val = outcome
        errs = errors(eng)
        ext = info["ext"]
        reg = info["reg"]
        if info.get("index_span"):
            # C17: the regrouped index expression - what a diagnostic about the index points at - covers exactly the text that was written,
            # from the start of the whole expression to the end of the last operand before '(reg)'
            first, last = info["index_span"]
            idx = [a_ for w_, t_, a_ in eng.I["asked"] if w_ == "an index"]
            eng.prove("the-regrouped-index-expression-spans-the-written-text(start of the expression .. end of the operand before '(reg)')",
                      len(idx) >= 1 and all(a_.attrs["ctx_start"].attrs["pos"] == first.attrs["ctx_start"].attrs["pos"]
                                            and a_.attrs["ctx_end"].attrs["pos"] == last.attrs["ctx_end"].attrs["pos"] for a_ in idx))
        # acceptance condition from the spec
        ok = z3.BoolVal(True)
        if info.get("regexpr"):
            ok = z3.And(reg >= 0, reg < 8)
        if ext and ext[0] == "abs":
            ok = z3.And(ok, ext[1] > -2 ** 16, ext[1] < 2 ** 16)
        if kind == "raise":
            eng.prove("only-RecoverableError-escapes-and-only-after-an-error-report", val.cls == "RecoverableError" and len(errs) >= 1)
            eng.prove("refused-only-out-of-range-index-or-register-number", z3.Not(ok))
            return
        eng.prove("no-error-report-on-accepted-operand", len(errs) == 0)
        eng.prove("accepted-only-in-range", ok)
        inline, e = val
        fp_reg_mode = fp and info["mode"] == 0
        if fp_reg_mode:
            # FP11 operand spelled as a CPU register: treated as accumulator with a warning (<6) - checked in unit fp-register
            return
        eng.prove("mode-register-field", final(inline) == info["mode"] * 8 + reg)
        want_w = info["warn"]
        eng.prove("warnings-exactly-as-documented", [w[1] for w in warnings(eng)] == want_w)
        if ext is None:
            eng.prove("no-extension-word", isinstance(e, bytes) and e == b"")
            return
        eb = zbytes(e)
        if ext[0] == "zero":
            eng.prove("extension-word-is-zero", eb == seq_of([0, 0]))
        elif ext[0] == "abs":
            eng.prove("extension-word-is-value-mod-2^16-little-endian", eb == le16(ext[1] % 65536))
        else:
            w = eb[0] + 256 * eb[1]
            eng.prove("extension-word-has-2-bytes", slen(eb) == 2)
            # PDP-11: EA = (address of the extension word + 2 + word) mod 2^16, rel is the address of the extension word
            eng.prove("pc-relative-effective-address-is-the-target", (rel + 2 + w) % 65536 == ext[1] % 65536)
        if isinstance(e, Lazy) or True:
            size = e.size if isinstance(e, Lazy) else None
            eng.prove("extension-word-announces-2-bytes", (size == 2) if isinstance(e, Lazy) else slen(eb) == 2)
    r = verify(eng, name, run, post, func=func)
    for o in r["obligations"]:
        o["cfg"] = dict(kind="rm", shape=shape, lazy=lazy, fp=fp)
    return r


# ---------------------------------------------------------------- unit: try_as_register / try_accumulator_from_symbol
def unit_try_as_register(eng):
    """closed over the ten register spellings x three letter cases, plus the structural cases"""
    obs_units = []
    names = []
    for n in REG_NAMES:
        names += [(n, REG_NAMES[n]), (n.upper(), REG_NAMES[n]), (n[0].upper() + n[1:], REG_NAMES[n])]
    others = ["r8", "r", "ac0", "x", "r10", "spx", "p", "R08"]

    def mk(name, label, expected):
        def run(eng):
            eng.I = {}
            s = new(eng, "types", "Symbol", name, label)
            f = find_func(eng, "insns", ["try_as_register"])
            return eng.call(f, [s, {}], {})

        def post(eng, outcome):
            kind, val = outcome
            eng.prove("returns-%s-for-%s%s" % (expected, name, ":" if label else ""), kind == "return" and val == expected and (val is None) == (expected is None))
        return run, post
    for name, idx in names:
        run, post = mk(name, False, idx)
        obs_units.append(verify(eng, "try_as_register[%s]" % name, run, post, func="insns.try_as_register"))
        run, post = mk(name, True, None)
        obs_units.append(verify(eng, "try_as_register[%s:]" % name, run, post, func="insns.try_as_register"))
    for name in others:
        run, post = mk(name, False, None)
        obs_units.append(verify(eng, "try_as_register[%s]" % name, run, post, func="insns.try_as_register"))

    # '%e': Deferred[int](get_as_int(e, 3 bits, unsigned)); other token classes: None
    def run_pct(eng):
        install(eng, "wait", "get_as_int")
        eng.I = {}
        e, v = leaf_value(eng, "n")
        eng.I["v"] = v
        f = find_func(eng, "insns", ["try_as_register"])
        return eng.call(f, [op(eng, "register", e), {}], {})

    def post_pct(eng, outcome):
        kind, val = outcome
        v = eng.I["v"]
        if kind == "raise":
            eng.prove("%e-refused-only-outside-0..7-with-error", z3.And(z3.Or(v < 0, v > 7), val.cls == "RecoverableError" and len(errors(eng)) == 1))
        else:
            eng.prove("%e-is-the-number-in-0..7", z3.And(final(val) == v, v >= 0, v <= 7, len(errors(eng)) == 0))
    obs_units.append(verify(eng, "try_as_register[%e]", run_pct, post_pct, func="insns.try_as_register"))

    def run_other(eng):
        eng.I = {}
        s, _ = reg_symbol(eng)
        f = find_func(eng, "insns", ["try_as_register"])
        return eng.call(f, [paren(eng, new(eng, "types", "Symbol", "r1", False)), {}], {})
    obs_units.append(verify(eng, "try_as_register[(r1)]", run_other, lambda eng, o: eng.prove("non-symbol-is-not-a-register", o == ("return", None)), func="insns.try_as_register"))
    return obs_units


def unit_try_accumulator(eng):
    out = []
    cases = [("ac%d" % i, i) for i in range(6)] + [("AC%d" % i, i) for i in range(6)] + [("Ac3", 3), ("aC5", 5)]
    cases += [(n, None) for n in ["ac6", "ac7", "ac", "ac00", "ac1x", "r0", "acc", "ab0", "ac/", "ac:", "bc0", "x"]]
    for name, exp in cases:
        def run(eng, name=name):
            eng.I = {}
            f = find_func(eng, "insns", ["try_accumulator_from_symbol"])
            return eng.call(f, [new(eng, "types", "Symbol", name, False)], {})
        out.append(verify(eng, "try_accumulator_from_symbol[%s]" % name, run,
                          lambda eng, o, exp=exp, name=name: eng.prove("returns-%s-for-%s" % (exp, name), o[0] == "return" and o[1] == exp and (o[1] is None) == (exp is None)),
                          func="insns.try_accumulator_from_symbol"))

    def run_nonsym(eng):
        eng.I = {}
        f = find_func(eng, "insns", ["try_accumulator_from_symbol"])
        return eng.call(f, [paren(eng, new(eng, "types", "Symbol", "ac0", False))], {})
    out.append(verify(eng, "try_accumulator_from_symbol[(ac0)]", run_nonsym, lambda eng, o: eng.prove("non-symbol-is-not-an-accumulator", o == ("return", None)),
                      func="insns.try_accumulator_from_symbol"))
    return out


# ---------------------------------------------------------------- unit: RegisterOperandStub.encode
def unit_reg_encode(eng, shape):
    name = "RegisterOperandStub.encode[%s]" % shape

    def run(eng):
        install(eng, "wait", "get_as_int", "try_as_register")
        eng.I = {}
        tok, info = shape_build(eng, shape)
        eng.I["info"] = info
        stub = stub_obj(eng, "RegisterOperandStub", "s", [2, 1, 0])
        return eng.call(Bound(stub, stub.cls.lookup("encode")), [tok, state_for(eng, 0)], {})

    def post(eng, outcome):
        info = eng.I["info"]
        kind, val = outcome
        errs = errors(eng)
        if shape in ("Rn", "%e"):
            ok = z3.And(info["reg"] >= 0, info["reg"] < 8)
            if kind == "raise":
                eng.prove("refused-only-bad-register-number-with-error", z3.And(z3.Not(ok), val.cls == "RecoverableError" and len(errs) >= 1))
            else:
                eng.prove("register-field-is-the-register-number", z3.And(ok, final(val[0]) == info["reg"], val[1] == b"" and not errs))
        else:
            eng.prove("non-register-operand-is-refused-with-invalid-addressing",
                      kind == "raise" and val.cls == "RecoverableError" and [e[1] for e in errs] == ["invalid-addressing"])
    r = verify(eng, name, run, post, func="insns.RegisterOperandStub.encode")
    for o in r["obligations"]:
        o["cfg"] = dict(kind="reg", shape=shape)
    return r


# ---------------------------------------------------------------- unit: FP11 stubs
def acc_symbol(eng, lo=0, hi=5):
    """Symbol spelling an accumulator acN: N symbolic (name -> N proved in try_accumulator_from_symbol[*])"""
    n = int_input(eng, "acn")
    eng.assume(z3.And(n >= lo, n <= hi))
    return new(eng, "types", "Symbol", "acN", False, _acc=n), n


def contract_try_accumulator(eng, operand):
    eng.assumptions.add("callee contract assumed: insns.try_accumulator_from_symbol - discharged by C01 unit try_accumulator_from_symbol")
    if isinstance(operand, Obj) and "_acc" in operand.attrs:
        return operand.attrs["_acc"]
    return None


def unit_fp_encode(eng, which, shape):
    """which: 'rm' (FP11RMOperandStub, 6-bit field) | 'ac' (FP11AccumulatorOperandStub, 2-bit field)"""
    name = "%s.encode[%s]" % ("FP11RMOperandStub" if which == "rm" else "FP11AccumulatorOperandStub", shape)
    func = "insns.%s.encode" % ("FP11RMOperandStub" if which == "rm" else "FP11AccumulatorOperandStub")

    def run(eng):
        install(eng, "wait", "get_as_int", "try_as_register")
        eng.contracts["try_accumulator_from_symbol"] = contract_try_accumulator
        eng.I = {}
        if shape == "acN":
            tok, n = acc_symbol(eng)
            info = dict(acc=n)
        else:
            tok, info = shape_build(eng, shape)
        eng.I["info"] = info
        if which == "rm":
            stub = stub_obj(eng, "FP11RMOperandStub", "S", [5, 4, 3, 2, 1, 0])
        else:
            stub = stub_obj(eng, "FP11AccumulatorOperandStub", "S", [1, 0])
        return eng.call(Bound(stub, stub.cls.lookup("encode")), [tok, state_for(eng, 0)], {})

    def post(eng, outcome):
        info = eng.I["info"]
        kind, val = outcome
        errs = errors(eng)
        width = 6 if which == "rm" else 2
        if shape == "acN":
            n = info["acc"]
            fits = n < (6 if which == "rm" else 4)     # FSRC/FDST mode 0 addresses AC0-AC5, the 2-bit AC field AC0-AC3
            region = None
            if which == "ac" and "D13" in common.ACTIVE_FINDINGS:
                region = n >= 4
            if kind == "return" and not errs:
                eng.prove("accumulator-accepted-only-if-it-fits-the-%d-bit-field" % width, fits, region=region)
                eng.prove("accumulator-field-is-the-accumulator-number", z3.And(final(val[0]) == n, val[1] == b""))
            else:
                eng.prove("accumulator-refused-only-if-it-does-not-fit", z3.Not(fits))
                eng.prove("refusal-is-an-error-report", len(errs) >= 1)
            return
        if which == "ac":
            eng.prove("non-accumulator-operand-is-refused-with-invalid-addressing",
                      kind == "raise" and val.cls == "RecoverableError" and [e[1] for e in errs] == ["invalid-addressing"])
            return
        # which == rm and a CPU register spelling: implicit accumulator
        r = info["reg"]
        if kind == "raise":
            eng.prove("refused-only-bad-register-number-with-error", z3.And(z3.Or(r < 0, r > 7), len(errs) >= 1))
            return
        eng.prove("register-as-accumulator-field", z3.And(final(val[0]) == r, val[1] == b""))
        eng.prove("r0-r5-accepted-with-implicit-accumulator-warning-r6-r7-are-errors",
                  z3.If(r < 6, len(errs) == 0 and [w[1] for w in warnings(eng)] == ["implicit-accumulator"], [e[1] for e in errs] == ["implicit-accumulator"]))
    r = verify(eng, name, run, post, func=func)
    for o in r["obligations"]:
        o["cfg"] = dict(kind="fp", which=which, shape=shape)
    return r


# ---------------------------------------------------------------- unit: ImmediateOperandStub.encode
def unit_imm_encode(eng, bits, unsigned, hashed, lazy):
    name = "ImmediateOperandStub.encode[bits=%d,%s,%s,%s]" % (bits, "unsigned" if unsigned else "signed", "#e" if hashed else "e", "lazy" if lazy else "ready")

    def run(eng):
        install(eng, "wait")
        eng.I = {}
        e, v = leaf_value(eng, "e", lazy)
        tok = op(eng, "immediate", e) if hashed else e
        eng.I["v"] = v
        stub = stub_obj(eng, "ImmediateOperandStub", "I" if unsigned else "i", range(bits - 1, -1, -1), unsigned)
        return eng.call(Bound(stub, stub.cls.lookup("encode")), [tok, state_for(eng, 0)], {})

    def post(eng, outcome):
        v = eng.I["v"]
        kind, val = outcome
        eng.prove("no-exception", kind == "return")
        if kind != "return":
            return
        errs = errors(eng)
        P = 2 ** bits
        ok = z3.And(v >= 0, v < P) if unsigned else z3.And(v > -P, v < P)
        f = final(val[0])
        eng.prove("no-extension-word", val[1] == b"")
        if errs:
            eng.prove("refused-only-when-the-value-does-not-fit-the-field", z3.Not(ok))
            eng.prove("refusal-identifier", all(e[1] == "value-out-of-bounds" for e in errs))
        else:
            eng.prove("accepted-only-when-the-value-fits-the-field", ok)
            eng.prove("field-is-value-mod-2^bits", z3.And(f == v % P, f >= 0, f < P))
        eng.prove("hash-warns-excess-hash", [w[1] for w in warnings(eng)] == (["excess-hash"] if hashed else []))
    r = verify(eng, name, run, post, func="insns.ImmediateOperandStub.encode")
    for o in r["obligations"]:
        o["cfg"] = dict(kind="imm", bits=bits, unsigned=unsigned, hashed=hashed)
    return r


# ---------------------------------------------------------------- unit: OffsetOperandStub.encode (A.2)
def branch_operand(eng, shape, lazy):
    """parser skeletons of a branch operand.  Returns (token, target value term, text facts, info)"""
    def text_of(tok, has_paren=False, has_colon=False):
        class _T:
            pass
        t = Obj("SymText", name="text")
        t.attrs["__contains__"] = Builtin("in", lambda eng_, item: {"(": has_paren, ":": has_colon}[item])
        tok.attrs["text"] = Builtin("text", lambda eng_: t)
    info = dict(fixed=None)
    lab = int_input(eng, "label_value")     # value a (fixed-up) local label resolves to
    mk = (lambda v: Lazy(v)) if lazy else (lambda v: v)

    def label_contract(eng_, self, state):
        # assumed contract of Symbol._resolve for the local label the fix-up creates
        isl = eng_.fresh_bool("def_is_label")
        d = mk_token(eng_, "Label") if eng_.branch(isl) else mk_token(eng_, "Assignment")
        return (d, mk(lab))
    eng.contracts["Symbol._resolve"] = label_contract
    if shape == "sym":
        v = int_input(eng, "target")
        tok = new(eng, "types", "Symbol", "lab", False)
        tok.attrs["_resolve"] = Builtin("_resolve", lambda eng_, state: label_contract(eng_, tok, state)[:1] + (mk(v),))
        text_of(tok)
        return tok, v, info
    if shape == ".":
        v = int_input(eng, "target")
        tok = new(eng, "types", "InstructionPointer")
        tok.attrs["resolve"] = Builtin("resolve", lambda eng_, state: mk(v))
        text_of(tok)
        return tok, v, info
    if shape == "1":
        tok = new(eng, "types", "Number", "1", 1, True)
        text_of(tok)
        return tok, lab, info
    if shape == "1:":
        tok = new(eng, "types", "Symbol", "1", True)
        text_of(tok, has_colon=True)
        return tok, lab, info
    decimal = shape.endswith("k.")
    if decimal:
        shape = shape[:-1]
    if shape in ("sym+k", ".+k", ".-k", "1+k", "k+sym", "(e)"):
        k = int_input(eng, "k")
        v = int_input(eng, "target_base")
        if shape == "(e)":
            inner, _ = leaf_value(eng, "inner")
            tok = paren(eng, inner)
            tok.attrs["resolve"] = Builtin("resolve", lambda eng_, state: mk(v))
            text_of(tok, has_paren=True)
            return tok, v, info
        numk = new(eng, "types", "Number", "10", None, not decimal)
        numk.attrs["resolve"] = Builtin("resolve", lambda eng_, state: k)
        if shape.startswith("1"):
            left = new(eng, "types", "Number", "1", 1, True)
            base = lab
        elif shape.startswith("."):
            left = new(eng, "types", "InstructionPointer")
            left.attrs["resolve"] = Builtin("resolve", lambda eng_, state: mk(v))
            base = v
        else:
            left = new(eng, "types", "Symbol", "lab", False)
            left.attrs["_resolve"] = Builtin("_resolve", lambda eng_, state: (mk_token(eng_, "Label"), mk(v)))
            base = v
        opn = "sub" if shape == ".-k" else "add"
        if shape == "k+sym":
            # 'br 10+lab': the leading number is fixed up to the local label '10'
            node = op(eng, "add", numk, left)
            target = lab + v
        else:
            node = op(eng, opn, left, numk)
            target = base - k if opn == "sub" else base + k
        node.attrs["resolve"] = Builtin("resolve", lambda eng_, state, _n=node, _o=opn: eng_.binop(
            ast.Sub() if _o == "sub" else ast.Add(),
            eng_.call(eng_.getattr(_n.attrs["lhs"], "resolve"), [state], {}), eng_.call(eng_.getattr(_n.attrs["rhs"], "resolve"), [state], {})))
        text_of(node)
        return node, target, info
    # shapes that reach the internal assertion of fixup_label (finding D5)
    if shape == "100.":
        tok = new(eng, "types", "Number", "100.", 100, False)
    elif shape == "'x":
        tok = new(eng, "types", "CharLiteral", "'x", "x")
    elif shape == "<e>":
        inner, _ = leaf_value(eng, "inner")
        tok = paren(eng, inner, "<")
    else:
        raise ValueError(shape)
    v = int_input(eng, "target")
    tok.attrs["resolve"] = Builtin("resolve", lambda eng_, state: mk(v))
    text_of(tok)
    return tok, v, info


BRANCH_SHAPES = ["sym", ".", "1", "1:", "sym+k", ".+k", ".-k", "1+k", "k+sym", "(e)"]
D5_SHAPES_FIXED = True
D5_SHAPES = ["100.", "'x", "<e>", "sym+k.", ".+k.", ".-k.", "1+k."]


def unit_offset_encode(eng, bits, unsigned, shape, lazy):
    name = "OffsetOperandStub.encode[bits=%d,%s,%s,%s]" % (bits, "sob" if unsigned else "branch", shape, "lazy" if lazy else "ready")

    def run(eng):
        install(eng, "wait")
        eng.I = {}
        tok, target, info = branch_operand(eng, shape, lazy)
        rel = int_input(eng, "rel")
        eng.I.update(t=target, rel=rel)
        stub = stub_obj(eng, "OffsetOperandStub", "O" if unsigned else "o", range(bits - 1, -1, -1), unsigned)
        st = state_for(eng, Lazy(rel) if lazy else rel, "br")
        return eng.call(Bound(stub, stub.cls.lookup("encode")), [tok, st], {})

    def post(eng, outcome):
        t, rel = eng.I["t"], eng.I["rel"]
        kind, val = outcome
        region = True if (shape in D5_SHAPES and "D5" in common.ACTIVE_FINDINGS) else None
        eng.prove("no-exception-for-any-operand-the-grammar-admits", kind == "return", region=region)
        if kind != "return":
            return
        inline, ext = val
        eng.prove("no-extension-word", ext == b"")
        r = final(inline)
        off = t - rel
        errs = errors(eng)
        if unsigned:
            reach = z3.And(off >= -(2 ** (bits + 1)) + 2, off <= 0, off % 2 == 0)
        else:
            reach = z3.And(off >= -(2 ** bits), off <= 2 ** bits - 2, off % 2 == 0)
        if errs:
            eng.prove("rejected-only-outside-reach-or-odd", z3.Not(reach))
            eng.prove("rejection-identifiers", all(e[1] in ("branch-out-of-bounds", "odd-branch") for e in errs))
            eng.prove("rejected-field-is-zero-never-wrapped", r == 0)
        else:
            eng.prove("accepted-only-inside-reach-and-even", reach)
            # PDP-11: branch: PC' = rel + 2*sext(field); SOB: PC' = rel - 2*field   (rel = address of the following word)
            if unsigned:
                eng.prove("field-fits-%d-bits-unsigned" % bits, z3.And(r >= 0, r < 2 ** bits))
                eng.prove("machine-lands-on-target", rel - 2 * r == t)
            else:
                eng.prove("field-fits-%d-bits-signed" % bits, z3.And(r >= -(2 ** (bits - 1)), r < 2 ** (bits - 1)))
                eng.prove("machine-lands-on-target", rel + 2 * r == t)
    r = verify(eng, name, run, post, func="insns.OffsetOperandStub.encode")
    need = {"rejected", "accepted"} if shape not in D5_SHAPES else set()
    seen = set(o["label"].split("-")[0] for o in r["obligations"])
    r["cover_missing"] = sorted(need - seen)
    for o in r["obligations"]:
        o["cfg"] = dict(kind="offset", bits=bits, unsigned=unsigned, shape=shape, lazy=lazy)
    return r


# ---------------------------------------------------------------- unit: Instruction.compile_insn + get_opcode, per mnemonic
KIND_OF_STUB = {"RegisterOperandStub": "reg", "RegisterModeOperandStub": "rm", "FP11RMOperandStub": "frm", "FP11AccumulatorOperandStub": "ac"}
# value range each stub's own contract guarantees for its inline value (proved in the stub units)
RANGE = {"reg": (0, 7), "rm": (0, 63), "frm": (0, 63), "ac": (0, 3), "off8": (-128, 127), "off6u": (0, 63)}


def stub_kind(st):
    k = KIND_OF_STUB.get(st["cls"])
    if st["cls"] == "OffsetOperandStub":
        k = "off6u" if st["unsigned"] else "off8"
    if st["cls"] == "ImmediateOperandStub":
        k = "immu" if st["unsigned"] else "imms"
    return k


def unit_compile_insn(eng, mnemonic, lazy, arity_delta=0):
    """Instruction.compile_insn for one mnemonic; stub.encode is replaced by its contract (modular)."""
    from spec import pdp11_isa as isa
    facts = native_facts(driver.tree_root())["instructions"][mnemonic]
    base, fmt, _src = isa.ISA[mnemonic]
    fields = isa.FORMATS[fmt]
    name = "compile_insn[%s,%s%s]" % (mnemonic, "lazy" if lazy else "ready", "" if not arity_delta else ",arity%+d" % arity_delta)

    def run(eng):
        install(eng, "wait")
        eng.I = {}
        icls = eng.resolve_global(eng.load_module("insns"), "Instruction")
        stubs, calls, vals = [], [], []
        for k, st in enumerate(facts["operands"]):
            kind = stub_kind(st)
            width = len(st["bits"])
            lo, hi = RANGE.get(kind, (0, 2 ** width - 1))
            v = int_input(eng, "f%d" % k)
            eng.assume(z3.And(v >= lo, v <= hi))
            has_ext = kind in ("rm", "frm")
            extb = z3.Const("ext%d" % k, BYTES)
            ext_present = z3.Bool("ext%d_present" % k)
            eng.inputs["ext%d_present" % k] = ext_present
            sobj = stub_obj(eng, st["cls"], st["char"], st["bits"], st["unsigned"])

            def enc(eng_, operand, state, _k=k, _v=v, _has=has_ext, _extb=extb, _p=ext_present):
                calls.append((_k, operand, state))
                e = b""
                if _has and eng_.branch(_p):
                    eng_.assume(slen(_extb) == 2)
                    e = Lazy(_extb, "bytes", 2) if lazy else _extb
                return (Lazy(_v, "int") if lazy else _v), e
            sobj.attrs["encode"] = Builtin("stub.encode(contract)", enc)
            stubs.append(sobj)
            vals.append((v, extb, ext_present, has_ext, width))
        inst = Obj(icls, dict(name=mnemonic, opcode_pattern=facts["pattern"], operands=stubs, min_operands=len(stubs), max_operands=len(stubs)), name="Instruction")
        n_ops = len(stubs) + arity_delta
        operands = [value_token(eng, 0, "operand%d" % i) for i in range(n_ops)]
        insn = insn_token(eng, mnemonic, operands)
        emit = int_input(eng, "emit")
        state = {"insn": insn, "emit_address": Lazy(emit) if lazy else emit, "marker": "unchanged"}
        eng.I.update(vals=vals, calls=calls, emit=emit, operands=operands, state=state)
        return eng.call(Bound(inst, icls.lookup("compile_insn")), [state, insn], {})

    def post(eng, outcome):
        vals, calls, emit, operands = eng.I["vals"], eng.I["calls"], eng.I["emit"], eng.I["operands"]
        kind, val = outcome
        eng.prove("no-exception", kind == "return")
        if kind != "return":
            return
        if arity_delta:
            eng.prove("wrong-operand-count-is-refused", val is None and [e[1] for e in errors(eng)] == ["wrong-operands"] and not calls)
            return
        eng.prove("no-report-from-compile_insn-itself", not eng.path.events)
        eng.prove("each-stub-called-exactly-once-in-source-order", [c[0] for c in calls] == list(range(len(vals))) and all(c[1] is operands[c[0]] for c in calls))
        # rel_address of operand k = emit + 2 + bytes of the extension words before it
        acc = emit + 2
        for k, (v, extb, present, has_ext, width) in enumerate(vals):
            st = calls[k][2]
            eng.prove("rel-address-operand%d" % k, final(st["rel_address"]) == acc)
            eng.prove("state-otherwise-unchanged-operand%d" % k, st["insn"] is eng.I["state"]["insn"] and st["marker"] == "unchanged" and st["emit_address"] is eng.I["state"]["emit_address"])
            if has_ext:
                here = any(isinstance(d, bool) for d in [])  # placeholder, length taken from the path below
                acc = acc + z3.If(z3.And(present, _taken(eng, present)), 2, 0)
        word = base
        for (kind_, shift, width), (v, _e, _p, _h, _w) in zip(fields, vals):
            word = word + (v % 2 ** width) * 2 ** shift
        out = zbytes(val)
        want = [le16(word)]
        ann = 2
        for v, extb, present, has_ext, width in vals:
            if has_ext and _taken(eng, present) is True:
                want.append(extb)
                ann = ann + 2
        want = want[0] if len(want) == 1 else z3.Concat(*want)
        eng.prove("bytes-are-opcode-word-then-extension-words-in-operand-order", out == want)
        eng.prove("opcode-word-is-base-plus-fields(independent-ISA-table)", out[0] + 256 * out[1] == word)
        eng.prove("announced-length", announced_of(val) == ann)
    r = verify(eng, name, run, post, func="insns.Instruction.compile_insn")
    for o in r["obligations"]:
        o["cfg"] = dict(kind="insn", mnemonic=mnemonic, lazy=lazy)
    return r


def _taken(eng, cond):
    """whether the path took `cond` as true (the contract branched on it)"""
    r, _ = eng.check([z3.Not(cond)])
    if r == z3.unsat:
        return True
    r, _ = eng.check([cond])
    if r == z3.unsat:
        return False
    return False      # never branched on: extension word absent


def announced_of(v):
    from pyvc.engine import announced_len
    return announced_len(v)


# ---------------------------------------------------------------- closed: insns.init() vs the independent ISA table
def closed_ob(obs, unit, func, label, ok, detail=""):
    obs.append(dict(label=label, kind="closed", status="proved" if ok else "failed", secs=0.0, path=[], witness=None, detail=detail,
                    events=[], smt2=None, backend="cpython-eval", unit=unit, func=func, cfg=dict(kind="closed", label=label)))


def real_fields(rec):
    """(kind, shift, width) of each stub of a real instruction record, derived from pattern and bit_indexes
    exactly the way get_opcode uses them: bit i of the value goes to pattern position indexes_of_char[c][bit_indexes[i]]"""
    pat = rec["pattern"]
    idx = {}
    for i, c in enumerate(pat):
        idx.setdefault(c, []).append(i)
    out = []
    for st in rec["operands"]:
        try:
            pos = [15 - idx[st["char"]][bi] for bi in st["bits"]]
        except (KeyError, IndexError):
            out.append(("bad-index", st))
            continue
        shift = pos[0] if pos else None
        if not all(p == shift + i for i, p in enumerate(pos)) or len(pos) != len(idx[st["char"]]) - (0 if len(rec["operands"]) == 1 or True else 0) and False:
            out.append(("non-contiguous", pos))
        else:
            out.append((stub_kind(st), shift, len(pos)))
    return out


def unit_init_closed(eng):
    from spec import pdp11_isa as isa
    facts = native_facts(driver.tree_root())["instructions"]
    obs = []
    unit, func = "init-table", "insns.init (closed: real table vs spec/pdp11_isa.py)"
    closed_ob(obs, unit, func, "same-mnemonic-set", set(facts) == set(isa.ISA), str(sorted(set(facts) ^ set(isa.ISA))))
    for m, (base, fmt, src) in sorted(isa.ISA.items()):
        rec = facts.get(m)
        if rec is None:
            continue
        pat = rec["pattern"]
        ok_pat = len(pat) == 16 and all(c in "01sSdDoOiI" for c in pat)
        rb = int("".join(c if c in "01" else "0" for c in pat), 2) if ok_pat else -1
        closed_ob(obs, unit, func, "pattern-well-formed[%s]" % m, ok_pat, pat)
        closed_ob(obs, unit, func, "base-opcode[%s]==%06o" % (m, base), rb == base, "real %o" % rb)
        rf = real_fields(rec)
        closed_ob(obs, unit, func, "operand-kinds-order-and-field-positions[%s]==%s" % (m, fmt), rf == isa.FORMATS[fmt], "real %s spec %s" % (rf, isa.FORMATS[fmt]))
        # every field character of the pattern is owned by exactly one stub bit
        used = sorted(15 - i for i, c in enumerate(pat) if c not in "01")
        cover = sorted(b for t in rf if len(t) == 3 and isinstance(t[1], int) for b in range(t[1], t[1] + t[2]))
        closed_ob(obs, unit, func, "fields-cover-pattern-letters[%s]" % m, used == cover, "%s vs %s" % (used, cover))
    for a, b in isa.SYNONYMS:
        ra, rb_ = facts.get(a), facts.get(b)
        same = ra is not None and rb_ is not None and real_fields(ra) == real_fields(rb_) and \
            "".join(c if c in "01" else "0" for c in ra["pattern"]) == "".join(c if c in "01" else "0" for c in rb_["pattern"])
        closed_ob(obs, unit, func, "synonyms-identical[%s=%s]" % (a, b), same and isa.ISA[a][:2] == isa.ISA[b][:2])
    return dict(unit=unit, func=func, paths=1, obligations=obs, wall=0.0)


def unit_decode_lemma(eng):
    """lemma (exhaustive): the independent decoder recovers, from spec_encode(m, fields), the same operation and
    the same fields in the same order, for every mnemonic and every value of every inline field"""
    import itertools
    from spec import pdp11_isa as isa, pdp11_decode as dec
    obs = []
    unit, func = "decode-lemma", "spec: pdp11_decode o pdp11_isa (lemma, exhaustive)"
    total = 0
    for m, (base, fmt, src) in sorted(isa.ISA.items()):
        fs = isa.FORMATS[fmt]
        canon = dec.CANON.get(m, m)
        bad = None
        for vals in itertools.product(*[range(1 << w) for _, _, w in fs]):
            w = base
            for (k, sh, wd), v in zip(fs, vals):
                w |= v << sh
            exp = (canon, list(vals))
            if canon in dec.MACROS:
                opn, fn = dec.MACROS[canon]
                exp = (opn, fn(list(vals)))
            total += 1
            if dec.decode(w) != exp:
                bad = (oct(w), dec.decode(w), exp)
                break
        closed_ob(obs, unit, func, "decode(encode(%s, fields))==(%s, fields)" % (m, canon), bad is None, str(bad))
        obs[-1]["kind"] = "lemma"
    obs[-1]["cases"] = total
    return dict(unit=unit, func=func, paths=1, obligations=obs, wall=0.0)


def unit_bit_lemmas(eng):
    """step lemmas justifying the digit-run recomposition used when reading get_opcode's bit string"""
    def run(eng):
        eng.I = {}
        return None

    def post(eng, outcome):
        v = z3.Int("v")
        for k in range(1, 17):
            eng.prove("v mod 2^%d == bit_%d(v)*2^%d + v mod 2^%d" % (k, k - 1, k - 1, k - 1),
                      v % 2 ** k == ((v / 2 ** (k - 1)) % 2) * 2 ** (k - 1) + v % 2 ** (k - 1))
    r = verify(eng, "bit-recomposition", run, post, func="lemma: bit recomposition")
    for o in r["obligations"]:
        o["kind"] = "lemma"
    return r


# ---------------------------------------------------------------- register numbers written '%e' inside addressing forms (C08: exception freedom, finding D7)
PCT_SHAPES = ["(%e)", "@%e", "(%e)+", "@(%e)+", "-(%e)", "@-(%e)", "x(%e)", "@x(%e)", "@(%e)", "a-b(%e)", "@a+b(%e)", "-a(%e)"]
PCT_MODE = {"(%e)": 1, "@%e": 1, "(%e)+": 2, "@(%e)+": 3, "-(%e)": 4, "@-(%e)": 5, "x(%e)": 6, "@x(%e)": 7, "@(%e)": 7, "a-b(%e)": 6, "@a+b(%e)": 7, "-a(%e)": 6}
PCT_HOISTED = ("a-b(%e)", "@a+b(%e)", "-a(%e)")


def pct_shape(eng, shape):
    n, nv = leaf_value(eng, "n")
    reg = op(eng, "register", n)
    if shape == "(%e)":
        return paren(eng, reg), nv
    if shape == "@%e":
        return op(eng, "deferred", reg), nv
    if shape == "(%e)+":
        return op(eng, "postadd", paren(eng, reg)), nv
    if shape == "@(%e)+":
        return op(eng, "deferred", op(eng, "postadd", paren(eng, reg))), nv
    if shape == "-(%e)":
        return op(eng, "neg", paren(eng, reg)), nv
    if shape == "@-(%e)":
        return op(eng, "deferred", op(eng, "neg", paren(eng, reg))), nv
    if shape == "x(%e)":
        x, _ = leaf_value(eng, "e")
        return op(eng, "call", x, reg), nv
    if shape == "@x(%e)":
        x, _ = leaf_value(eng, "e")
        return op(eng, "deferred", op(eng, "call", x, reg)), nv
    if shape == "@(%e)":
        return op(eng, "deferred", paren(eng, reg)), nv
    # hoisted forms with the register spelled %e: 'a-b(%e)' parses as a-(b(%e)), '-a(%e)' as -(a(%e))
    if shape in ("a-b(%e)", "@a+b(%e)"):
        a, va = leaf_value(eng, "a")
        b, vb = leaf_value(eng, "b")
        opn = "sub" if shape == "a-b(%e)" else "add"
        node = op(eng, opn, a, op(eng, "call", b, reg))
        node.attrs["resolve"] = Builtin("resolve", lambda eng_, state, _n=node, _o=opn: eng_.binop(
            ast.Sub() if _o == "sub" else ast.Add(),
            eng_.call(eng_.getattr(_n.attrs["lhs"], "resolve"), [state], {}), eng_.call(eng_.getattr(_n.attrs["rhs"], "resolve"), [state], {})))
        eng.I["index"] = va - vb if opn == "sub" else va + vb
        return (op(eng, "deferred", node) if shape.startswith("@") else node), nv
    if shape == "-a(%e)":
        a, va = leaf_value(eng, "a")
        node = op(eng, "neg", op(eng, "call", a, reg))
        node.attrs["resolve"] = Builtin("resolve", lambda eng_, state, _n=node: eng_.binop(ast.Sub(), 0, eng_.call(eng_.getattr(_n.attrs["operand"], "resolve"), [state], {})))
        eng.I["index"] = -va
        return node, nv
    raise ValueError(shape)


def unit_rm_pct(eng, shape, reg_lazy):
    """addressing forms whose register is written %e; reg_lazy: the value of e is not yet known when the operand is first encoded"""
    name = "RegisterModeOperandStub.encode[%s,register-%s]" % (shape, "lazy" if reg_lazy else "ready")

    def run(eng):
        install(eng, "wait", "get_as_int", "try_as_register")
        eng.reg_lazy = "lazy" if reg_lazy else "eager"
        eng.I = {}
        tok, nv = pct_shape(eng, shape)
        eng.I["n"] = nv
        stub = stub_obj(eng, "RegisterModeOperandStub", "s", [5, 4, 3, 2, 1, 0])
        return eng.call(Bound(stub, stub.cls.lookup("encode")), [tok, state_for(eng, int_input(eng, "rel"))], {})

    def post(eng, o):
        kind, val = o
        n = eng.I["n"]
        if kind == "raise":
            region = True if (reg_lazy and "D7" in common.ACTIVE_FINDINGS) else None
            eng.prove("only-RecoverableError-escapes-and-only-after-an-error-report(no TypeError for a register number known later)", val.cls == "RecoverableError" and len(errors(eng)) >= 1, region=region)
            return
        if not errors(eng):
            eng.prove("mode-register-field", z3.And(n >= 0, n < 8, final(val[0]) == PCT_MODE[shape] * 8 + n))
        if shape in PCT_HOISTED:
            idx = eng.I["index"]
            valid = z3.And(n >= 0, n < 8, idx > -65536, idx < 65536)
            if errors(eng):
                eng.prove("an-index-expression-before-(%e)-is-refused-only-for-an-invalid-register-number-or-index(the same as with rN)", z3.Not(valid))
            else:
                eng.prove("extension-word-is-the-index-expression-mod-2^16", zbytes(final(val[1])) == le16(idx % 65536))
    r = verify(eng, name, run, post, func="insns.RegisterModeOperandStub.encode")
    for o_ in r["obligations"]:
        o_["cfg"] = dict(kind="pct", shape=shape, reg_lazy=reg_lazy)
    return r
