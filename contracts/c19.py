"""C19 - The listing agrees with the image.

vc: Compiler.generate_listing for symbol tables of 0..3 entries (symbolic names and values, concrete file-prefix numbers, every mix of file-private
    and scope-local keys): one line per '.internal<m>.' key under the file name of prefix m, none for other keys; lines ordered by (value, name);
    the numeric field reads back (base 8) as the value and is at least 6 wide; label values are the addresses of C02 (same objects)
    main_cli --lst path derivation (string obligations over the real code of _cli.main_cli's listing branch): beside the first output,
    '.<format>' suffix replaced by '.lst', '-' -> listing.lst
rac: listing of multi-file programs with negative and > 16 bit constants on the real assembler (testing, separate)
"""
import itertools
import os
import z3
from contracts.common import *  # noqa
from contracts import structure
from contracts.structure import *  # noqa
from contracts.deferred_c import *  # noqa
from contracts import common
from contracts.compiler_c import compiler_obj
from contracts.cli_c import unit_main_cli  # noqa
from pyvc import driver
from pyvc.engine import octstr, octval
from contracts import c06
from contracts.c06 import unit_data, unit_fill  # noqa

ID = "C19"
EXPLANATION = "names and values symbolic; number of symbols 0..3 and file-prefix numbers 1..2 enumerated"
TRUSTED = ["pyvc engine semantics incl. the forking model of list.sort (A1)", "z3 (A7)",
           "oct(n) / int(t, 8) are axiomatised: int8(zero-padding ++ octdigits(n)) == n, int8('-' ++ t) == -int8(t) (differentially tested against CPython in the run-time check)"]
ASSUMPTIONS = ["symbol keys have the shape built by compile_label / compile_assignment (C11): '.internal<m>.' + name or '.local<p>.' + name",
               "values are the final values of the symbols (wait); label values are the addresses of the C02 accounting"]


def field(v):
    """spec: octal numeral of v, sign first, at least 6 digits"""
    d = z3.If(v >= 0, octstr(v), octstr(-v))
    L = z3.Length(d)
    pad = d
    for k in range(5, 0, -1):
        pad = z3.If(L == k, z3.Concat(z3.StringVal("0" * (6 - k)), d), pad)
    return z3.If(v >= 0, pad, z3.Concat(z3.StringVal("-"), pad))


def numeral_axioms(eng, vals):
    """instances of the numeral axioms for the values at hand"""
    for v in vals:
        for n in (v, -v):
            d = octstr(n)
            eng.assume(z3.Implies(n >= 0, z3.And(octval(d) == n, z3.Length(d) >= 1)))
            for k in range(1, 6):
                eng.assume(z3.Implies(n >= 0, octval(z3.Concat(z3.StringVal("0" * k), d)) == n))
                eng.assume(z3.Implies(n >= 0, octval(z3.Concat(z3.StringVal("-" + "0" * k), d)) == -n))
            eng.assume(z3.Implies(n >= 0, octval(z3.Concat(z3.StringVal("-"), d)) == -n))


def unit_listing(eng, shape):
    """shape: tuple of entries ('i', m) file-private symbol of prefix m | ('l',) scope-local key | ('x',) value that is not an int"""
    name = "generate_listing[%s]" % ",".join("".join(map(str, e)) for e in shape)

    def run(eng):
        use_callee_contracts(eng, "wait")
        eng.I = {}
        comp = compiler_obj(eng)
        cont = {}
        entries = []
        for i, e in enumerate(shape):
            nm = z3.String("n%d" % i)
            eng.inputs["n%d" % i] = nm
            v = int_input(eng, "v%d" % i)
            if e[0] == "i":
                k = z3.Concat(z3.StringVal(".internal%d." % e[1]), nm)
            else:
                k = z3.Concat(z3.StringVal(".local7."), nm)
            val = Lazy(v, "int") if i % 2 else v
            cont["k%d" % i] = (k, (Obj("Def", name="def%d" % i), val))
            entries.append((e, nm, v))
        comp.attrs["symbols"].attrs["container"] = cont
        comp.attrs["internal_prefix_to_state"] = {1: {"filename": "/src/a.mac"}, 2: {"filename": "/src/b.mac"}}
        eng.I.update(entries=entries)
        return eng.call(eng.getattr(comp, "generate_listing"), [], {})

    def post(eng, o):
        entries = eng.I["entries"]
        kind, val = o
        eng.prove("no-exception", kind == "return")
        if kind != "return":
            return
        numeral_axioms(eng, [v for _, _, v in entries])
        # structural reading of the produced text: constants are literal, names and numerals are terms
        from pyvc.engine import str_parts
        out = val if is_sym(val) else z3.StringVal(val)
        toks = []
        for p in str_parts(out):
            if z3.is_string_value(p):
                if toks and isinstance(toks[-1], str):
                    toks[-1] += p.as_string()
                else:
                    toks.append(p.as_string())
            else:
                toks.append(p)
        lines, cur = [], []
        for t in toks:
            if isinstance(t, str):
                segs = t.split("\n")
                for i, sg in enumerate(segs):
                    if sg:
                        cur.append(sg)
                    if i < len(segs) - 1:
                        lines.append(cur)
                        cur = []
            else:
                cur.append(t)
        eng.prove("text-ends-with-a-newline", cur == [])
        names = {nm.get_id(): (e, nm, v) for e, nm, v in entries}
        fname_of = {1: "/src/a.mac", 2: "/src/b.mac"}
        listed = []
        current_file, prev, ok_shape = None, None, True
        for ln in lines:
            if ln == []:
                current_file, prev = None, None
                continue
            if len(ln) == 1 and isinstance(ln[0], str) and ln[0] in fname_of.values():
                current_file, prev = ln[0], None
                continue
            if not (len(ln) >= 3 and is_sym(ln[-1]) and ln[-1].get_id() in names and isinstance(ln[-2], str) and ln[-2].endswith(" ")):
                ok_shape = False
                continue
            e, nm, v = names[ln[-1].get_id()]
            num_parts = ln[:-2] + ([ln[-2][:-1]] if ln[-2][:-1] else [])
            zs = [z3.StringVal(p) if isinstance(p, str) else p for p in num_parts]
            numeral = zs[0] if len(zs) == 1 else z3.Concat(*zs)
            listed.append((current_file, e, nm, v))
            region = (v < 0) if "D2" in common.ACTIVE_FINDINGS else None
            eng.prove("numeral-reads-back-in-base-8-as-the-symbol's-value", octval(numeral) == v, region=region)
            eng.prove("numeral-is-at-least-6-characters-wide", z3.Length(numeral) >= 6)
            eng.prove("line-stands-under-the-file-that-defines-the-symbol", e[0] == "i" and current_file == fname_of[e[1]])
            if prev is not None:
                eng.prove("lines-ordered-by-value-then-name", z3.Or(prev[1] < v, z3.And(prev[1] == v, z3.Or(prev[0] == nm, prev[0] < nm))))
            prev = (nm, v)
        eng.prove("every-line-is-'<numeral> <name>'", ok_shape)
        want = sorted(i for i, (e, nm, v) in enumerate(entries) if e[0] == "i")
        got = sorted(i for i, (e, nm, v) in enumerate(entries) if any(l[2] is nm for l in listed))
        eng.prove("every-file-private-symbol-is-listed-exactly-once-scope-local-keys-never", got == want and len(listed) == len(want))
    r = verify(eng, name, run, post, func="compiler.Compiler.generate_listing")
    for o in r["obligations"]:
        o["cfg"] = dict(kind="listing", shape=shape)
    return r


def unit_rac(eng):
    cases = [
        (["a = -5\nb = 300000\nl1: nop\nl0: nop\nz = 2\nzz = 1\nc2 = 7\nc1 = 7\n1$: nop\n"], None),
        (["x = 1\ny = 1\nstart: nop\n", "q = 7\nstart2: nop\n"], None),
        # several negative constants and values wider than the six-digit field, next to smaller values with a larger leading digit
        (["n1 = -1\nn2 = -2\nn100 = -100\nbig = 4000000\nmid = 200000\nhuge = 77777777777\nsmall = 7\nl: nop\n", "m1 = -1\nm7 = -7\nw = 1000000\nv = 777777\n"], None),
    ]
    import random
    rnd = random.Random(int(os.environ.get("VERIF_SEED", "0") or 0))
    for _ in range(6):
        srcs = []
        for f in range(rnd.randrange(1, 4)):
            lines = []
            for k in range(rnd.randrange(2, 9)):
                v = rnd.choice([rnd.randrange(-9, 10), rnd.randrange(-0o1000000, 0o1000000), rnd.randrange(-2 ** 40, 2 ** 40), rnd.choice([0o777777, 0o1000000, -0o777777, -0o1000000])])
                lines.append("s%d_%d = %s%o" % (f, k, "-" if v < 0 else "", abs(v)))
            lines.append("lab%d: nop" % f)
            rnd.shuffle(lines)
            srcs.append("\n".join(lines) + "\n")
        cases.append((srcs, None))
    jobs = [{"kind": "asm", "sources": s, "names": ["/t/m%d.mac" % i for i in range(len(s))], "listing": True, "symbols": True} for s, _ in cases]
    res = driver.native(jobs, driver.tree_root())
    bad = []
    for (srcs, _), r in zip(cases, res):
        if r["status"] != "ok":
            bad.append((srcs, r["status"]))
            continue
        lst = r["listing"]
        blocks = [b for b in lst.split("\n\n") if b.strip()]
        seen = {}
        for b in blocks:
            lines = b.split("\n")
            fname, rows = lines[0], lines[1:]
            prev = None
            for row in rows:
                num, _, nm = row.partition(" ")
                try:
                    v = int(num, 8)
                except ValueError:
                    bad.append((fname, row, "numeral does not read back"))
                    continue
                if len(num) < 6:
                    bad.append((fname, row, "field narrower than 6"))
                if prev is not None and (v, nm) < prev:
                    bad.append((fname, row, "order"))
                prev = (v, nm)
                seen[(fname, nm.lower())] = v
        want = {}
        for k, v in r["symbols"].items():
            if k.startswith(".internal"):
                m, _, nm = k[9:].partition(".")
                want[("/t/m%d.mac" % (int(m) - 1), nm.lower())] = v
        if seen != want:
            bad.append(("listed symbols differ from the symbol table", sorted(set(seen.items()) ^ set(want.items()))[:4]))
    # every listed label address is the address at which the byte following the label lies in the image: label Lk is followed by '.byte k';
    # between the labels every kind of statement, also the operand-less forms of the data directives, in 1-3 files, link base given or not
    fillers = ["nop", ".word", ".dword", ".byte", ".blkb 3", '.ascii "ab"', ".word 1, 2", "mov #1, r0", ".align 4", ".odd", ".dw", ".db", ".blkw 2", ".repeat 2 { .byte 7 }", "clr @#L1", ".word L0 - ."]
    pjobs, pmeta = [], []
    for t in range(10):
        k, srcs = 0, []
        for f in range(rnd.randrange(1, 4)):
            lines = [".link %o" % rnd.choice([0o2000, 0o40000])] if (f == 0 and rnd.random() < 0.4) else []
            for _ in range(rnd.randrange(2, 7)):
                if rnd.random() < 0.5 or k < 2:
                    lines.append("L%d:: .byte %d." % (k, k + 1))
                    k += 1
                else:
                    fl = rnd.choice(fillers)
                    if not fl.startswith((".byte", ".db", ".blkb", ".ascii", ".odd", ".align", ".repeat")):
                        lines.append(".even")
                    lines.append(fl)
            srcs.append("\n".join(lines) + "\n")
        pjobs.append({"kind": "asm", "sources": srcs, "names": ["/t/p%d.mac" % i for i in range(len(srcs))], "listing": True})
        pmeta.append(k)
    # fixed: every filler once between two labels, base left to the default and given
    for pre in ("", ".link 3000\n"):
        lines = []
        for i, fl in enumerate(fillers):
            lines.append("L%d:: .byte %d." % (i, i + 1))
            if not fl.startswith((".byte", ".db", ".blkb", ".ascii", ".odd", ".align", ".repeat")):
                lines.append(".even")
            lines.append(fl)
        lines.append("L%d:: .byte %d." % (len(fillers), len(fillers) + 1))
        half = len(lines) // 2
        pjobs.append({"kind": "asm", "sources": [pre + "\n".join(lines[:half]) + "\n", "\n".join(lines[half:]) + "\n"], "names": ["/t/p0.mac", "/t/p1.mac"], "listing": True})
        pmeta.append(len(fillers) + 1)
    pres = driver.native(pjobs, driver.tree_root())
    for j, k, r in zip(pjobs, pmeta, pres):
        if r["status"] != "ok":
            bad.append((j["sources"], r["status"], [d[1] for d in r.get("diags", [])][:2]))
            continue
        img = bytes.fromhex(r["code_hex"])
        listed = {}
        for row in r["listing"].split("\n"):
            num, _, nm = row.partition(" ")
            if nm.startswith("L") and nm[1:].isdigit():
                listed.setdefault(nm, []).append(int(num, 8))
        for i in range(k):
            a = listed.get("L%d" % i)
            if a is None or len(a) != 1:
                bad.append((j["sources"], "L%d" % i, "listed %s times" % (0 if a is None else len(a))))
            elif not (0 <= a[0] - r["base"] < len(img)) or img[a[0] - r["base"]] != i + 1:
                bad.append((j["sources"], "L%d listed at %o: the byte there is %s, the byte following the label is %d" % (i, a[0], img[a[0] - r["base"]] if 0 <= a[0] - r["base"] < len(img) else "outside the image", i + 1)))
    ob = dict(label="listing-of-multi-file-programs-with-negative-and-wide-constants-reads-back-as-the-symbol-table;listed-label-addresses-hold-the-byte-following-the-label", kind="rac", status="proved" if not bad else "failed", secs=0.0,
              path=[], witness=None, detail=str(bad[:4]), events=[], smt2=None, backend="cpython-native", unit="listing-rac", func="Compiler.generate_listing (run-time check)",
              cases=len(cases) + len(pjobs), cfg=dict(kind="rac"))
    return dict(unit="listing-rac", func="Compiler.generate_listing (run-time check)", paths=len(cases) + len(pjobs), obligations=[ob], wall=0.0)


def units(tier):
    us = [("rac", "unit_rac", {})]
    atoms = [("i", 1), ("i", 2), ("l",)]
    shapes = [()]
    for k in (1, 2, 3):
        shapes += list(itertools.product(atoms, repeat=k))
    if tier == "quick":
        shapes = [s for s in shapes if len(s) <= 2] + [(("i", 1), ("i", 2), ("i", 1))]
    for sh in shapes:
        us.append(("listing[%s]" % ",".join("".join(map(str, e)) for e in sh), "unit_listing", dict(shape=sh)))
    # where the listing is written: main_cli --lst for every output selector
    for of in (None, "out.bin", "dir.x/OUT.BIN", "out", "dir/out.raw", "-", "-.bin", "a.wav"):
        for ne in (0, 1, 2):
            us.append(("main_cli[%s,lst,%d]" % (of, ne), "unit_main_cli", dict(outfile_kind=of, lst=True, implicit_bin=False, n_emitted=ne)))
    us.append(("main_cli[implicit-bin,lst]", "unit_main_cli", dict(outfile_kind=None, lst=True, implicit_bin=True, n_emitted=0)))
    # a listed label address is where the following byte lies only if every statement before it announces the size it emits: the sized sites
    # of the data directives (site obligations are issued automatically in these units; the full accounting invariant is C02's)
    for cmd in c06.WIDTH:
        for n in (0, 1, 2):
            us.append(("site[%s,%d]" % (cmd, n), "unit_data", dict(cmd=cmd, n=n)))
    for cmd in (".blkb", ".blkw", ".even", ".odd", ".align"):
        us.append(("site[%s]" % cmd, "unit_fill", dict(cmd=cmd)))
    # whole programs: the statement holds wherever a statement stands (repeat body, included / linked file, any block) - contracts/structure.py
    us += structure.units()
    us += structure.kernel_units()
    return us


def canary(eng):
    def run(eng):
        eng.I = {}
        return None

    def post(eng, o):
        v = z3.Int("v")
        eng.prove("canary-negative-numeral-without-sign-handling", octval(z3.Concat(z3.StringVal("o"), octstr(-v))) == v)
    return verify(eng, "canary", run, post, func="canary")


def _neg_listing(tree):
    job = {"kind": "asm", "sources": ["a = -5\nb = 7\n"], "names": ["/t/m.mac"], "listing": True}
    r = driver.native([job], tree)[0]
    lst = r.get("listing", "")
    ok = True
    rows = [l for l in lst.split("\n")[1:] if l.strip()]
    vals = []
    for row in rows:
        try:
            vals.append(int(row.split(" ")[0], 8))
        except ValueError:
            ok = False
    return dict(jobs=[job], expected="every numeral reads back in base 8: values [-5, 7]", observed=rows, reproduced=not ok or sorted(vals) != [-5, 7])


def _include_listing(tree):
    """a file that defines symbols before AND after including another file that defines symbols: every symbol once, under its own file"""
    import shutil
    import subprocess
    import tempfile
    d = tempfile.mkdtemp(prefix="pyvc-lst-")
    try:
        open(os.path.join(d, "main.mac"), "w").write('a = 1\nstart: nop\n.include "inc.mac"\nz = 2\nlast: nop\nneg = -3\n')
        open(os.path.join(d, "inc.mac"), "w").write("q = 3\nil: nop\n")
        p = subprocess.run(["/venv/bin/python", "-c", "import sys; sys.path.insert(0, %r); sys.argv = ['pdpy11', 'main.mac', '--lst', '-o', 'out.bin']; from pdpy11._cli import main_cli; main_cli()" % tree],
                           cwd=d, capture_output=True, text=True, timeout=120)
        lst = open(os.path.join(d, "out.lst")).read() if os.path.exists(os.path.join(d, "out.lst")) else ""
        got = {}
        for block in [b for b in lst.split("\n\n") if b.strip()]:
            lines = block.split("\n")
            got[os.path.basename(lines[0])] = sorted(l.split(" ", 1)[1] for l in lines[1:] if " " in l)
        want = {"main.mac": sorted(["a", "start", "z", "last", "neg"]), "inc.mac": sorted(["q", "il"])}
        return dict(jobs=None, experiment="main.mac with symbols before and after '.include \"inc.mac\"', CLI --lst", expected=want, observed=got, exit=p.returncode, reproduced=got != want)
    finally:
        shutil.rmtree(d, ignore_errors=True)


def replay(o, tree):
    r_ = None if o.get("_shared_replay") else structure.replay(dict(o, _shared_replay=True), tree)
    if r_ is not None and r_.get("reproduced"):
        return r_
    import os
    if o.get("unit", "").startswith("generate_listing["):
        r = _include_listing(tree)
        if r["reproduced"]:
            return r
    if o.get("unit", "").startswith("main_cli["):
        from contracts import cli_c
        r = cli_c.replay_cli(o, tree)
        if r is not None and r["reproduced"]:
            return r
    r = _neg_listing(tree)
    if r["reproduced"]:
        return r
    old = os.environ.get("PDPY11_SRC")
    os.environ["PDPY11_SRC"] = tree
    try:
        rr = unit_rac(None)["obligations"][0]
    finally:
        if old is None:
            os.environ.pop("PDPY11_SRC", None)
        else:
            os.environ["PDPY11_SRC"] = old
    return dict(jobs=None, experiment="listings of multi-file programs read back against the symbol table", observed=rr["detail"][:600], reproduced=rr["status"] == "failed")


def witness_D2(tree):
    r = _neg_listing(tree)
    return r["reproduced"], "a = -5 is listed as %s" % (r["observed"],)


def witness_D12(tree):
    from contracts import c07
    return c07.witness_D12(tree)


def witness_D8(tree):
    from contracts import c13
    return c13.witness_D8(tree)


FINDING_WITNESS = {"D2": witness_D2, "D12": witness_D12, "D8": witness_D8}
