"""Contracts on symbol definition and lookup (compiler.py, types.py, metacommands.extern), shared by C03, C10, C11.

The two tables are the real CaseInsensitiveDict objects whose underlying dict is a SymMap: explicit insertions of this path over an
ARBITRARY prior content, with symbolic (z3 String) names.  Ghost for C03: `later(key)` - the key will be inserted after this call."""
import z3
from contracts.common import *  # noqa
from contracts import common
from contracts.compiler_c import compiler_obj, link_base
from contracts.meta_c import run_meta
from pyvc import driver
from pyvc.engine import SymMap, strlower, BUILTINS

REGS = ("r0", "r1", "r2", "r3", "r4", "r5", "r6", "r7", "sp", "pc")


def sym_tables(eng, comp, empty=False):
    """replace the underlying dicts of comp.symbols / comp.extern_symbols_mapping by SymMaps"""
    def sym_value(eng_, key):
        return (Obj("PriorDefinition", name="prior-def"), Lazy(eng_.fresh_int("prior_value"), "int"))

    def ext_value(eng_, key):
        # a prior export: (location, key of the exported symbol)
        k = z3.String("prior_export_key!%d" % eng_.fresh_n)
        eng_.fresh_n += 1
        return (Obj("PriorExport", name="prior-export"), k)
    S = SymMap("symbols", lambda e, k: ("rawkey", sym_value(e, k)), empty)
    X = SymMap("externs", lambda e, k: ("rawkey", ext_value(e, k)), empty)
    comp.attrs["symbols"].attrs["container"] = S
    comp.attrs["extern_symbols_mapping"].attrs["container"] = X
    return S, X


def prefixes(eng):
    p, m = int_input(eng, "local_no"), int_input(eng, "internal_no")
    eng.assume(z3.And(p >= 1, m >= 1))
    lp = z3.Concat(z3.StringVal(".local"), z3.IntToStr(p), z3.StringVal("."))
    ip = z3.Concat(z3.StringVal(".internal"), z3.IntToStr(m), z3.StringVal("."))
    return lp, ip


def name_input(eng, tag="name"):
    n = z3.String(tag)
    eng.inputs[tag] = n
    eng.assume(z3.Length(n) >= 1)
    return n


def mk_state(eng, comp, extern_all=None):
    lp, ip = prefixes(eng)
    lb, p, sig = link_base(eng, False)
    lst = []
    return {"insn": insn_token(eng, "x"), "compiler": comp, "local_symbol_prefix": lp, "internal_symbol_prefix": ip, "link_base": lb, "filename": "f.mac",
            "internal_symbols_list": lst, "extern_all": extern_all, "emit_address": Lazy(int_input(eng, "here"), "int"), "context": "file"}, lp, ip


def key(prefix, name):
    return strlower(z3.Concat(prefix, name))


# ------------------------------------------------------------------ compile_label / compile_assignment
def unit_define(eng, what, local, is_extern, extern_all, addr_kind="lazy"):
    """what: 'label' | 'assignment'; addr_kind: how the label's address arrives - 'lazy' (not known yet), 'int', or 'poly-const' (a real
    LinearPolynomial whose variables have all folded away: the link base was already known)"""
    name = "compile_%s[%s,extern=%s,extern_all=%s]" % (what, "local" if local else "ordinary", is_extern, extern_all)
    if addr_kind != "lazy":
        name = name[:-1] + ",address=%s]" % addr_kind

    def run(eng):
        use_callee_contracts(eng, "wait")
        eng.I = {}
        comp = compiler_obj(eng)
        S, X = sym_tables(eng, comp)
        nm = name_input(eng)
        ea = mk_token(eng, "Symbol", name="all", is_necessarily_label=False) if extern_all else None
        state, lp, ip = mk_state(eng, comp, ea)
        exported = []
        comp.attrs["declare_external_symbol"] = Builtin("declare_external_symbol(contract)", lambda e, location, n, st: exported.append((location, n, st)))
        if what == "label":
            tok = mk_token(eng, "Label", name=nm, local=local, is_extern=is_extern)
            av = int_input(eng, "addr")
            if addr_kind == "lazy":
                addr = Lazy(av, "int")
            elif addr_kind == "int":
                addr = av
            else:
                from contracts.deferred_c import dcls, INT
                eng.real_deferred = True
                addr = eng.call(dcls(eng, "LinearPolynomial"), [INT, {}, av], {})
            eng.I.update(tok=tok, addr=addr, av=av)
            args = [tok, addr, state]
            fn = "compile_label"
        else:
            val = int_input(eng, "val")
            vt = value_token(eng, val, "value")
            tok = mk_token(eng, "Assignment", target=mk_token(eng, "Symbol", name=nm, is_necessarily_label=False), value=vt, is_extern=is_extern)
            eng.I.update(tok=tok, val=val)
            args = [tok, state]
            fn = "compile_assignment"
        eng.I.update(S=S, X=X, nm=nm, lp=lp, ip=ip, state=state, exported=exported, ea=ea, n0=len(S.entries))
        return eng.call(eng.getattr(comp, fn), args, {})

    def post(eng, o):
        I = eng.I
        kind, val = o
        eng.prove("no-exception", kind == "return")
        if kind != "return":
            return
        S, nm = I["S"], I["nm"]
        k = key(I["lp"] if (what == "label" and local) else I["ip"], nm)
        errs = [e[1] for e in errors(eng)]
        new = S.entries[I["n0"]:]
        was_there = S.has0(k)
        if errs:
            eng.prove("duplicate-definition-is-an-error-and-only-that", z3.And(was_there, errs == ["duplicate-symbol"]))
            eng.prove("duplicate-definition-changes-no-table", new == [] and I["exported"] == [] and I["state"]["internal_symbols_list"] == [])
            return
        eng.prove("accepted-only-when-the-visible-name-was-free", z3.Not(was_there))
        eng.prove("exactly-one-insertion", len(new) == 1)
        if len(new) != 1:
            return
        k_ins, (orig_key, (defn, value)) = new[0]
        eng.prove("inserted-under-the-key-of-its-scope(local scope prefix for numeric labels, file prefix otherwise)-case-folded", k_ins == k)
        eng.prove("bound-to-its-own-definition", defn is I["tok"])
        if what == "label":
            if addr_kind == "lazy":
                eng.prove("label-value-is-the-address-object-it-was-given", value is I["addr"])
            else:
                v_ = value.attrs["constant_term"] if isinstance(value, Obj) else value
                eng.prove("label-value-is-exactly-the-address-it-was-given(not reduced, not re-based: addresses past 0o177777 stay what they are)", v_ == I["av"])
        else:
            eng.prove("symbol-value-denotes-the-definition's-expression-in-the-definition-site-state", view(eng, value) == I["val"])
            eng.prove("symbol-value-is-bound-through-a-Deferred(a definition that mentions later symbols must not fail or bind early)", getattr(eng.path, "n_deferred", 0) >= 1)
        want_exports = []
        if is_extern:
            want_exports.append(I["tok"])
        elif extern_all and not (what == "label" and local):
            want_exports.append(I["ea"])          # exported once: by its own marker, or else by the '.extern all' in force
        eng.prove("exported-exactly-once-iff-marked-:: / == or-under-.extern all", [e[0] for e in I["exported"]] == want_exports and all(e[1] is nm and e[2] is I["state"] for e in I["exported"]))
        eng.prove("ordinary-symbols-are-recorded-for-a-later-.extern all", I["state"]["internal_symbols_list"] == ([] if (what == "label" and local) else [nm]))
    r = verify(eng, name, run, post, func="compiler.Compiler.compile_%s" % what)
    for o in r["obligations"]:
        o["cfg"] = dict(kind="define", what=what, local=local)
    return r


def unit_declare_external(eng):
    def run(eng):
        eng.I = {}
        comp = compiler_obj(eng)
        S, X = sym_tables(eng, comp)
        nm = name_input(eng)
        state, lp, ip = mk_state(eng, comp)
        loc = mk_token(eng, "Label", name=nm, local=False, is_extern=True)
        eng.I.update(X=X, nm=nm, ip=ip, loc=loc, n0=len(X.entries))
        return eng.call(eng.getattr(comp, "declare_external_symbol"), [loc, nm, state], {})

    def post(eng, o):
        I = eng.I
        eng.prove("no-exception", o[0] == "return")
        if o[0] != "return":
            return
        X, nm = I["X"], I["nm"]
        new = X.entries[I["n0"]:]
        errs = [e[1] for e in errors(eng)]
        if errs:
            eng.prove("second-export-of-a-name-is-an-error-and-leaves-the-mapping-unchanged", z3.And(X.has0(strlower(nm)), errs == ["duplicate-symbol"], new == []))
        else:
            eng.prove("first-export-maps-the-case-folded-name-to-(location, file-prefix + name)", z3.And(z3.Not(X.has0(strlower(nm))), len(new) == 1 and new[0][0].eq(strlower(nm))
                                                                                                    and new[0][1][1][0] is I["loc"]))
            if len(new) == 1:
                eng.prove("exported-key-is-the-defining-file's-prefix+name", new[0][1][1][1] == z3.Concat(I["ip"], nm))
    return verify(eng, "declare_external_symbol", run, post, func="compiler.Compiler.declare_external_symbol")


# ------------------------------------------------------------------ Symbol._resolve (A.5)
later = z3.Function("defined_later", z3.StringSort(), z3.BoolSort())      # prophecy: the key is inserted into `symbols` after this call
later_x = z3.Function("exported_later", z3.StringSort(), z3.BoolSort())


def unit_resolve(eng, speculative, digit_name):
    """Symbol._resolve for a name that is not a register; digit_name: the name is a numeric local label (A2: only those live in the local scope)"""
    name = "Symbol._resolve[%s,%s]" % ("speculative" if speculative else "final", "local-label" if digit_name else "ordinary")

    def run(eng):
        eng.I = {}
        comp = compiler_obj(eng)
        S, X = sym_tables(eng, comp)
        nm = name_input(eng)
        state, lp, ip = mk_state(eng, comp)
        tok = mk_token(eng, "Symbol", name=nm, is_necessarily_label=True)       # not subject to the register check
        eng.assume(z3.Not(z3.Or([strlower(nm) == z3.StringVal(r) for r in REGS])))

        def c_not_ready(eng_):
            if speculative:
                raise PyRaise(Exc("NotReadyError"))
        eng.contracts["not_ready"] = c_not_ready
        k_loc, k_int = key(lp, nm), key(ip, nm)
        # name classes (A2): a numeric local label is never defined under the file prefix and vice versa - now or later
        if digit_name:
            eng.assume(z3.And(z3.Not(S.has0(k_int)), z3.Not(later(k_int))))
        else:
            eng.assume(z3.And(z3.Not(S.has0(k_loc)), z3.Not(later(k_loc))))
        if not speculative:
            # the final pass runs after every definition and export has been made
            j = z3.String("anykey")
            eng.assume(z3.ForAll([j], z3.And(z3.Not(later(j)), z3.Not(later_x(j)))))
        # tables only grow: a key present now is not 'defined later'
        eng.assume(z3.Implies(S.has0(k_loc), z3.Not(later(k_loc))))
        eng.assume(z3.Implies(S.has0(k_int), z3.Not(later(k_int))))
        eng.I.update(S=S, X=X, nm=nm, k_loc=k_loc, k_int=k_int, tok=tok)
        return eng.call(eng.getattr(tok, "_resolve"), [state], {})

    def post(eng, o):
        I = eng.I
        kind, val = o
        S, X, nm = I["S"], I["X"], I["nm"]
        own = I["k_loc"] if digit_name else I["k_int"]
        own_now = S.has0(own)
        own_final = z3.Or(own_now, later(own))
        errs = [e[1] for e in errors(eng)]
        if kind == "raise":
            eng.prove("only-NotReadyError-and-only-speculatively", val.cls == "NotReadyError" and speculative)
            eng.prove("not-ready-only-when-the-own-scope-has-no-definition-yet", z3.Not(own_now))
            return
        if errs:
            eng.prove("undefined-symbol-only-in-the-final-pass-when-nothing-visible-exists", z3.And(z3.BoolVal(not speculative), z3.Not(own_final), errs == ["undefined-symbol"]))
            eng.prove("undefined-symbol-yields-(None, 0)", val[0] is None and val[1] == 0)
            return
        # a binding was returned: it must be the binding in the FINAL tables: own scope first (local scope / own file), exported symbol otherwise
        memo_own = S.memo.get(own.get_id())
        is_own = memo_own is not None and val is memo_own[1][1]
        region = z3.And(z3.Not(own_now), later(own)) if "D9" in common.ACTIVE_FINDINGS else None
        if is_own:
            eng.prove("binding-from-the-own-scope-is-final(tables only grow)", own_now)
        else:
            eng.prove("exported-binding-is-returned-only-when-the-own-file-never-defines-the-name(own definition takes precedence, in either order)", z3.Not(own_final), region=region)
            eng.prove("exported-binding-follows-the-extern-mapping-only(never a private symbol of another file)", X.has0(strlower(nm)))
    r = verify(eng, name, run, post, func="types.Symbol._resolve")
    for o in r["obligations"]:
        o["cfg"] = dict(kind="resolve", speculative=speculative)
    return r


def unit_resolve_register(eng):
    out = []
    for rn in REGS + ("R3", "Sp"):
        for lab in (False, True):
            def run(eng, rn=rn, lab=lab):
                eng.I = {}
                comp = compiler_obj(eng)
                S, X = sym_tables(eng, comp)
                state, lp, ip = mk_state(eng, comp)
                eng.contracts["not_ready"] = lambda e: None
                tok = mk_token(eng, "Symbol", name=rn, is_necessarily_label=lab)
                return eng.call(eng.getattr(tok, "_resolve"), [state], {})

            def post(eng, o, lab=lab):
                if not lab:
                    eng.prove("a-register-name-used-as-a-value-is-unexpected-register", o[0] == "raise" and o[1].cls == "RecoverableError" and [e[1] for e in errors(eng)] == ["unexpected-register"])
                else:
                    eng.prove("with-a-colon-it-is-an-ordinary-label-lookup", "unexpected-register" not in [e[1] for e in errors(eng)])
            out.append(verify(eng, "Symbol._resolve[%s%s]" % (rn, ":" if lab else ""), run, post, func="types.Symbol._resolve"))
    return out


# ------------------------------------------------------------------ compile_file: fresh file prefix
def unit_compile_file(eng):
    def run(eng):
        eng.fstring_ints = True
        eng.I = {}
        comp = compiler_obj(eng)
        M = int_input(eng, "next_internal")
        eng.assume(M >= 1)
        comp.attrs["next_internal_symbol_prefix"] = M
        rec = {}
        comp.attrs["compile_block"] = Builtin("compile_block(contract)", lambda e, state, block, start: rec.update(state=state, block=block, start=start) or b"")
        f = Obj("File", dict(filename="a.mac", body=Obj("Body", name="body")), name="file")
        start, lb = Lazy(int_input(eng, "start"), "int"), {"promise": None}
        eng.I.update(comp=comp, M=M, rec=rec, f=f, start=start, lb=lb)
        return eng.call(eng.getattr(comp, "compile_file"), [f, start, lb], {})

    def post(eng, o):
        I = eng.I
        eng.prove("no-exception", o[0] == "return")
        if o[0] != "return":
            return
        st = I["rec"]["state"]
        eng.prove("file-gets-the-fresh-prefix-.internal<m>.-and-the-counter-moves-on", z3.And(st["internal_symbol_prefix"] == z3.Concat(z3.StringVal(".internal"), z3.IntToStr(I["M"]), z3.StringVal(".")),
                                                                                        I["comp"].attrs["next_internal_symbol_prefix"] == I["M"] + 1))
        eng.prove("state-carries-file-name-compiler-link-base-and-fresh-export-bookkeeping", st["filename"] == "a.mac" and st["compiler"] is I["comp"] and st["link_base"] is I["lb"]
                  and st["internal_symbols_list"] == [] and st["extern_all"] is None and st["context"] == "file")
        reg = I["comp"].attrs["internal_prefix_to_state"].get("__symkeys__", [])
        eng.prove("prefix-number-maps-back-to-this-file's-state(listing)", len(reg) == 1 and reg[0][0] is I["M"] and reg[0][1] is st)
        eng.prove("body-compiled-from-the-given-start", I["rec"]["block"] is I["f"].attrs["body"] and I["rec"]["start"] is I["start"])
        eng.prove("inclusion-count-incremented-once", I["comp"].attrs["times_file_compiled"]["a.mac"] == 1)
    return verify(eng, "compile_file", run, post, func="compiler.Compiler.compile_file")


# ------------------------------------------------------------------ .extern
def unit_extern(eng, shape):
    """shape: tuple over {'sym', 'all', 'bad'}"""
    name = ".extern[%s]" % ",".join(shape)

    def run(eng):
        eng.I = {}
        comp = compiler_obj(eng, output_charset="CHARSET")
        sym_tables(eng, comp)            # arbitrary prior content of both tables: other files may have defined / exported anything, also these very names
        calls = []
        comp.attrs["declare_external_symbol"] = Builtin("declare_external_symbol(contract)", lambda e, location, n, st: calls.append((location, n, st)))
        toks = []
        for i, k in enumerate(shape):
            if k == "sym":
                nm = name_input(eng, "n%d" % i)
                eng.assume(strlower(nm) != z3.StringVal("all"))
                toks.append(mk_token(eng, "Symbol", name=nm, is_necessarily_label=False))
            elif k == "all":
                toks.append(mk_token(eng, "Symbol", name="ALL", is_necessarily_label=False))
            else:
                toks.append(value_token(eng, 1, "notasymbol"))
        prior = [name_input(eng, "p0"), name_input(eng, "p1")]
        eng.I.update(calls=calls, toks=toks, prior=prior)
        return run_meta(eng, ".extern", toks, extra_state={"internal_symbols_list": list(prior)}, comp=comp)

    def post(eng, o):
        I = eng.I
        eng.prove("no-exception", o[0] == "return")
        if o[0] != "return":
            return
        want = []
        for k, t in zip(shape, I["toks"]):
            if k == "sym":
                want.append((t, t.attrs["name"]))
            elif k == "all":
                want += [(t, p) for p in I["prior"]]
        got = [(c[0], c[1]) for c in I["calls"]]
        eng.prove("exports-each-named-symbol-and-for-'all'-every-ordinary-symbol-defined-so-far-in-order", len(got) == len(want) and all(g[0] is w[0] and g[1] is w[1] for g, w in zip(got, want)))
        all_tok = [t for k, t in zip(shape, I["toks"]) if k == "all"]
        eng.prove("'.extern all'-arms-export-of-later-definitions-with-its-own-token-as-the-location-to-report", (I["state"]["extern_all"] is all_tok[-1]) if all_tok else not I["state"]["extern_all"])
        eng.prove("non-symbol-operand-is-a-meta-type-mismatch-error", [e[1] for e in errors(eng)] == ["meta-type-mismatch"] * shape.count("bad"))
        eng.prove("emits-nothing", slen(zbytes(o[1])) == 0)
    return verify(eng, name, run, post, func="metacommands.extern")


# ------------------------------------------------------------------ key collision lemma
def unit_key_lemma(eng):
    def run(eng):
        eng.I = {}
        return None

    def post(eng, o):
        n, m = z3.Ints("n m")
        a, b = z3.String("a"), z3.String("b")
        L = lambda k, x: z3.Concat(z3.StringVal(".local"), z3.IntToStr(k), z3.StringVal("."), x)  # noqa
        G = lambda k, x: z3.Concat(z3.StringVal(".internal"), z3.IntToStr(k), z3.StringVal("."), x)  # noqa
        pos = z3.And(n >= 0, m >= 0)
        eng.prove("local-and-file-keys-never-collide", z3.Implies(pos, L(n, a) != G(m, b)))
        eng.prove("a-user-symbol-never-collides-with-a-prefixed-key(names do not start with a dot)", z3.Implies(z3.And(pos, z3.Not(z3.PrefixOf(z3.StringVal("."), b))), z3.And(L(n, a) != b, G(n, a) != b)))
    r = verify(eng, "key-lemma", run, post, func="lemma: symbol-table keys")
    for o in r["obligations"]:
        o["kind"] = "lemma"
    return r


def unit_key_lemma_inj(eng):
    def run(eng):
        eng.I = {}
        return None

    def post(eng, o):
        n, m = z3.Ints("n m")
        a, b = z3.String("a"), z3.String("b")
        L = lambda k, x: z3.Concat(z3.StringVal(".local"), z3.IntToStr(k), z3.StringVal("."), x)  # noqa
        eng.prove("different-scope-numbers-give-different-keys-for-the-same-name", z3.Implies(z3.And(n >= 0, m >= 0, n != m), L(n, a) != L(m, a)))
    r = verify(eng, "key-lemma-injective", run, post, func="lemma: symbol-table keys")
    for o in r["obligations"]:
        o["kind"] = "lemma"
    return r
