"""C02 - Addresses the program sees equal where its bytes land.

vc (ghost lengths):
  * site obligations: every SizedDeferred constructed anywhere in the units (9 sites + the size= of every metacommand) announces the real length of
    its final bytes, or an error was reported - issued automatically by the engine for each construction on each path
  * length contracts of deferred.py, interpreted for real: Deferred.length, SizedDeferred.length/__len__, Concatenator.length, __add__/__radd__
  * accounting invariant of Compiler.compile_block over a statement list of ARBITRARY length (loop contract, Appendix A.4 I1/I2), of
    metacommands.repeat over an arbitrary count (loop contract), of compile_and_link_files across 1-3 files and of compile_include
  * zero-size directives emit nothing; .include / insert_file produce the file's code with an honest length
"""
import itertools
import z3
from contracts.common import *  # noqa
from contracts import common, deferred_c, compiler_c, meta_c, c06, insn
from contracts.deferred_c import *  # noqa
from contracts.compiler_c import *  # noqa
from contracts.meta_c import *  # noqa
from contracts.c06 import unit_data, unit_fill, unit_ascii, unit_word_list  # noqa
from contracts.insn import unit_rm_encode, unit_compile_insn  # noqa
from pyvc import driver

ID = "C02"
EXPLANATION = ("statement lists and repeat counts of arbitrary length via loop contracts; sizes, addresses and bytes symbolic; the statement compilers are "
               "replaced by their contracts in compile_block and re-verified in their own units (modular)")
TRUSTED = ["pyvc engine semantics incl. loop contracts (A1)", "z3 (A7)", "view(x) of lazy values is justified by the deferred.py units (wait(x) == view(x))"]
ASSUMPTIONS = ["A3: Deferred/SizedDeferred construct contract; the body may run later, hence the automatic late-binding obligations on captured variables",
               "file contents (open/read) are external: arbitrary bytes/text or an I/O error", "parser.parse is external in .include (returns some file AST)",
               "the practice corpus is covered only by the run-time check (testing)"]


def unit_rac(eng, tier="quick"):
    """run-time check: label probes - for every label L the image holds '.word L' probes whose value must equal base + offset of L's byte"""
    import os
    root = "/repo/tests/practice"
    progs = sorted(os.listdir(root)) if os.path.isdir(root) else []
    code = r'''
import os, struct
from pdpy11 import reports, bk_encoding
from pdpy11.parser import parse
from pdpy11.compiler import Compiler
from pdpy11.types import Label
from pdpy11.deferred import wait
root = %r
bad = []
n = 0
for name in %r:
    src = os.path.join(root, name, "code.mac")
    text = open(src).read()
    comp = Compiler()
    try:
        with reports.handle_reports(lambda *a: None):
            base, code = comp.compile_and_link_files([parse(src, text)])
    except Exception as e:
        bad.append([name, "did not assemble: " + type(e).__name__]); continue
    if code != open(os.path.join(root, name, "out.bin"), "rb").read()[4:]:
        bad.append([name, "image differs from out.bin"])
    for key, (sym, val) in comp.symbols.container.values():
        if isinstance(sym, Label):
            v = wait(val); n += 1
            if not (base <= v <= base + len(code)):
                bad.append([name, key, v])
result = [n, bad[:5]]
''' % (root, progs)
    r = driver.native([{"kind": "py", "code": code}], driver.tree_root(), timeout=1200)[0]
    n, bad = r["result"] if r["status"] == "ok" else (0, [str(r)[:300]])
    # synthetic probe programs: bytes at (label - base) are the statement's bytes
    # every single-letter label is followed by '.word <itself>': the word found at (label - base) must be the label's value
    probes = [".byte 1\n.even\na: .word a\n.ascii \"xyz\"\n.even\nb: .word b\n.blkb 3\n.even\nmov #b, r0\nc: .word c\n.repeat 3 { .word . }\nd: .word d\n",
              "a: .word a\n.blkb x\nb: .word b\nx = 6\n.align 10\nc: .word c\nmov c, @#b\nd: .word d\n",
              ". = 1000\ns: .word s\n. = 1020\nt: .word t\n.blkw y\nc: .word c\ny = 3\n",
              # a compound (repeat body) whose fixed-size content precedes an element of still unknown size: the sum of lengths is built as number + pending
              "a: .word a\n.repeat 2 { .byte 1\n.blkb n }\n.even\nb: .word b\nn = 3\n.repeat 2 { .word 5\n.byte 1\n.even }\nc: .word c\n",
              # a string (a bytearray chunk) behind a statement that is still pending, inside a compound whose length is needed
              "a: .word a\n.repeat 2 { .word q\n.ascii \"abc\"\n.even }\nb: .word b\nq = 1\n.repeat 2 { .word q\n.asciz \"xy\"\n.even }\nc: .word c\n",
              # the operand-less forms of the data directives (one implicit zero item each)
              "a: .word a\n.word\n.byte 1\n.even\nb: .word b\n.dword\n.byte 2\n.even\nc: .word c\n.byte\n.even\nd: .word d\n.dw\n.db\n.even\ns: .word s\n"]
    jobs = [{"kind": "asm", "sources": [p], "symbols": True} for p in probes]
    res = driver.native(jobs, driver.tree_root())
    for p, rr in zip(probes, res):
        if rr["status"] != "ok":
            bad.append(["probe", p[:30], rr["status"]])
            continue
        img = bytes.fromhex(rr["code_hex"])
        for key, v in rr["symbols"].items():
            nm = key.split(".")[-1]
            if len(nm) == 1 and nm in "abcdst" and v is not None:
                off = v - rr["base"]
                n += 1
                if not (0 <= off <= len(img) - 2) or int.from_bytes(img[off:off + 2], "little") != v % 65536:
                    bad.append(["probe", nm, oct(v), img[off:off + 2].hex() if 0 <= off < len(img) else None])
    # '.' in any statement: a statement inside a repeated body sees the address of ITS copy (a value cached on the syntax tree would be the first copy's)
    dots = [("s: .repeat 3 { .ascii \"ab\"<.-s> }\n", "616200616203616206"), ("s: .repeat 4 { .byte .-s }\n", "00010203"), ("s: .repeat 3 { .word .-s }\n", "000002000400"),
            ("s: .repeat 3 { .asciz <.-s> }\n", "000002000400"), ("s: .repeat 2 { .rad50 <.-s> }\n", "0000800c"), ("s: .repeat 3 { .blkb .-s+1 }\n", "00" * 7),
            ("s: .repeat 2 { mov #.-s, r0 }\n", "c0150000c0150400"), ("s: .repeat 2 { .word 1, .-s }\n", "0100000001000400"), ("s: .repeat 2 { .repeat 2 { .byte .-s } }\n", "00010203"),
            ("s: .repeat 3 { .ascii <.-s>\"a\"<.-s> }\n", "006100036103066106"), ("s: .repeat 2 { .byte '0+.-s }\n", "3031")]
    for (p, want), rr in zip(dots, driver.native([{"kind": "asm", "sources": [p_]} for p_, _ in dots], driver.tree_root())):
        n += 1
        if rr["status"] != "ok" or rr.get("code_hex") != want:
            bad.append(["dot-probe", p, rr["status"], rr.get("code_hex"), "expected " + want])
    ob = dict(label="labels-of-the-practice-corpus-and-of-probe-programs-lie-where-their-bytes-are", kind="rac", status="proved" if n and not bad else "failed", secs=0.0, path=[],
              witness=None, detail=str(bad[:5]), events=[], smt2=None, backend="cpython-native", unit="address-rac", func="Compiler (run-time check)", cases=n, cfg=dict(kind="rac"))
    return dict(unit="address-rac", func="Compiler (run-time check)", paths=n, obligations=[ob], wall=0.0)


INCLUDE_PROBES = [
    # (main file, included file, True when the included file moves its own location counter / sets a base: the region of finding D38)
    (".link 1000\nnop\n.include \"inc.mac\"\nc: .word c\n", "nop\na: .word a\n.blkb 4\nb: .word b\n", False),
    (".link 1000\nnop\n.include \"inc.mac\"\nc: .word c\n", "a: .word a\n.even\n.ascii \"xyz\"\n.even\nb: .word b\n", False),
    ("nop\n.include \"inc.mac\"\nc: .word c\n.include \"inc.mac\"\nd: .word d\n", "s: .word s\n.repeat 2 { .word . }\nt: .word t\n", False),
    (".link 1000\nnop\n.include \"inc.mac\"\nc: .word c\n", "nop\n. = 1010\na: .word a\n", True),
    (".link 1000\nnop\n.include \"inc.mac\"\nc: .word c\n", ". = 4000\na: .word a\n", True),
    (".link 1000\nnop\n.include \"inc.mac\"\nc: .word c\n", ".link 4000\na: .word a\n", True),
    ("nop\n.include \"inc.mac\"\nc: .word c\n", "nop\n. = 1010\na: .word a\n", True),
]


def _run_include_probes(tree):
    code = r'''
import os, tempfile, shutil
from pdpy11 import reports
from pdpy11.parser import parse
from pdpy11.compiler import Compiler
from pdpy11.deferred import wait
out = []
for main, inc, _ in %r:
    d = tempfile.mkdtemp(prefix="pyvc-inc-")
    try:
        open(os.path.join(d, "inc.mac"), "w").write(inc)
        errs = []
        try:
            with reports.handle_reports(lambda p, i, *l: errs.append(i) if p is not reports.warning else None):
                comp = Compiler()
                base, code = comp.compile_and_link_files([parse(os.path.join(d, "m.mac"), main)])
            wrong = []
            for key, (sym, val) in comp.symbols.container.values():
                nm = key.split(".")[-1] if isinstance(key, str) else str(key)
                v = wait(val)
                if len(nm) == 1 and isinstance(v, int):
                    off = v - base
                    if not (0 <= off <= len(code) - 2) or int.from_bytes(code[off:off + 2], "little") != v %% 65536:
                        wrong.append([nm, oct(v), oct(base), code.hex()])
            out.append(["ok", wrong])
        except reports.UnrecoverableError:
            out.append(["fail", errs[:1]])
        except Exception as e:
            out.append(["crash", type(e).__name__])
    finally:
        shutil.rmtree(d, ignore_errors=True)
result = out
''' % (INCLUDE_PROBES,)
    r = driver.native([{"kind": "py", "code": code}], tree, timeout=600)[0]
    return r["result"] if r["status"] == "ok" else None


def unit_include_probes(eng=None):
    """run-time check: every single-letter label of an including / included file is followed by '.word <itself>' - the word found at (label - base) is the label's value.
    Finding D38: an included file that moves its own location counter ('. = X') or has a '.link' is given a base of its own; its labels are then not where its bytes lie."""
    res = _run_include_probes(driver.tree_root())
    bad, known = [], []
    if res is None:
        bad.append("the probe script failed")
    else:
        for (main, inc, rebases), r in zip(INCLUDE_PROBES, res):
            if r[0] == "crash" or (r[0] == "ok" and r[1]):
                (known if rebases and r[0] == "ok" and "D38" in common.ACTIVE_FINDINGS else bad).append([inc, r])
            elif r[0] == "fail" and not rebases:
                bad.append([inc, r])
    status = "failed" if bad else ("known-region" if known else "proved")
    ob = dict(label="labels-of-including-and-included-files-lie-where-their-bytes-are", kind="rac", status=status, secs=0.0, path=[], witness=None, detail=str(dict(new=bad[:3], known_D38=known[:2])),
              events=[], smt2=None, backend="cpython-native", unit="include-rac", func="Compiler.compile_include (run-time check)", cases=len(INCLUDE_PROBES), cfg=dict(kind="include-rac"))
    return dict(unit="include-rac", func="Compiler.compile_include (run-time check)", paths=len(INCLUDE_PROBES), obligations=[ob], wall=0.0)


def witness_D38(tree):
    res = _run_include_probes(tree)
    if res is None:
        return False, "probe script failed"
    hit = [(inc, r[1][0][:2]) for (m, inc, rebases), r in zip(INCLUDE_PROBES, res) if rebases and r[0] == "ok" and r[1]]
    return bool(hit), "included file %r: label %s is not where its bytes lie" % (hit[0][0], hit[0][1]) if hit else "every probe lies where its bytes are (or is refused)"


FINDING_WITNESS = dict(globals().get("FINDING_WITNESS", {}), D38=witness_D38)


def units(tier):
    us = [("rac", "unit_rac", dict(tier=tier)), ("include-rac", "unit_include_probes", {}), ("include", "unit_include", {}), ("insert_file", "unit_insert_file", {}), ("repeat", "unit_repeat", {})]
    for name, fn, kw in deferred_c.all_units():
        if name.split("[")[0] in ("length", "concat", "construct", "wait"):
            us.append((name, fn, kw))
    for ctxt in ("file", "repeat"):
        for bs in (False, True):
            for sk in ("promise", "poly", "lazy"):
                us.append(("compile_block[%s,%s,%s]" % (ctxt, bs, sk), "unit_compile_block", dict(context=ctxt, base_settled=bs, start_kind=sk)))
    for n in (1, 2, 3):
        for kinds in itertools.product(("ready", "lazy"), repeat=n):
            for s in [None] + list(range(n)):
                us.append(("link[%d,%s,%s]" % (n, "".join(k[0] for k in kinds), s), "unit_link_files", dict(nfiles=n, kinds=kinds, settle_in=s)))
    for s in (False, True):
        for k in ("ready", "lazy", "raise"):
            us.append(("compile_include[%s,%s]" % (s, k), "unit_include_c", dict(settles=s, kind=k)))
    for cmd, (lo, hi) in meta_c.ZERO_SIZE.items():
        for n in range(lo, hi + 1):
            us.append(("zero[%s,%d]" % (cmd, n), "unit_zero_size", dict(cmd=cmd, nops=n)))
    # the sized sites inside statement compilers (site obligations are issued automatically in these units)
    for cmd in c06.WIDTH:
        for n in (0, 1, 2, 8):
            us.append(("site[%s,%d]" % (cmd, n), "unit_data", dict(cmd=cmd, n=n)))
    for cmd in (".blkb", ".blkw", ".even", ".odd", ".align"):
        us.append(("site[%s]" % cmd, "unit_fill", dict(cmd=cmd)))
    for sh in ("s", "n", "sn"):
        us.append(("site[.ascii,%s]" % sh, "unit_ascii", dict(cmd=".ascii", shape=sh)))
    for n in (1, 2, 8):
        us.append(("site[wordlist,%d]" % n, "unit_word_list", dict(n=n)))
    for sh in ("e(Rn)", "@e(Rn)", "#e", "@#e", "e", "@e", "a+b(Rn)"):
        us.append(("site[rm,%s]" % sh, "unit_rm_encode", dict(shape=sh, lazy=True)))
    for m in ("mov", "clr", "jsr", "ldf", "br", "halt"):
        us.append(("site[insn,%s]" % m, "unit_compile_insn", dict(mnemonic=m, lazy=True)))
    return us


unit_include_c = compiler_c.unit_include
unit_include = meta_c.unit_include


def canary(eng):
    def run(eng):
        eng.I = {}
        return None

    def post(eng, o):
        a, s, n, m = z3.Ints("a s n m")
        eng.prove("canary-address-advances-by-announced-not-real-length", z3.Implies(a == s + n, a + m == s + n + m + 1))
    return verify(eng, "canary", run, post, func="canary")


def replay(o, tree):
    label = o.get("label", "")
    if (o.get("cfg") or {}).get("kind") == "include-rac":
        res = _run_include_probes(tree) or []
        bad = [[m, inc, r] for (m, inc, rebases), r in zip(INCLUDE_PROBES, res) if r[0] == "crash" or (r[0] == "ok" and r[1]) or (r[0] == "fail" and not rebases)]
        known = set(i_ for _, i_, rb in INCLUDE_PROBES if rb) if "D38" in common.ACTIVE_FINDINGS else set()
        new = [b for b in bad if b[1] not in known or b[2][0] != "ok"]
        return dict(jobs=None, experiment="main file + included file, every label followed by '.word <itself>'", expected="the word at (label - base) is the label's value", observed=new[:4], reproduced=bool(new))
    if "late binding" in label:
        # a '. = X' whose zero fill is computed later: the start address, the state ('.') and the statement it reads are those of the skip itself
        progs = [(".link 1000\n.blkb x\n. = 1100\nnop\nx = 10\n", (b"\0" * 64 + b"\xa0\x00").hex()),
                 (".link 1000\nmov #1, r0\n. = . + gap\n.word 2\nnop\ngap = 10\n", (bytes.fromhex("c0150100") + b"\0" * 8 + bytes.fromhex("0200a000")).hex()),
                 (".link 1000\nnop\n. = . + gap\nl: .word l\ngap = 4\n", (bytes.fromhex("a000") + b"\0" * 4 + (0o1006).to_bytes(2, "little")).hex())]
        jobs = [{"kind": "asm", "sources": [p_]} for p_, _ in progs]
        res = driver.native(jobs, tree)
        obs = [[r["status"], r.get("code_hex", r.get("exc"))] for r in res]
        exp = [["ok", e] for _, e in progs]
        return dict(jobs=jobs, expected=exp, observed=obs, reproduced=obs != exp)
    if (o.get("cfg") or {}).get("kind") == "include" or "sized-site" in label and "include" in o.get("unit", ""):
        import os
        import tempfile
        d = tempfile.mkdtemp(prefix="pyvc-inc-")
        try:
            open(os.path.join(d, "incA.mac"), "w").write(".word 1, 2\n")
            src = '.include "%s/inc" <x> ".mac"\nlab: .word lab\nx = 101\n' % d
            job = {"kind": "asm", "sources": [src], "names": [os.path.join(d, "main.mac")]}
            r = driver.native([job], tree)[0]
            exp = "010002000402"
            return dict(jobs=[job], expected=["ok", exp], observed=[r["status"], r.get("code_hex")], reproduced=[r["status"], r.get("code_hex")] != ["ok", exp])
        finally:
            import shutil
            shutil.rmtree(d, ignore_errors=True)
    cfg = o.get("cfg") or {}
    if cfg.get("kind") == "concat":
        return deferred_c.replay_concat(cfg, tree)
    if cfg.get("kind") == "linkfiles":
        # 1..3 linked files whose statements are all known as they are read (base given up front) or not; every label followed by
        # '.word <itself>' must find its own address in the image
        bad = []
        jobs = []
        for pre in (".link 2000\n", ""):
            for bodies in (["f0: .word f0\n.byte 1, 2\n"], ["f0: .word f0\n.byte 1, 2\n", "f1: .word f1\nnop\n"], ["f0: .word f0\n.byte 1, 2\n", "f1: .word f1\nnop\n", "f2: .word f2\n"],
                           ["mov #1, r0\nq0: .byte 1, 2\n", ".byte 3, 4\nq1: .byte 5, 6\n", "f2: .word f2\n"]):
                srcs = [pre + bodies[0]] + bodies[1:]
                jobs.append({"kind": "asm", "sources": srcs, "symbols": True})
        res = driver.native(jobs, tree)
        for j, r in zip(jobs, res):
            if r["status"] != "ok":
                bad.append((j["sources"], r["status"])); continue
            img = bytes.fromhex(r["code_hex"])
            for k, v in r["symbols"].items():
                nm = k.rsplit(".", 1)[-1]
                if nm.startswith("f"):
                    off = v - r["base"]
                    if not (0 <= off <= len(img) - 2) or int.from_bytes(img[off:off + 2], "little") != v:
                        bad.append((j["sources"], nm, oct(v), "the word at its address holds", img[off:off + 2].hex() if 0 <= off <= len(img) - 2 else "outside the image"))
        if bad:
            return dict(jobs=jobs[:2], expected="each label's '.word <label>' lies at the label's address", observed=bad[:3], reproduced=True)
    if cfg.get("kind") == "repeat":
        from contracts import c16
        jobs, out = c16._pairs(tree, c16.PAIRS)
        if out:
            return dict(jobs=jobs[:2], expected="'.repeat n { body }' lays every copy out where the body written n times would be", observed=out[:3], reproduced=True)
    if cfg.get("kind") in ("data", "fill"):
        r = c06.replay(o, tree)
        if r and r.get("reproduced"):
            return r
    # generic: the label-probe experiment on that tree (every label followed by '.word <itself>' must find its own value in the image)
    import os
    old = os.environ.get("PDPY11_SRC")
    os.environ["PDPY11_SRC"] = tree
    try:
        rr = unit_rac(None)["obligations"][0]
        extra = [".dword 1, 2\nq: .word q\n", "q0: .word q0\n.repeat 3 { .byte 1 }\n.even\nq: .word q\n"]
        res = driver.native([{"kind": "asm", "sources": [e], "symbols": True} for e in extra], tree)
        bad = []
        for e, r1 in zip(extra, res):
            if r1["status"] != "ok":
                bad.append((e, r1["status"])); continue
            img = bytes.fromhex(r1["code_hex"]); v = [v for k, v in r1["symbols"].items() if k.endswith(".q")][0]
            off = v - r1["base"]
            if int.from_bytes(img[off:off + 2], "little") != v:
                bad.append((e, oct(v), img.hex()))
    finally:
        if old is None:
            os.environ.pop("PDPY11_SRC", None)
        else:
            os.environ["PDPY11_SRC"] = old
    return dict(jobs=None, experiment="label probes on the real assembler", observed=(rr["detail"] + str(bad))[:600], reproduced=rr["status"] == "failed" or bool(bad))
