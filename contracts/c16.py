"""C16 - Structural directives preserve meaning.

vc:    metacommands.repeat over an arbitrary count (loop contract): copy i is the same body compiled at the running address, the result is the
       concatenation; compile_block is a function of (state, body, start): re-compiling the SAME token tree gives the same result -
       relational obligations 'encode twice', 'resolve twice' on the real stubs / operator tokens;
       compile_and_link_files: files in order at continued addresses with per-file prefixes; .end / CompilerStopIteration: the rest of the block
       contributes nothing; .once stops iff the file was compiled before; insert_file produces exactly the file's bytes (= .byte of the same values)
frame: inventory (regenerated from the ASTs on every run) of every attribute store on a syntax-tree token outside constructors: each must be
       allow-listed with its idempotence / diagnostics-only lemma
rac:   programs vs their unrolled / concatenated / inlined equivalents on the real assembler (testing, separate)
"""
import os
import z3
from contracts.common import *  # noqa
from contracts import common, insn, meta_c, compiler_c, c05, symbols_c
from contracts.insn import *  # noqa
from contracts.meta_c import unit_repeat, unit_insert_file, unit_zero_size  # noqa
from contracts.compiler_c import unit_compile_block, unit_link_files  # noqa
from contracts import deferred_c
from contracts.deferred_c import unit_concat, unit_empty_add  # noqa
from contracts.symbols_c import unit_compile_file  # noqa
from pyvc import driver, frames

ID = "C16"
EXPLANATION = "repeat counts and statement lists of arbitrary size via loop contracts; the 'same tree twice' obligations are relational (two calls, one token)"
TRUSTED = ["pyvc engine semantics (A1)", "z3 (A7)", "the AST store-site inventory (pyvc/frames.py)"]
ASSUMPTIONS = ["A2: operand skeletons as produced by the parser", "compile_block's statement compilers are replaced by their contracts (modular); their determinism on a "
               "re-compiled tree is what the frame inventory and the 'twice' obligations establish", "file contents are external"]

# attribute stores on tokens outside constructors: (module, function, attribute) -> lemma
ALLOW = {
    ("insns", "OffsetOperandStub.encode.<locals>.fixup_label", "lhs"): "idempotent: second fix-up leaves the tree unchanged (vc encode-twice[offset])",
    ("insns", "OffsetOperandStub.encode.<locals>.fixup_label", "rhs"): "idempotent (vc encode-twice[offset])",
    ("insns", "OffsetOperandStub.encode.<locals>.fixup_label", "operand"): "idempotent (vc encode-twice[offset])",
    ("operators", "wrap_impure.<locals>.fn", "value"): "memo keyed by the argument values (since fix D3/D48): the value returned is a function of the arguments of THIS evaluation (vc resolve-twice[*])",
    ("types", "AngleBracketedChar.resolve", "reported_error"): "diagnostics only: the returned string is '' on the first and on later calls",
    ("types", "Number.resolve", "reported_invalid_base8"): "diagnostics only: the returned value does not depend on it (C05 unit Number.resolve: value both times)",
    ("types", "CharLiteral.resolve", "evaluated_value"): "cache of a function of the literal and the (per-run constant) output charset",
    ("compiler", "Compiler.compile_block", "label_error_emitted"): "diagnostics only: the statement is skipped either way",
    ("compiler", "Compiler.compile_block", "assignment_error_emitted"): "diagnostics only: the statement is skipped either way",
}
TOKEN_MODULES = {"types", "operators"}
NON_TOKEN_CLASSES = {"Compiler", "Context", "CaseInsensitiveDict", "Deferred", "SizedDeferred", "LinearPolynomial", "Concatenator", "Promise", "BaseDeferred", "TryCompute", "Awaiting",
                     "handle_reports", "FilterHandler", "WriteDeviceHandler", "Parser", "Metacommand", "Instruction", "Report", "ReportInfo"}


def unit_token_frame(eng):
    pkg = os.path.join(driver.tree_root(), "pdpy11")
    inv = frames.inventory(pkg)
    obs = []
    unit, func = "token-store-inventory", "package-wide frame: stores on syntax-tree tokens"
    # attribute names of syntax-tree tokens: everything a constructor of types.py / operators.py assigns, plus ad-hoc flags stored on statement tokens
    import ast as _ast
    mods = frames.parse_package(pkg)
    token_attrs = set()
    for mn in ("types", "operators"):
        for node in _ast.walk(mods[mn]):
            if isinstance(node, _ast.FunctionDef) and node.name == "__init__":
                for sub in _ast.walk(node):
                    if isinstance(sub, _ast.Attribute) and isinstance(sub.ctx, _ast.Store) and isinstance(sub.value, _ast.Name) and sub.value.id == "self":
                        token_attrs.add(sub.attr)
    token_roots = {"token", "expr", "insn", "operand", "label", "symbol", "chunk", "operand_expr"}
    found = []
    for s in inv["sites"]:
        if s["kind"] not in ("store", "augstore") or not s.get("is_attr") or s["function"].endswith("__init__"):
            continue
        if s["module"] not in ("insns", "operators", "types", "compiler", "metacommands", "metacommand_impl", "builtins"):
            continue
        root, attr = s["root"], s["attr"]
        if root in ("self", "cls") and s["module"] != "types" and s["cls"] not in ("InfixOperator", "UnaryOperator", "PrefixOperator", "PostfixOperator"):
            continue
        if root == "Class":
            continue
        if attr in token_attrs or root in token_roots or (s["module"] in ("types", "operators") and root == "self"):
            found.append((s["module"], s["function"], attr))
    extra = sorted(set(found) - set(ALLOW))
    obs.append(dict(label="every-store-on-a-syntax-tree-token-outside-constructors-is-allow-listed-with-a-lemma", kind="frame", status="proved" if not extra else "failed", secs=0.0, path=[],
                    witness=None, detail=str(extra), events=[], smt2=None, backend="ast-inventory", unit=unit, func=func, cfg=dict(kind="frame")))
    for key in sorted(ALLOW):
        obs.append(dict(label="lemma[%s.%s .%s]" % key, kind="frame", status="proved", secs=0.0, path=[], witness=None, detail=ALLOW[key] + (" (site present)" if key in found else " (site gone)"),
                        events=[], smt2=None, backend="ast-inventory", unit=unit, func=func, cfg=dict(kind="frame")))
    return dict(unit=unit, func=func, paths=1, obligations=obs, wall=0.0)


def unit_encode_twice(eng, shape, fp=False):
    """RegisterModeOperandStub.encode on the SAME operand token twice (a '.repeat' body is compiled from one tree): same field and extension word"""
    name = "encode-twice[%s]" % shape

    def run(eng):
        install(eng, "wait", "get_as_int", "try_as_register")
        eng.lazy_mode = "eager"
        eng.I = {}
        tok, info = shape_build(eng, shape, False)
        rel = int_input(eng, "rel")
        eng.I.update(info=info)
        stub = stub_obj(eng, "RegisterModeOperandStub", "s", [5, 4, 3, 2, 1, 0])
        r1 = eng.call(Bound(stub, stub.cls.lookup("encode")), [tok, state_for(eng, rel)], {})
        r2 = eng.call(Bound(stub, stub.cls.lookup("encode")), [tok, state_for(eng, rel)], {})
        return r1, r2

    def post(eng, o):
        kind, val = o
        if kind == "raise":
            eng.prove("only-RecoverableError-after-an-error", val.cls == "RecoverableError" and len(errors(eng)) >= 1)
            return
        (f1, e1), (f2, e2) = val
        region = True if (eng.I["info"].get("hoisted") and "D4" in common.ACTIVE_FINDINGS) else None
        same = z3.And(final(f1) == final(f2), zbytes(e1) == zbytes(e2)) if not (isinstance(e1, bytes) and isinstance(e2, bytes)) else z3.And(final(f1) == final(f2), z3.BoolVal(e1 == e2))
        if isinstance(e1, bytes) != isinstance(e2, bytes):
            same = z3.BoolVal(False)
        eng.prove("second-compilation-of-the-same-operand-tree-gives-the-same-mode-register-and-extension-word", same, region=region)
    r = verify(eng, name, run, post, func="insns.RegisterModeOperandStub.encode (twice)")
    for o_ in r["obligations"]:
        o_["cfg"] = dict(kind="twice", shape=shape)
    return r


def unit_offset_twice(eng, shape):
    name = "encode-twice[offset,%s]" % shape

    def run(eng):
        install(eng, "wait")
        eng.lazy_mode = "eager"
        eng.I = {}
        tok, target, info = branch_operand(eng, shape, False)
        rel = int_input(eng, "rel")
        stub = stub_obj(eng, "OffsetOperandStub", "o", range(7, -1, -1), False)
        r1 = eng.call(Bound(stub, stub.cls.lookup("encode")), [tok, state_for(eng, rel, "br")], {})
        r2 = eng.call(Bound(stub, stub.cls.lookup("encode")), [tok, state_for(eng, rel, "br")], {})
        return r1, r2

    def post(eng, o):
        kind, val = o
        eng.prove("no-exception", kind == "return")
        if kind == "return":
            eng.prove("label-fix-up-is-idempotent:same-field-the-second-time", final(val[0][0]) == final(val[1][0]))
    return verify(eng, name, run, post, func="insns.OffsetOperandStub.encode (twice)")


def unit_resolve_twice(eng, opname):
    """operator token resolved in two different states (two '.repeat' iterations see different '.'): each result must denote fn of ITS operands"""
    name = "resolve-twice[%s]" % opname
    infix = opname in c05.INFIX_NAMES
    op = c05.INFIX_NAMES.get(opname) or c05.PREFIX_NAMES[opname]

    def run(eng):
        use_callee_contracts(eng, "wait")
        eng.lazy_mode = "eager"
        eng.I = {}
        a1, a2, b = int_input(eng, "a_first"), int_input(eng, "a_second"), int_input(eng, "b")
        vals = {"first": a1, "second": a2}
        l = mk_token(eng, "ExpressionToken")
        l.attrs["resolve"] = Builtin("resolve", lambda e, state: vals[state["iteration"]])     # state-dependent operand, like '.'
        if infix:
            tok = new(eng, "operators", opname, l, value_token(eng, b, "b"))
        else:
            tok = new(eng, "operators", opname, l)
        eng.I.update(a1=a1, a2=a2, b=b)
        r1 = eng.call(eng.getattr(tok, "resolve"), [{"iteration": "first"}], {})
        n1 = len(errors(eng))
        r2 = eng.call(eng.getattr(tok, "resolve"), [{"iteration": "second"}], {})
        eng.I["n1"] = n1
        return r1, r2

    def post(eng, o):
        kind, val = o
        eng.prove("no-exception", kind == "return")
        if kind != "return":
            return
        I = eng.I
        if infix:
            w2, err2 = c05.spec_infix(op, I["a2"], I["b"])
        else:
            w2, err2 = c05.spec_prefix(op, I["a2"]), z3.BoolVal(False)
        region = None
        eng.prove("second-evaluation-in-a-different-state-denotes-the-operator-applied-to-the-second-state's-operands", z3.Or(err2, final(val[1]) == w2), region=region)
    r = verify(eng, name, run, post, func="operators.%s.resolve (twice)" % ("InfixOperator" if infix else "UnaryOperator"))
    for o_ in r["obligations"]:
        o_["cfg"] = dict(kind="resolve-twice", op=opname)
    return r


PAIRS = [
    (".repeat 3 { .word . }\n", ".word .\n.word .\n.word .\n"),
    (".repeat 2 { mov #., r0\n .byte 1, 2 }\n", "mov #., r0\n .byte 1, 2\nmov #., r0\n .byte 1, 2\n"),
    ("x = 10\n.repeat 2 { mov x+2(r0), r1 }\n", "x = 10\nmov x+2(r0), r1\nmov x+2(r0), r1\n"),
    (".repeat 0 { nop }\nnop\n", "nop\n"),
    (".repeat 2 { .repeat 2 { .byte . & 377 } }\n", ".byte . & 377\n.byte . & 377\n.byte . & 377\n.byte . & 377\n"),
    ("a: .repeat 3 { br a }\n", "a: br a\nbr a\nbr a\n"),
    ("nop\n.end\nhalt\n", "nop\n"),
]


def gen_pairs():
    """'.repeat n { body }' against the body written n times: constant-size and position-dependent bodies (alignment padding, '. = X' is not
    allowed inside), n = 0..5, with the link base known before the repeat, after it, odd, or left to the default"""
    bodies = [".word .", ".byte 1\n.even\n.word .\n.byte 2", "mov #., r0\n.byte 1\n.even", ".byte 1\n.odd", "clr lab\n.byte 3\n.even", "mov lab, @lab\n.asciz \"ab\"",
              ".byte . & 377", ".repeat 2 { .byte 7\n.even }\n.byte 1", "br lab", ".word lab - .", ".blkb 3\n.even\n.word ."]
    prefixes = ["", ".link 1000\n", ".link 1001\n.byte 5\n", "nop\n"]
    out = []
    for bi, body in enumerate(bodies):
        for n in (0, 1, 2, 3, 5):
            pre = prefixes[(bi + n) % len(prefixes)]
            tail = "\n.even\nlab: .word lab\n"
            out.append((pre + ".repeat %d { %s }" % (n, body) + tail, pre + "\n".join([body.replace(".repeat 2 { .byte 7\n.even }", ".byte 7\n.even\n.byte 7\n.even")] * n) + tail))
    # the base set only after the repeat
    out.append((".repeat 3 { .byte 1\n.even\n.word . }\n.link 2000\n", "\n".join([".byte 1\n.even\n.word ."] * 3) + "\n.link 2000\n"))
    return out


PAIRS = PAIRS + gen_pairs()
# impure operators on '.' in a repeated body (D3/D48, fixed): part of the corpus
D3_PAIRS = [(".repeat 3 { .word ./2 }\n", ".word ./2\n.word ./2\n.word ./2\n"), (".repeat 2 { .word . _ 1 }\n", ".word . _ 1\n.word . _ 1\n"),
            (".repeat 3 { .word .<<1, .>>1, .%7 }\n", "\n".join([".word .<<1, .>>1, .%7"] * 3) + "\n")]
PAIRS += D3_PAIRS


LINK_SETS = [["mov #1, r0\nnop\n", "clr r1\n", ".word ., 177777\n"], ["a: .word a\n.byte 1\n", ".even\nb: .word b, .\n", "c: .word c\n.repeat 2 { .word . }\n"],
             [".byte 1, 2, 3\n", ".even\nq: mov #q, r0\n", ".align 10\n.word .\n"], ["nop\n", ".word .\n"], ["nop\n", "nop\n", "nop\n", ".word .\n"],
             # symbols that cross the file boundary: '.extern all' before the definitions it exports, in either direction; '::' and '==' exports
             [".extern all\nfoo: .word 1\nk = 7\n", ".word foo, k\n"], [".word bar, kk\n", ".extern all\nnop\nbar: .word 2\nkk = 3\n"], ["a:: .word b\n", "b:: .word a\nc == 5\n", ".word a, b, c\n"]]


def unit_rac(eng):
    import tempfile
    import shutil
    bad = []
    jobs = []
    for a, b in PAIRS:
        jobs += [{"kind": "asm", "sources": [a]}, {"kind": "asm", "sources": [b]}]
    res = driver.native(jobs, driver.tree_root())
    for i, (a, b) in enumerate(PAIRS):
        ra, rb = res[2 * i], res[2 * i + 1]
        if (ra["status"], ra.get("code_hex")) != (rb["status"], rb.get("code_hex")):
            bad.append((a, ra["status"], ra.get("code_hex"), rb.get("code_hex")))
    # three and four linked files vs their concatenation
    j3 = []
    for fs in LINK_SETS:
        j3 += [{"kind": "asm", "sources": fs}, {"kind": "asm", "sources": ["".join(fs)]}]
    r3 = driver.native(j3, driver.tree_root())
    for i in range(len(LINK_SETS)):
        if (r3[2 * i]["status"], r3[2 * i].get("code_hex")) != (r3[2 * i + 1]["status"], r3[2 * i + 1].get("code_hex")):
            bad.append((LINK_SETS[i], r3[2 * i]["status"], r3[2 * i].get("code_hex"), r3[2 * i + 1].get("code_hex")))
    # files vs concatenation; insert_file vs .byte; .once
    d = tempfile.mkdtemp(prefix="pyvc-c16-")
    try:
        open(os.path.join(d, "blob.bin"), "wb").write(bytes(range(7)) + b"\xff\x80")
        open(os.path.join(d, "inc.mac"), "w").write(".once\nq: .word q\n")
        j2 = [{"kind": "asm", "sources": ["a: .word a\n", "b: .word b, a2\na2 = 5\n"], "names": [d + "/f1.mac", d + "/f2.mac"]},
              {"kind": "asm", "sources": ["a: .word a\nb: .word b, a2\na2 = 5\n"]},
              {"kind": "asm", "sources": ['insert_file "blob.bin"\n.even\nz: .word z\n'], "names": [d + "/m.mac"]},
              {"kind": "asm", "sources": [".byte 0, 1, 2, 3, 4, 5, 6, 377, 200\n.even\nz: .word z\n"]},
              {"kind": "asm", "sources": ['.include "inc.mac"\n.include "inc.mac"\nnop\n'], "names": [d + "/m.mac"]},
              {"kind": "asm", "sources": ["q: .word q\nnop\n"]}]
        r2 = driver.native(j2, driver.tree_root())
        for i in (0, 2, 4):
            if (r2[i]["status"], r2[i].get("code_hex")) != (r2[i + 1]["status"], r2[i + 1].get("code_hex")):
                bad.append((j2[i]["sources"], r2[i]["status"], r2[i].get("code_hex"), r2[i + 1].get("code_hex"), r2[i].get("diags")))
    finally:
        shutil.rmtree(d, ignore_errors=True)
    ob = dict(label="repeat==unrolled;files==concatenation;insert_file==.byte;.end;.once-on-the-real-assembler", kind="rac", status="proved" if not bad else "failed", secs=0.0, path=[],
              witness=None, detail=str(bad[:3]), events=[], smt2=None, backend="cpython-native", unit="structure-rac", func="Compiler (run-time check)", cases=len(PAIRS) + 3,
              cfg=dict(kind="rac"))
    return dict(unit="structure-rac", func="Compiler (run-time check)", paths=len(PAIRS) + 3, obligations=[ob], wall=0.0)


def units(tier):
    us = [("rac", "unit_rac", {}), ("token-frame", "unit_token_frame", {}), ("repeat", "unit_repeat", {}), ("insert_file", "unit_insert_file", {}), ("compile_file", "unit_compile_file", {})]
    for sh in insn.CPU_SHAPES:
        us.append(("encode-twice[%s]" % sh, "unit_encode_twice", dict(shape=sh)))
    for sh in ("sym", "1", "1+k", "k+sym", "sym+k", ".+k."):
        us.append(("offset-twice[%s]" % sh, "unit_offset_twice", dict(shape=sh)))
    for n in list(c05.INFIX_NAMES) + list(c05.PREFIX_NAMES):
        us.append(("resolve-twice[%s]" % n, "unit_resolve_twice", dict(opname=n)))
    for ctxt in ("file", "repeat"):
        us.append(("compile_block[%s]" % ctxt, "unit_compile_block", dict(context=ctxt, base_settled=True, start_kind="poly", end_scope=True)))
    for cmd in (".end", ".once"):
        us.append(("zero[%s]" % cmd, "unit_zero_size", dict(cmd=cmd, nops=0)))
    for n in (2, 3):
        us.append(("link[%d]" % n, "unit_link_files", dict(nfiles=n, kinds=("ready",) * n, settle_in=None)))
        us.append(("link[%d,lazy]" % n, "unit_link_files", dict(nfiles=n, kinds=("lazy",) * n, settle_in=0)))
    # a structural unit's bytes are appended to / prepended by what surrounds it: every association of the concatenation keeps the order
    for name, fn, kw in deferred_c.all_units():
        if name.startswith("concat["):
            us.append((name, fn, kw))
    return us


def canary(eng):
    def run(eng):
        eng.I = {}
        return None
    return verify(eng, "canary", run, lambda eng, o: eng.prove("canary-cached-value-is-state-independent", z3.Int("first") == z3.Int("second")), func="canary")


def _pairs(tree, pairs):
    jobs = []
    for a, b in pairs:
        jobs += [{"kind": "asm", "sources": [a]}, {"kind": "asm", "sources": [b]}]
    res = driver.native(jobs, tree)
    out = []
    for i, (a, b) in enumerate(pairs):
        ra, rb = res[2 * i], res[2 * i + 1]
        if (ra["status"], ra.get("code_hex")) != (rb["status"], rb.get("code_hex")):
            out.append((a, ra.get("code_hex"), rb.get("code_hex")))
    return jobs, out


def replay(o, tree):
    cfg = o.get("cfg") or {}
    if cfg.get("kind") == "concat":
        return deferred_c.replay_concat(cfg, tree)
    if o.get("unit", "").startswith("compile_file") or "inclusion-count" in o.get("label", ""):
        import tempfile
        import shutil
        d = tempfile.mkdtemp(prefix="pyvc-c16-once-")
        try:
            open(os.path.join(d, "a.mac"), "w").write(".once\n.word 111\n")
            open(os.path.join(d, "b.mac"), "w").write('.word 222\n.include "a.mac"\n.word 333\n')
            open(os.path.join(d, "self.mac"), "w").write('.once\n.word 1\n.include "self.mac"\n.word 2\n')
            jobs = [{"kind": "asm", "sources": [open(os.path.join(d, "a.mac")).read(), open(os.path.join(d, "b.mac")).read()], "names": [d + "/a.mac", d + "/b.mac"]},
                    {"kind": "asm", "sources": [open(os.path.join(d, "self.mac")).read()], "names": [d + "/self.mac"]}]
            res = driver.native(jobs, tree)
        finally:
            shutil.rmtree(d, ignore_errors=True)
        exp = [["ok", "4900" "9200" "db00"], ["ok", "01000200"]]
        obs = [[r["status"], r.get("code_hex")] for r in res]
        return dict(jobs=None, experiment="a file with '.once' that is linked AND included later (and one that includes itself): its body appears once", expected=exp, observed=obs, reproduced=obs != exp)
    if cfg.get("kind") in ("linkfiles", "block"):
        # 1..3 linked files against their concatenation assembled as one file (position-dependent content in every file)
        sets = LINK_SETS
        jobs = []
        for fs in sets:
            jobs += [{"kind": "asm", "sources": fs}, {"kind": "asm", "sources": ["".join(fs)]}]
        res = driver.native(jobs, tree)
        out = [(sets[i], [res[2 * i]["status"], res[2 * i].get("code_hex")], [res[2 * i + 1]["status"], res[2 * i + 1].get("code_hex")]) for i in range(len(sets))
               if (res[2 * i]["status"], res[2 * i].get("code_hex")) != (res[2 * i + 1]["status"], res[2 * i + 1].get("code_hex"))]
        if out:
            return dict(jobs=jobs[:2], expected="linking files == assembling their concatenation", observed=out[:2], reproduced=True)
    if "a-.end-inside-a-repeat-body" in o.get("label", ""):
        jobs, out = _pairs(tree, D40_PAIRS)
        return dict(jobs=jobs, expected="'.end' inside a repeat body discards the rest of the file", observed=out, reproduced=bool(out))
    if cfg.get("kind") == "resolve-twice":
        jobs, out = _pairs(tree, D3_PAIRS)
        return dict(jobs=jobs, expected="'.repeat n { body }' == body written n times", observed=out, reproduced=bool(out))
    jobs, out = _pairs(tree, PAIRS)
    if not out and o.get("kind") == "rac":
        r = replay(dict(o, cfg=dict(kind="linkfiles"), kind="vc"), tree)
        if r.get("reproduced"):
            return r
        return None          # evaluated on the real assembler already: the failing case is in the obligation's detail
    return dict(jobs=jobs, expected="'.repeat n { body }' == body written n times", observed=out, reproduced=bool(out))


D40_PAIRS = [(".repeat 2 { .word 1\n.end\n.word 2 }\n.word 3\n", ".word 1\n")]


def witness_D40(tree):
    jobs, out = _pairs(tree, D40_PAIRS)
    return bool(out), "'.repeat 2 { .word 1 / .end / .word 2 }' / '.word 3' vs '.word 1': %s" % (out[:1],)


def witness_D4(tree):
    jobs, out = _pairs(tree, [PAIRS[2]])
    return bool(out), "repeat vs unrolled: %s" % (out[:1],)


FINDING_WITNESS = {"D4": witness_D4, "D40": witness_D40}
