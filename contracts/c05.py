"""C05 - Expression values follow the documented arithmetic.

vc:      every operator body of operators.py == spec/expr_spec.py on Z (floor division/modulo for both signs, shifts as multiplication/floor
         division by 2^n, errors for division by zero and negative shift counts); InfixOperator.resolve / UnaryOperator.resolve for ready and
         lazy operands; Number.resolve (8/9 check); LinearPolynomial view preservation for enumerated key structures (symbolic coefficients)
closed:  operator table (spelling, precedence, associativity) == the C-like levels of the property statement
bounded: parser.number on every literal spelling up to a stated length; the precedence loop of parser.expression on every operator pair and
         triple with every bracket style, through the real parser and assembler, against the independent evaluator (NOT counted as proved)
"""
import itertools
import z3
from contracts.common import *  # noqa
from contracts import structure
from contracts.structure import *  # noqa
from contracts import common
from contracts.insn import new, leaf_value, ctx
from contracts import deferred_c
from contracts.deferred_c import *  # noqa
from pyvc import driver
from contracts.c15 import unit_pack_to_int, unit_pack_closed, unit_alphabet_closed  # noqa  ('^R' literals are part of the literal rules)
from pyvc.engine import pyand, pyor, pyxor

ID = "C05"
EXPLANATION = "operand values symbolic over Z; operator set, readiness combinations and polynomial key structures enumerated"
TRUSTED = ["pyvc engine semantics (A1)", "z3 (A7)", "Python's &, |, ^ on unbounded ints are uninterpreted functions on both sides (the operator bodies are proved to call them)",
           "2**n / << / >> are expressed through an uninterpreted pow2(n) >= 1 on both sides", "spec/expr_spec.py is the statement (A6)"]
ASSUMPTIONS = ["the literal scanner and the shunting loop are outside the subset: bounded stand-ins only (DESIGN 5.4)",
               "A3: Deferred construct contract", "the per-token memo of impure operators: units resolve-again[*] evaluate one token in two states (D3/D48, fixed)"]

INFIX_NAMES = {"mul": "*", "div": "/", "mod": "%", "add": "+", "sub": "-", "lshift": "<<", "rshift": ">>", "lsh": "_", "and_": "&", "xor": "^", "or_": "|", "or2": "!"}
PREFIX_NAMES = {"pos": "+", "neg": "-", "inv": "~", "inv2": "^c"}
ERRORS = {"/": "zero", "%": "zero", "<<": "negshift", ">>": "negshift"}


def spec_infix(op, a, b):
    """(value term, error condition) of the documented operator on integers a, b (z3)"""
    if op == "*":
        return a * b, z3.BoolVal(False)
    if op == "/":
        return fdiv(a, b), b == 0
    if op == "%":
        return fmod(a, b), b == 0
    if op == "+":
        return a + b, z3.BoolVal(False)
    if op == "-":
        return a - b, z3.BoolVal(False)
    if op == "<<":
        return a * pow2(b), b < 0
    if op == ">>":
        return z3.If(b == 0, a, fdiv(a, pow2(b))), b < 0
    if op == "_":
        return z3.If(b >= 0, a * pow2(b), fdiv(a, pow2(-b))), z3.BoolVal(False)
    if op == "&":
        return pyand(a, b), z3.BoolVal(False)
    if op == "^":
        return pyxor(a, b), z3.BoolVal(False)
    return pyor(a, b), z3.BoolVal(False)


def spec_prefix(op, a):
    return {"+": a, "-": -a, "~": -a - 1, "^c": -a - 1}[op]


def opclass(eng, name):
    return eng.resolve_global(eng.load_module("operators"), name)


def unit_infix_body(eng, name):
    op = INFIX_NAMES[name]

    def run(eng):
        install_wait(eng)
        eng.I = {}
        cls = opclass(eng, name)
        a, b = int_input(eng, "a"), int_input(eng, "b")
        eng.I.update(a=a, b=b)
        fn = cls.ns["fn"]
        args = ([mk_token(eng, "ExpressionToken")] if cls.ns["token"] else []) + [a, b]
        return eng.call(fn, args, {})

    def post(eng, outcome):
        a, b = eng.I["a"], eng.I["b"]
        kind, val = outcome
        eng.prove("no-exception-for-any-integers", kind == "return")
        if kind != "return":
            return
        want, err = spec_infix(op, a, b)
        errs = [e[1] for e in errors(eng)]
        if errs:
            eng.prove("error-only-for-division-by-zero-or-negative-shift-count", err)
            eng.prove("error-identifier-is-arithmetic-error", errs == ["arithmetic-error"])
        else:
            eng.prove("silent-only-when-defined", z3.Not(err))
            eng.prove("value-is-the-documented-integer-arithmetic", val == want)
    r = verify(eng, "operators.%s.fn" % name, run, post, func="operators.%s" % name)
    for o in r["obligations"]:
        o["cfg"] = dict(kind="infix", op=op)
    return r


def install_wait(eng):
    use_callee_contracts(eng, "wait")


def unit_prefix_body(eng, name):
    op = PREFIX_NAMES[name]

    def run(eng):
        install_wait(eng)
        eng.I = {}
        cls = opclass(eng, name)
        a = int_input(eng, "a")
        eng.I.update(a=a)
        return eng.call(cls.ns["fn"], ([mk_token(eng, "ExpressionToken")] if cls.ns["token"] else []) + [a], {})

    def post(eng, outcome):
        kind, val = outcome
        eng.prove("returns-the-documented-value-silently", kind == "return" and not eng.path.events)
        if kind == "return":
            eng.prove("value", val == spec_prefix(op, eng.I["a"]))
    r = verify(eng, "operators.%s.fn" % name, run, post, func="operators.%s" % name)
    for o in r["obligations"]:
        o["cfg"] = dict(kind="prefix", op=op)
    return r


def unit_resolve(eng, name, lz):
    """InfixOperator.resolve / UnaryOperator.resolve of a fresh token: value denotes fn(F lhs, F rhs) whether computed now or deferred"""
    infix = name in INFIX_NAMES
    op = INFIX_NAMES.get(name) or PREFIX_NAMES[name]
    uname = "resolve[%s,%s]" % (name, "".join("L" if x else "R" for x in lz))

    def run(eng):
        install_wait(eng)
        eng.I = {}
        l, a = leaf_value(eng, "a", lz[0])
        if infix:
            r, b = leaf_value(eng, "b", lz[1])
            tok = new(eng, "operators", name, l, r)
            eng.I.update(a=a, b=b)
        else:
            tok = new(eng, "operators", name, l)
            eng.I.update(a=a)
        eng.I["tok"] = tok
        return eng.call(eng.getattr(tok, "resolve"), [{}], {})

    def post(eng, outcome):
        kind, val = outcome
        eng.prove("no-exception", kind == "return")
        if kind != "return":
            return
        errs = [e[1] for e in errors(eng)]
        if infix:
            want, err = spec_infix(op, eng.I["a"], eng.I["b"])
        else:
            want, err = spec_prefix(op, eng.I["a"]), z3.BoolVal(False)
        if errs:
            eng.prove("error-only-when-undefined", err)
            eng.prove("error-identifier", errs == ["arithmetic-error"])
        else:
            eng.prove("silent-only-when-defined", z3.Not(err))
            eng.prove("value-denotes-the-documented-arithmetic-of-the-operand-values", final(val) == want)
    r = verify(eng, uname, run, post, func="operators.%s.resolve" % ("InfixOperator" if infix else "UnaryOperator"))
    for o in r["obligations"]:
        o["cfg"] = dict(kind="infix" if infix else "prefix", op=op)
    return r


def unit_resolve_again(eng, name, lz):
    """the same operator token evaluated a second time in another state (a '.repeat' body, a file included twice): '.' OP b where '.' is
    the real InstructionPointer token - the second value is the documented arithmetic of the SECOND state's operand values"""
    infix = name in INFIX_NAMES
    op = INFIX_NAMES.get(name) or PREFIX_NAMES[name]
    uname = "resolve-again[%s,%s]" % (name, "".join("L" if x else "R" for x in lz))

    def run(eng):
        install_wait(eng)
        eng.I = {}
        here = new(eng, "types", "InstructionPointer")
        a1, a2 = int_input(eng, "here1"), int_input(eng, "here2")
        if infix:
            r, b = leaf_value(eng, "b", lz[1])
            tok = new(eng, "operators", name, here, r)
            eng.I.update(b=b)
        else:
            tok = new(eng, "operators", name, here)
        eng.I.update(a1=a1, a2=a2)
        mk = (lambda v: Lazy(v, "int")) if lz[0] else (lambda v: v)
        r1 = eng.call(eng.getattr(tok, "resolve"), [{"emit_address": mk(a1)}], {})
        if isinstance(r1, Lazy) and hasattr(r1, "force"):
            r1.force()
        eng.I["r1"] = eng.call(eng.resolve_global(eng.load_module("deferred"), "wait"), [r1], {})
        eng.I["n1"] = len(errors(eng))
        r2 = eng.call(eng.getattr(tok, "resolve"), [{"emit_address": mk(a2)}], {})
        return eng.call(eng.resolve_global(eng.load_module("deferred"), "wait"), [r2], {})

    def post(eng, outcome):
        kind, val = outcome
        eng.prove("no-exception", kind == "return")
        if kind != "return":
            return
        if infix:
            want1, err1 = spec_infix(op, eng.I["a1"], eng.I["b"])
            want2, err2 = spec_infix(op, eng.I["a2"], eng.I["b"])
        else:
            want1, err1 = spec_prefix(op, eng.I["a1"]), z3.BoolVal(False)
            want2, err2 = spec_prefix(op, eng.I["a2"]), z3.BoolVal(False)
        if not errors(eng):
            eng.prove("silent-only-when-defined", z3.Not(z3.Or(err1, err2)))
            eng.prove("first-value", final(eng.I["r1"]) == want1)
            eng.prove("second-evaluation-in-another-state-denotes-the-arithmetic-of-ITS-operand-values(not the first state's)", final(val) == want2)
        else:
            eng.prove("error-only-when-undefined", z3.Or(err1, err2))
    r = verify(eng, uname, run, post, func="operators.%s.resolve" % ("InfixOperator" if infix else "UnaryOperator"))
    for o in r["obligations"]:
        o["cfg"] = dict(kind="again", op=op, infix=infix)
    return r


PSEUDO_NAMES = {"postadd": "x+", "postsub": "x-", "immediate": "#x", "deferred": "@x", "register": "%x", "call": "x(y)"}


def unit_pseudo_resolve(eng, name, lz):
    """the addressing-mode / postfix pseudo-operators used as a VALUE ('.word #x', '.word x+', '.word 1(2)'): whether the operand is known
    already or later, resolve never raises; evaluating it reports 'unexpected-value' and yields the operand's value"""
    infix = name == "call"
    uname = "resolve[%s,%s]" % (name, "".join("L" if x else "R" for x in lz))

    def run(eng):
        install_wait(eng)
        eng.I = {}
        l, a = leaf_value(eng, "a", lz[0])
        if infix:
            r, b = leaf_value(eng, "b", lz[1])
            tok = new(eng, "operators", name, l, r)
            eng.I.update(a=a, b=b)
        else:
            tok = new(eng, "operators", name, l)
            eng.I.update(a=a)
        return eng.call(eng.getattr(tok, "resolve"), [{}], {})

    def post(eng, outcome):
        kind, val = outcome
        eng.prove("no-exception(also when the operand is not known yet)", kind == "return")
        if kind != "return":
            return
        errs = [e[1] for e in errors(eng)]
        eng.prove("reports-unexpected-value", errs == ["unexpected-value"])
        eng.prove("value-is-the-operand's-value", final(val) == (eng.I["b"] if infix else eng.I["a"]))
    r = verify(eng, uname, run, post, func="operators.%s.resolve" % ("InfixOperator" if infix else "UnaryOperator"))
    for o in r["obligations"]:
        o["cfg"] = dict(kind="pseudo", op=PSEUDO_NAMES[name], lz=list(lz))
    return r


def unit_number(eng):
    def run(eng):
        eng.I = {}
        bad = z3.Bool("invalid_base8")
        eng.inputs["invalid_base8"] = bad
        v = int_input(eng, "value")
        tok = new(eng, "types", "Number", "18", v, True, bad)
        eng.I.update(bad=bad, v=v, tok=tok)
        r1 = eng.call(eng.getattr(tok, "resolve"), [{}], {})
        n1 = len(errors(eng))
        r2 = eng.call(eng.getattr(tok, "resolve"), [{}], {})
        eng.I["n1"] = n1
        return r1, r2

    def post(eng, outcome):
        kind, val = outcome
        eng.prove("no-exception", kind == "return")
        if kind != "return":
            return
        errs = [e[1] for e in errors(eng)]
        eng.prove("value-is-the-literal-value-both-times", z3.And(val[0] == eng.I["v"], val[1] == eng.I["v"]))
        eng.prove("bare-digits-with-8-or-9-are-reported-once-as-invalid-number", z3.If(eng.I["bad"], errs == ["invalid-number"] and eng.I["n1"] == 1, errs == []))
    return verify(eng, "types.Number.resolve", run, post, func="types.Number.resolve")


# ------------------------------------------------------------------ closed: operator table
def unit_table(eng):
    from spec import expr_spec as spec
    facts = native_facts(driver.tree_root())["operators"]
    obs = []

    def ob(label, ok, detail=""):
        obs.append(dict(label=label, kind="closed", status="proved" if ok else "failed", secs=0.0, path=[], witness=None, detail=str(detail), events=[], smt2=None,
                        backend="cpython-eval", unit="operator-table", func="operators.operator (closed table)", cfg=dict(kind="closed")))
    infix = {k.split(":", 1)[1]: v for k, v in facts.items() if k.startswith("InfixOperator:")}
    prefix = {k.split(":", 1)[1]: v for k, v in facts.items() if k.startswith("PrefixOperator:")}
    postfix = {k.split(":", 1)[1]: v for k, v in facts.items() if k.startswith("PostfixOperator:")}
    ob("documented-infix-operators-present(plus the internal call operator $)", set(infix) == set(spec.INFIX) | {"$"}, sorted(infix))
    ob("prefix-operators:4-arithmetic+3-addressing", set(prefix) == set(spec.PREFIX) | {"#", "@", "%"}, sorted(prefix))
    ob("postfix-operators-are-the-autoincrement-markers", set(postfix) == {"+", "-"}, sorted(postfix))
    for sym, name in [(v, k) for k, v in INFIX_NAMES.items()]:
        ob("spelling[%s]->%s" % (sym, name), infix.get(sym, {}).get("name") == name, infix.get(sym))
    for sym, name in [(v, k) for k, v in PREFIX_NAMES.items()]:
        ob("spelling[prefix %s]->%s" % (sym, name), prefix.get(sym, {}).get("name") == name, prefix.get(sym))
    # C-like precedence: same level <=> same number, tighter level <=> smaller number; unary tighter than every infix level
    for x, y in itertools.combinations(spec.INFIX, 2):
        if x in infix and y in infix:
            lx, ly = spec.LEVEL_OF[x], spec.LEVEL_OF[y]
            px, py_ = infix[x]["precedence"], infix[y]["precedence"]
            ob("relative-precedence[%s,%s]" % (x, y), (lx == ly) == (px == py_) and (lx < ly) == (px < py_), (px, py_))
    ob("unary-binds-tighter-than-every-infix", all(prefix[p]["precedence"] < min(infix[i]["precedence"] for i in spec.INFIX) for p in spec.PREFIX if p in prefix))
    ob("all-documented-infix-left-associative", all(infix[i]["associativity"] == "left" for i in spec.INFIX if i in infix))
    return dict(unit="operator-table", func="operators.operator (closed table)", paths=1, obligations=obs, wall=0.0)


# ------------------------------------------------------------------ bounded stand-ins (real parser + assembler vs independent evaluator)
def unit_bounded_precedence(eng, tier="quick"):
    from spec import expr_spec as spec
    vals = [7, -3, 2]
    lit = lambda v: ("<-%o>" % -v) if v < 0 else "%o" % v  # noqa
    cases = []
    ops = spec.INFIX
    for o1, o2 in itertools.product(ops, repeat=2):
        cases.append(([vals[0], o1, vals[1], o2, vals[2]], "%s %s %s %s %s" % (lit(vals[0]), o1, lit(vals[1]), o2, lit(vals[2]))))
        for br in ("()", "<>"):
            cases.append(([vals[0], o1, [vals[1], o2, vals[2]]], "%s %s %s%s %s %s%s" % (lit(vals[0]), o1, br[0], lit(vals[1]), o2, lit(vals[2]), br[1])))
    if tier != "quick":
        for o1, o2, o3 in itertools.product(ops, repeat=3):
            cases.append(([5, o1, 3, o2, 2, o3, 1], "5 %s 3 %s 2 %s 1" % (o1, o2, o3)))
    for p in spec.PREFIX:
        for o1 in ops:
            pp = p if p != "^c" else "^c"
            cases.append(([("pre", p), 5, o1, 3], "%s5 %s 3" % (pp, o1)))
            # the grammar admits a prefix operator only at the start of an (sub)expression: on the right of an infix operator it is grouped
            cases.append(([6, o1, [("pre", p), 2]], "6 %s <%s2>" % (o1, pp)))
    jobs = [{"kind": "asm", "sources": [".dword %s\n" % text]} for _, text in cases]
    res = driver.native(jobs, driver.tree_root(), timeout=1800)
    bad = []
    for (toks, text), r in zip(cases, res):
        try:
            v = spec.evaluate(toks)
            exp = ("ok", v) if -2 ** 32 < v < 2 ** 32 else ("fail", None)
        except spec.ArithmeticError_:
            exp = ("fail", None)
        if r["status"] == "ok":
            code = bytes.fromhex(r["code_hex"])
            got = ("ok", (int.from_bytes(code[0:2], "little") << 16) | int.from_bytes(code[2:4], "little"))
            if exp[0] != "ok" or got[1] != exp[1] % 2 ** 32:
                bad.append((text, exp, got))
        elif exp[0] == "ok" or r["status"] == "crash":
            bad.append((text, exp, r["status"]))
    ob = dict(label="parser.expression-precedence-associativity-grouping==independent-evaluator", kind="bounded", status="proved" if not bad else "failed", secs=0.0, path=[],
              witness=None, detail=str(bad[:4]), events=[], smt2=None, backend="cpython-native", unit="bounded-precedence", func="parser.expression (bounded stand-in)",
              bound="every ordered pair%s of the 12 infix operators, flat and grouped with ( ) and < >; every prefix operator on either side of every infix operator" % (" and triple" if tier != "quick" else ""),
              cases=len(cases), cfg=dict(kind="bounded"))
    return dict(unit="bounded-precedence", func="parser.expression (bounded stand-in)", paths=len(cases), obligations=[ob], wall=0.0)


def unit_bounded_literals(eng, tier="quick"):
    from spec import expr_spec as spec
    alphabet = "0179afx.bo^DX"
    maxlen = 4 if tier == "quick" else 5
    texts = set()
    for n in range(1, maxlen + 1):
        for t in itertools.product(alphabet, repeat=n):
            s = "".join(t)
            if s[0] in "0179^":
                texts.add(s)
    texts = sorted(texts)
    # every spelling that is a number, also with a sign directly (or after a blank) in front of it: the sign belongs to the literal
    texts += ["-" + t for t in texts if spec.literal_value(t) is not None] + ["- " + t for t in texts if spec.literal_value(t) is not None and len(t) <= 3]
    # digits of other scripts (every code point of category Nd outside ASCII) are not digits of any radix spelling
    import unicodedata
    nd = [chr(c) for c in range(128, 0x110000) if unicodedata.category(chr(c)) == "Nd"]
    if tier == "quick":
        nd = [d for d in nd if unicodedata.digit(d) in (1, 8)]
    foreign = [tmpl % d for d in nd for tmpl in ("%s", "1%s", "%s.", "^D%s", "^D1%s", "^X%s", "^O%s", "^B%s", "0x%s", "0o%s", "0b%s", "-^D%s")]
    n_ascii = len(texts)
    texts = texts + foreign
    code = r'''
from pdpy11 import reports
from pdpy11.parser import parse
from pdpy11.compiler import Compiler
out = []
for t in %r:
    diags = []
    try:
        with reports.handle_reports(lambda p, i, *l: diags.append(i)):
            f = parse("t.mac", ".dword <" + t + ">\n")
            base, code = Compiler().compile_and_link_files([f])
        out.append(["ok", int.from_bytes(code[0:2], "little") << 16 | int.from_bytes(code[2:4], "little")])
    except reports.UnrecoverableError:
        out.append(["fail", diags[:1]])
    except Exception as e:
        out.append(["crash", type(e).__name__])
result = out
''' % (texts,)
    res = driver.native([{"kind": "py", "code": code}], driver.tree_root(), timeout=1800)[0]["result"]
    bad = []
    n_num = 0
    for t, r in zip(texts, res):
        v = spec.literal_value(t)
        if r[0] == "crash":
            bad.append((t, r))
        elif v is not None:
            n_num += 1
            if r != ["ok", v % 2 ** 32]:
                bad.append((t, v, r))
        elif r[0] == "ok" and spec_is_plain_digits_with_8_9(t):
            bad.append((t, "8/9 must be an error", r))
        elif r[0] == "ok" and not t.isascii():
            bad.append((t, "a digit of another script is not a digit of this radix: must be an error", r))
    ob = dict(label="parser.number-radix-rules==spec.literal_value", kind="bounded", status="proved" if not bad else "failed", secs=0.0, path=[], witness=None, detail=str(bad[:5]),
              events=[], smt2=None, backend="cpython-native", unit="bounded-literals", func="parser.number (bounded stand-in)",
              bound="every spelling of length <= %d over %r starting with a digit or '^' (%d spellings, %d of them numbers); %d non-ASCII decimal digits x 12 radix spellings" % (maxlen, alphabet, n_ascii, n_num, len(nd)), cases=len(texts),
              cfg=dict(kind="bounded"))
    return dict(unit="bounded-literals", func="parser.number (bounded stand-in)", paths=len(texts), obligations=[ob], wall=0.0)


def unit_bounded_values(eng=None, tree=None):
    """every infix operator on a grid of small, negative and large operand values through the real assembler against spec/expr_spec.py (the
    operator bodies are proved over all integers; this grid is what still decides when a body uses a construct outside the subset, e.g. floats)"""
    from spec import expr_spec as spec
    A = [-7, -5, -4, -1, 0, 1, 2, 3, 5, 7, 100, -100, 2 ** 20 + 3, -(2 ** 20 + 3), 3 * 2 ** 58 + 1, -(3 * 2 ** 58 + 1)]
    B = [-60, -3, -2, -1, 0, 1, 2, 3, 5, 7, 58, -58]
    lit = lambda v: ("<-%d.>" % -v) if v < 0 else "%d." % v  # noqa
    jobs, exps = [], []
    for op in spec.INFIX:
        for a in A:
            for b in (B if op in ("<<", ">>", "_") else A[:12]):
                try:
                    v = spec.apply_infix(op, a, b)
                except spec.ArithmeticError_:
                    v = None
                if v is not None and abs(v) >= 2 ** 32:
                    # reduce by a mask the spec and the assembler both apply: keep the low 30 bits and the sign through '% '
                    src = ".dword ((%s %s %s) %% %d.)\n" % (lit(a), op, lit(b), 2 ** 30)
                    v = v % 2 ** 30
                else:
                    src = ".dword (%s %s %s)\n" % (lit(a), op, lit(b))
                jobs.append({"kind": "asm", "sources": [src]})
                exps.append(v)
    res = driver.native(jobs, tree or driver.tree_root())
    bad = []
    for j, v, r in zip(jobs, exps, res):
        if r["status"] == "crash":
            bad.append((j["sources"][0], "internal exception", r.get("exc")))
        elif v is None:
            if r["status"] != "fail":
                bad.append((j["sources"][0], "must be an error (division by zero / negative shift count)", r.get("code_hex")))
        else:
            w = (v % 2 ** 32)
            want = ((w >> 16).to_bytes(2, "little") + (w & 0xFFFF).to_bytes(2, "little")).hex()
            if r["status"] != "ok" or r["code_hex"] != want:
                bad.append((j["sources"][0], "expected %d" % v, [r["status"], r.get("code_hex")]))
    ob = dict(label="every-infix-operator-on-a-grid-of-operand-values(negative, zero, beyond 2^53)==spec.apply_infix", kind="bounded", status="proved" if jobs and not bad else "failed", secs=0.0, path=[],
              witness=None, detail=str(bad[:5]), events=[], smt2=None, backend="cpython-native", unit="bounded-values", func="operators.* (bounded stand-in)",
              bound="%d operator applications: 12 operators x 16 left values x 12 right values" % len(jobs), cases=len(jobs), cfg=dict(kind="bounded"))
    return dict(unit="bounded-values", func="operators.* (bounded stand-in)", paths=len(jobs), obligations=[ob], wall=0.0)


def spec_is_plain_digits_with_8_9(t):
    return t.isdigit() and ("8" in t or "9" in t)


def units(tier):
    us = [("table", "unit_table", {}), ("number", "unit_number", {}),
          ("bounded-precedence", "unit_bounded_precedence", dict(tier=tier)), ("bounded-literals", "unit_bounded_literals", dict(tier=tier)), ("bounded-values", "unit_bounded_values", {}),
          ("^R-pack-closed", "unit_pack_closed", {}), ("^R-alphabet", "unit_alphabet_closed", dict(which="literal"))]
    for n_ in range(0, 5):
        us.append(("^R-pack_to_int[%d]" % n_, "unit_pack_to_int", dict(n=n_)))
    us0 = us
    us = us0
    for n in INFIX_NAMES:
        us.append(("body[%s]" % n, "unit_infix_body", dict(name=n)))
        for lz in itertools.product((False, True), repeat=2):
            us.append(("resolve[%s,%s]" % (n, lz), "unit_resolve", dict(name=n, lz=lz)))
            us.append(("resolve-again[%s,%s]" % (n, lz), "unit_resolve_again", dict(name=n, lz=lz)))
    for n in PSEUDO_NAMES:
        for lz in (itertools.product((False, True), repeat=2) if n == "call" else [(False,), (True,)]):
            us.append(("resolve[%s,%s]" % (n, lz), "unit_pseudo_resolve", dict(name=n, lz=tuple(lz))))
    for name, fn, kw in deferred_c.all_units():
        if name.startswith("poly"):
            us.append((name, fn, kw))
    for n in PREFIX_NAMES:
        us.append(("body[%s]" % n, "unit_prefix_body", dict(name=n)))
        for lz in ((False,), (True,)):
            us.append(("resolve[%s,%s]" % (n, lz), "unit_resolve", dict(name=n, lz=lz)))
            us.append(("resolve-again[%s,%s]" % (n, lz), "unit_resolve_again", dict(name=n, lz=lz)))
    # whole programs: the statement holds wherever a statement stands (repeat body, included / linked file, any block) - contracts/structure.py
    us += structure.units()
    return us


def canary(eng):
    def run(eng):
        eng.I = {}
        return None

    def post(eng, outcome):
        a, b = z3.Ints("a b")
        eng.prove("canary-truncating-division", z3.Implies(b != 0, fdiv(a, b) == z3.If(a * b >= 0, fdiv(z3.If(a >= 0, a, -a), z3.If(b >= 0, b, -b)), -fdiv(z3.If(a >= 0, a, -a), z3.If(b >= 0, b, -b)))))
    return verify(eng, "canary", run, post, func="canary")


def replay_again(cfg, w, tree):
    """the same token in two states: a '.repeat' body at two addresses, compared with the two copies written out"""
    from spec import expr_spec as spec
    op = cfg["op"]
    b = w.get("b", 2)
    cands = [b, 2, 3, 1] if cfg.get("infix") else [None]
    jobs, exps, srcs = [], [], []
    for base in (0o1000, 0o2010):
        for bv in cands:
            if cfg.get("infix"):
                if bv is None or not (0 < bv < 9):
                    continue
                e = ". %s %o" % (op, bv)
                vals = []
                for a in (base, base + 2):
                    try:
                        vals.append(spec.apply_infix(op, a, bv))
                    except spec.ArithmeticError_:
                        vals = None
                        break
            else:
                e = "%s ." % op if op == "^c" else "%s." % op
                vals = [spec.apply_prefix(op, a) for a in (base, base + 2)]
            if vals is None or any(abs(v) >= 65536 for v in vals):
                continue
            src = ".link %o\n.repeat 2 { .word %s }\n" % (base, e)
            srcs.append(src)
            jobs.append({"kind": "asm", "sources": [src]})
            exps.append(["ok", b"".join((v % 65536).to_bytes(2, "little") for v in vals).hex()])
    res = driver.native(jobs, tree)
    obs = [[r["status"]] + ([r["code_hex"]] if r["status"] == "ok" else []) for r in res]
    bad = [i for i in range(len(jobs)) if obs[i] != exps[i]]
    return dict(jobs=jobs, sources=[srcs[i] for i in bad][:3], expected=[exps[i] for i in bad][:3], observed=[obs[i] for i in bad][:3], reproduced=bool(bad))


def replay(o, tree):
    r_ = None if o.get("_shared_replay") else structure.replay(dict(o, _shared_replay=True), tree)
    if r_ is not None and r_.get("reproduced"):
        return r_
    from spec import expr_spec as spec
    cfg = o.get("cfg") or {}
    w = o.get("witness") or {}
    if cfg.get("kind") == "poly-nested":
        return deferred_c.replay_poly_nested(cfg, w, tree)
    if cfg.get("kind") == "poly-selfref":
        return deferred_c.replay_poly_selfref(cfg, w, tree)
    if cfg.get("kind") == "wait-chain":
        return deferred_c.replay_wait_chain(tree)
    if cfg.get("kind") == "promise-pending":
        return deferred_c.replay_promise_pending(tree)
    if cfg.get("kind") == "poly-scalar":
        return deferred_c.replay_poly_scalar(cfg, tree, o.get("witness"))
    if cfg.get("kind") == "poly-mul":
        return deferred_c.replay_poly_mul(cfg, w, tree)
    if cfg.get("kind") == "again":
        return replay_again(cfg, w, tree)
    if cfg.get("kind") == "pseudo":
        sp = {"x+": "lab+", "x-": "lab-", "#x": "#lab", "@x": "@lab", "%x": "%lab", "x(y)": "lab(2)"}[cfg["op"]]
        srcs = [".word %s\nlab:\n" % sp, "lab:\n.word %s\n" % sp]
        jobs = [{"kind": "asm", "sources": [s_]} for s_ in srcs]
        res = driver.native(jobs, tree)
        obs = [[r["status"], r.get("exc"), [d[1] for d in r.get("diags", [])][:2]] for r in res]
        return dict(jobs=jobs, expected="a reported error (unexpected-value / excess-hash), not an internal exception", observed=obs, reproduced=any(r["status"] == "crash" for r in res))
    if cfg.get("kind") == "alphabet" or o.get("unit", "").startswith("radix50.pack_to_int"):
        from contracts import c15
        return c15.replay(o, tree)
    if cfg.get("kind") in ("infix", "prefix"):
        op = cfg["op"]
        lit = lambda v: ("<-%o>" % -v) if v < 0 else "%o" % v  # noqa
        a, b = w.get("a", 5), w.get("b", 3)
        cands = [(a, b), (-7, 2), (7, -2), (-7, -2), (5, 0), (1, -1), (1, 40), (-1, 3)]
        out = []
        for a, b in cands:
            if abs(a) > 2 ** 31 or abs(b) > 64:
                continue
            text = ("%s %s %s" % (lit(a), op, lit(b))) if cfg["kind"] == "infix" else ("%s%s" % (op, lit(a)))
            try:
                v = spec.apply_infix(op, a, b) if cfg["kind"] == "infix" else spec.apply_prefix(op, a)
                exp = ["ok", v % 2 ** 32] if -2 ** 32 < v < 2 ** 32 else ["fail"]
            except spec.ArithmeticError_:
                exp = ["fail"]
            job = {"kind": "asm", "sources": [".dword %s\n" % text]}
            r = driver.native([job], tree)[0]
            got = [r["status"]]
            if r["status"] == "ok":
                c = bytes.fromhex(r["code_hex"])
                got.append(int.from_bytes(c[0:2], "little") << 16 | int.from_bytes(c[2:4], "little"))
            out.append((text, exp, got))
            if got != exp:
                return dict(jobs=[job], source=".dword " + text, expected=exp, observed=got, reproduced=True)
        return dict(tried=out, reproduced=False)
    return None
