"""Contracts on pdpy11/compiler.py (hybrid mode: Promise, LinearPolynomial and Concatenator are the real classes; Deferred /
SizedDeferred are the construct abstraction of DESIGN section 4).  Shared by C02, C03, C11, C12, C16, C19."""
import z3
from contracts.common import *  # noqa
from contracts import common
from contracts.deferred_c import dcls, INT, BYT
from pyvc.engine import Path, BUILTINS, LoopSpec

DeferredCycleFlag = "deferred_cycle"


def compiler_obj(eng, **attrs):
    ccls = eng.resolve_global(eng.load_module("compiler"), "Compiler")
    comp = eng.call(ccls, [], {})
    comp.name = "compiler"
    comp.attrs.update(attrs)
    return comp


def link_base(eng, settled, set_where=None, name="LA"):
    """state['link_base']: a real Promise (ghost final value sigma = the base the program is finally linked at)"""
    p = eng.call(dcls(eng, "Promise"), [INT, name], {})
    sig = int_input(eng, "base_" + name)
    p.attrs["_sigma"] = sig
    if settled:
        eng.call(eng.getattr(p, "settle"), [sig], {})
    return {"promise": p, "set_where": set_where}, p, sig


def contract_get_as_int_cycle(eng, state, what, token, arg_token, bitness, unsigned, default=None, cycle_is_reported=True):
    """get_as_int whose argument may (symbolically) depend on the value being defined: wait() then raises DeferredCycle, which get_as_int
    reports as recursive-definition (and refuses the statement) unless the caller asked to handle the cycle itself"""
    cyc = eng.fresh_bool("cyclic")
    eng.inputs.setdefault("cyclic", cyc)
    eng.I["cyclic"] = cyc
    if eng.branch(cyc):
        if cycle_is_reported:
            eng.path.events.append(("error", "recursive-definition"))
            raise PyRaise(Exc("RecoverableError"))
        raise PyRaise(Exc("DeferredCycle"))
    return contract_get_as_int(eng, state, what, token, arg_token, bitness, unsigned, default)


# ------------------------------------------------------------------ Compiler.set_link_address
def unit_set_link_address(eng, settled, had_where, lazy):
    name = "set_link_address[settled=%s,set_where=%s,%s]" % (settled, had_where, "lazy" if lazy else "ready")

    def run(eng):
        use_callee_contracts(eng, "wait")
        eng.contracts["get_as_int"] = contract_get_as_int_cycle
        eng.lazy_mode = "lazy" if lazy else "eager"
        eng.I = {}
        comp = compiler_obj(eng)
        # the earlier '.link' statement: another statement - possibly spelled exactly like this one (tokens compare structurally)
        prev = (insn_token(eng, ".link") if had_where == "same-text" else insn_token(eng, ".link", [value_token(eng, 7, "other")])) if had_where else None
        lb, p, sig = link_base(eng, settled, prev)
        dyn, v, isint = dyn_input(eng, "v")
        insn = insn_token(eng, ".link")
        state = {"insn": insn, "link_base": lb, "compiler": comp}
        eng.I.update(lb=lb, p=p, sig=sig, v=v, isint=isint, insn=insn, prev=prev)
        return eng.call(eng.getattr(comp, "set_link_address"), [value_token(eng, dyn, "address"), state], {})

    def post(eng, o):
        I = eng.I
        kind, val = o
        errs = [e[1] for e in errors(eng)]
        p, lb = I["p"], I["lb"]
        if settled:
            eng.prove("second-setting-is-an-address-conflict-error-and-changes-nothing", kind == "return" and errs == ["address-conflict"]
                      and p.attrs["value"] is I["sig"] and lb["set_where"] is I["prev"])
            return
        ok = z3.And(I["isint"], I["v"] > -65536, I["v"] < 65536)
        if kind == "raise":
            eng.prove("only-RecoverableError-escapes-after-an-error", val.cls == "RecoverableError" and len(errs) >= 1)
            eng.prove("refused-only-a-base-that-is-not-a-16-bit-value", z3.Not(ok))
            return
        eng.prove("base-is-settled-exactly-once-and-its-site-recorded", p.attrs["settled"] is True and lb["set_where"] is I["insn"])
        basev = view(eng, p.attrs["value"])
        if "recursive-definition" in errs:
            eng.prove("self-dependent-base-is-reported-and-only-then", z3.And(I["cyclic"], errs == ["recursive-definition"], basev == 0))
        elif errs:
            eng.prove("refused-only-a-base-that-is-not-a-16-bit-value", z3.Not(ok))
        else:
            eng.prove("base-is-the-arithmetic-value-of-the-expression(mod 2^16)", z3.And(ok, basev == I["v"] % 65536))
    r = verify(eng, name, run, post, func="compiler.Compiler.set_link_address")
    for o in r["obligations"]:
        o["cfg"] = dict(kind="link")
    return r


# ------------------------------------------------------------------ compile_and_link_files / compile_include: default base, continuation across files
def chunk_contract(eng, name, kind):
    """what compile_file / compile_block returns (assumed contract, proved in the compile_block units): bytes B, ready or deferred,
    whose announced length equals len(B) unless an error was reported"""
    B = abstract_seq(name)
    if kind == "ready":
        return B, B
    return Lazy(B, "bytes"), B


def unit_link_files(eng, nfiles, kinds, settle_in):
    """Compiler.compile_and_link_files over nfiles files; settle_in: index of the file whose compilation sets the base (.link), or None"""
    name = "compile_and_link_files[n=%d,%s,link-in=%s]" % (nfiles, "".join(k[0] for k in kinds), settle_in)

    def run(eng):
        use_callee_contracts(eng, "wait")
        eng.I = {}
        comp = compiler_obj(eng)
        calls = []
        finals = []
        K = int_input(eng, "K")
        eng.assume(z3.And(K >= 0, K < 65536))

        forced = []

        class Watched(Lazy):
            """a definition nobody used so far: evaluating it (wait reads .final) is recorded and reports an error"""
            def __init__(self, i):
                self.__dict__.update(typ="int", size=None, announced=None, idx=i)

            @property
            def final(self):
                if self.idx not in forced:
                    forced.append(self.idx)
                    eng.path.events.append(("error", "undefined-symbol"))
                return 0

        def c_compile_file(eng_, file, start, link_base_):
            i = len(calls)
            calls.append((file, start, link_base_))
            if settle_in == i:
                class BaseExpr(Lazy):
                    """the '.link' expression: evaluated when the base promise is awaited"""
                    def __init__(self):
                        self.__dict__.update(typ="int", size=None, announced=None)

                    @property
                    def final(self):
                        if "base" not in forced:
                            forced.append("base")
                        return K
                eng_.call(eng_.getattr(link_base_["promise"], "settle"), [BaseExpr()], {})
            c, B = chunk_contract(eng_, "F%d" % i, kinds[i])
            finals.append(B)
            # the file defines a symbol that no statement uses: its value is still pending when the file has been compiled
            eng_.call(eng_.getattr(eng_.getattr(comp, "symbols"), "__setitem__"), ["unused%d" % i, (Obj("Assignment", name="def%d" % i), Watched(i))], {})
            return c
        comp.attrs["compile_file"] = Builtin("compile_file(contract)", c_compile_file)
        files = [Obj("File", name="file%d" % i) for i in range(nfiles)]
        eng.I.update(calls=calls, finals=finals, files=files, K=K, forced=forced)
        return eng.call(eng.getattr(comp, "compile_and_link_files"), [files], {})

    def post(eng, o):
        I = eng.I
        kind, val = o
        eng.prove("no-exception", kind == "return")
        if kind != "return":
            return
        base, code = val
        calls, finals = I["calls"], I["finals"]
        eng.prove("every-file-compiled-once-in-order-with-the-shared-link-base", [c[0] for c in calls] == I["files"] and all(c[2] is calls[0][2] for c in calls))
        want_base = I["K"] if settle_in is not None else 0o1000
        eng.prove("base-is-0o1000-unless-the-source-sets-it", base == want_base)
        # file i starts at base + bytes of the files before it
        promise = calls[0][2]["promise"]
        promise.attrs["_sigma"] = want_base
        off = 0
        for i, c in enumerate(calls):
            eng.prove("file%d-starts-where-the-previous-ends" % i, view(eng, c[1]) == want_base + off)
            off = off + slen(finals[i])
        eng.prove("image-is-the-files'-bytes-in-order", zbytes(code) == (finals[0] if len(finals) == 1 else z3.Concat(*finals)))
        syms = [f for f in I["forced"] if f != "base"]
        eng.prove("every-definition-is-evaluated-before-the-call-returns(an error in a symbol nobody uses is reported inside the reporting scope)",
                  sorted(syms) == list(range(nfiles)) and len(errors(eng)) == nfiles)
        # (an obligation "the link base is evaluated before any definition nobody has used yet" stood here after seed C12f; since fix D54 that order
        # no longer matters - a value that is busy is simply not ready while something is tried out - so it demanded more than the property
        # states and was removed: DESIGN section 12)
    r = verify(eng, name, run, post, func="compiler.Compiler.compile_and_link_files")
    for o_ in r["obligations"]:
        o_["cfg"] = dict(kind="linkfiles")
    return r


def unit_include(eng, settles, kind):
    name = "compile_include[inner-sets-base=%s,%s]" % (settles, kind)

    def run(eng):
        use_callee_contracts(eng, "wait")
        eng.I = {}
        comp = compiler_obj(eng)
        K = int_input(eng, "K")
        addr = int_input(eng, "addr")
        rec = {}

        def c_compile_file(eng_, file, start, link_base_):
            rec.update(start=start, lb=link_base_)
            if settles:
                eng_.call(eng_.getattr(link_base_["promise"], "settle"), [K], {})
            if kind == "raise":
                # a statement of the included file was refused: the error was reported and RecoverableError propagates (labels defined before it exist already)
                eng_.path.events.append(("error", "value-out-of-bounds"))
                raise PyRaise(Exc("RecoverableError"))
            c, B = chunk_contract(eng_, "INC", kind)
            rec["B"] = B
            return c
        comp.attrs["compile_file"] = Builtin("compile_file(contract)", c_compile_file)
        eng.I.update(rec=rec, K=K, addr=addr)
        return eng.call(eng.getattr(comp, "compile_include"), [Obj("File", name="inc"), addr], {})

    def post(eng, o):
        I = eng.I
        rec = I["rec"]
        if kind == "raise":
            p = rec["lb"]["promise"]
            eng.prove("a-refused-statement-inside-the-included-file-propagates-as-RecoverableError", o[0] == "raise" and o[1].cls == "RecoverableError")
            eng.prove("the-include's-link-base-is-settled-on-every-exit(labels of the included file stay resolvable)", p.attrs["settled"] is True)
            return
        eng.prove("no-exception", o[0] == "return")
        if o[0] != "return":
            return
        p = rec["lb"]["promise"]
        eng.prove("include-gets-its-own-link-base-promise-and-starts-at-it", rec["start"] is p and p.attrs["settled"] is True)
        eng.prove("included-file-is-based-at-the-include-address-unless-it-sets-its-own", p.attrs["value"] is (I["K"] if settles else I["addr"]))
        eng.prove("returns-the-included-code", zbytes(view(eng, o[1])) == rec["B"])
    return verify(eng, name, run, post, func="compiler.Compiler.compile_include")


# ------------------------------------------------------------------ Compiler.compile_block: the accounting invariant (Appendix A.4)
from pyvc.engine import SymObjList  # noqa

STATEMENT_KINDS = ["insn", "wordlist", "label-local", "label-global", "assign-sym", "assign-ip"]
CHUNK_KINDS = ["none+error", "ready", "sized", "unsized", "sized-wrong+error", "concat", "raise-recoverable", "stop"]


def make_chunk(eng, kind, tag):
    """what a statement compiler may hand back, per its own contract: final bytes B with announced length A; A == len(B) unless an error was reported"""
    B = abstract_seq("chunk_" + tag)
    if kind == "ready":
        return B, B
    if kind == "sized":
        return Lazy(B, "bytes", slen(B)), B
    if kind == "unsized":
        return Lazy(B, "bytes"), B
    if kind == "sized-wrong+error":
        n = eng.fresh_int("wrongsize")
        eng.path.events.append(("error", "odd-address"))
        return Lazy(B, "bytes", n), B
    if kind == "concat":
        B2 = abstract_seq("chunk2_" + tag)
        return eng.binop(ast.Add(), Lazy(B, "bytes", slen(B)), Lazy(B2, "bytes", slen(B2))), z3.Concat(B, B2)
    raise ValueError(kind)


def pick(eng, options, name):
    """symbolic choice among options (forks)"""
    for o in options[:-1]:
        if eng.branch(eng.fresh_bool("%s_is_%s" % (name, o))):
            return o
    return options[-1]


def unit_compile_block(eng, context, base_settled, start_kind, end_scope=False):
    """compile_block over a statement list of ARBITRARY length (loop contract); every statement compiler is replaced by its contract"""
    name = "compile_block[context=%s,base-%s,start=%s]" % (context, "settled" if base_settled else "unsettled", start_kind)

    def run(eng):
        use_callee_contracts(eng, "wait", "get_as_int")
        eng.fstring_ints = True
        eng.I = {}
        comp = compiler_obj(eng)
        N0 = int_input(eng, "next_local0")
        eng.assume(N0 >= 1)
        comp.attrs["next_local_symbol_prefix"] = N0
        lb, p, sig = link_base(eng, base_settled)
        if start_kind == "promise":
            start = p
        elif start_kind == "poly":
            start = eng.binop(ast.Add(), p, int_input(eng, "start_off"))
        else:
            start = Lazy(int_input(eng, "start_val"), "int")
        labels = []          # (label token, addr object, state) handed to compile_label
        assigns = []

        def c_compile_insn(eng_, insn, state):
            k = pick(eng_, CHUNK_KINDS, "insn_result")
            eng_.I["handed"].append((insn, dict(state)))
            if eng_.I.get("in_loop") is not None and pick(eng_, ["other", ".extern all"], "insn_is") == ".extern all":
                # '.extern all' records itself in the state of its own statement (metacommands.extern): what follows in the block must see it
                state["extern_all"] = insn
                eng_.I["ext"] = insn
            if k == "none+error":
                eng_.path.events.append(("error", "unknown-insn"))
                return None
            if k == "raise-recoverable":
                eng_.path.events.append(("error", "wrong-meta-operands"))
                raise PyRaise(Exc("RecoverableError"))
            if k == "stop":
                il = eng_.I.get("in_loop")
                eng_.I["stopped_with"] = il["env"].lookup("data") if il else b""
                raise PyRaise(Exc("CompilerStopIteration"))
            c, B = make_chunk(eng_, k, "i")
            return c

        def c_compile_word_list(eng_, insn, words, state):
            k = pick(eng_, ["sized", "sized-wrong+error", "raise-recoverable"], "wl_result")
            eng_.I["handed"].append((insn, state))
            if k == "raise-recoverable":
                eng_.path.events.append(("error", "value-out-of-bounds"))
                raise PyRaise(Exc("RecoverableError"))
            return make_chunk(eng_, k, "w")[0]

        def c_compile_label(eng_, label, addr, state):
            labels.append((label, addr, state))
            eng_.prove("a-label-sees-the-'.extern all'-in-force(the one written earlier in this block, else the enclosing one)", state["extern_all"] is eng_.I["ext"])

        def c_compile_assignment(eng_, insn, state):
            assigns.append((insn, state))
            eng_.prove("an-assignment-sees-the-'.extern all'-in-force(the one written earlier in this block, else the enclosing one)", state["extern_all"] is eng_.I["ext"])

        def c_set_link_address(eng_, address, state):
            eng_.I["set_link"].append((address, state))
        comp.attrs.update(compile_insn=Builtin("compile_insn(contract)", c_compile_insn), compile_word_list=Builtin("compile_word_list(contract)", c_compile_word_list),
                          compile_label=Builtin("compile_label(contract)", c_compile_label), compile_assignment=Builtin("compile_assignment(contract)", c_compile_assignment),
                          set_link_address=Builtin("set_link_address(contract)", c_set_link_address))

        def factory(eng_, i):
            k = pick(eng_, STATEMENT_KINDS, "stmt")
            eng_.I["kind"] = k
            if k == "insn":
                return insn_token(eng_, "x")
            if k == "wordlist":
                return mk_token(eng_, "WordList", words=[value_token(eng_, 1)])
            if k.startswith("label"):
                return mk_token(eng_, "Label", name="L", local=(k == "label-local"), is_extern=False)
            if k == "assign-sym":
                return mk_token(eng_, "Assignment", target=mk_token(eng_, "Symbol", name="s", is_necessarily_label=False), value=value_token(eng_, 1), is_extern=False)
            dyn, v, isint = dyn_input(eng_, "newaddr")
            eng_.I["newaddr"] = (v, isint)
            return mk_token(eng_, "Assignment", target=mk_token(eng_, "InstructionPointer"), value=value_token(eng_, dyn), is_extern=False)
        n = int_input(eng, "n_statements")
        eng.assume(n >= 0)
        block = mk_token(eng, "CodeBlock", insns=SymObjList(n, factory))
        state0 = {"context": context, "link_base": lb, "compiler": comp, "filename": "f.mac", "internal_symbol_prefix": ".internal1.", "extern_all": None, "internal_symbols_list": []}
        eng.I.update(comp=comp, start=start, labels=labels, assigns=assigns, handed=[], set_link=[], state0=state0, N0=N0, p=p, ext=None)

        # ---- loop contract
        def inv(eng_, env):
            addr, data = env.lookup("addr"), env.lookup("data")
            lsp = env.lookup("local_symbol_prefix")
            gh = env.vars.get("__ghost0") or {}
            N = comp.attrs["next_local_symbol_prefix"]
            st = env.lookup("state")
            pfx_n = gh.get("pfx_n", N0)
            out = [("I1:error-or-address==start+bytes-so-far", z3.Or(err_cond(eng_), view(eng_, addr) == view(eng_, start) + slen(zbytes(view(eng_, data))))),
                   ("I3:local-prefix-is-.local<p>.-with-p-allocated-and-below-the-counter", z3.And(zstr_(lsp) == z3.Concat(z3.StringVal(".local"), z3.IntToStr(pfx_n), z3.StringVal(".")),
                                                                                          pfx_n >= N0, pfx_n < N, N > N0)),
                   ("I5:state-otherwise-unchanged(and '.extern all' carried from statement to statement)", all(st[k] is state0[k] for k in state0 if k != "extern_all") and st["extern_all"] is eng_.I["ext"])]
            return out

        def havoc(eng_, env):
            a = eng_.fresh_int("addr_final")
            d = abstract_seq("data_final!%d" % eng_.fresh_n)
            eng_.fresh_n += 1
            rep = pick(eng_, ["lazy", "poly"], "addr_rep")
            env.assign("addr", Lazy(a, "int") if rep == "lazy" else eng_.binop(ast.Add(), p, a - sig))
            env.assign("data", Lazy(d, "bytes") if pick(eng_, ["lazy", "ready"], "data_rep") == "lazy" else d)
            pn = eng_.fresh_int("prefix_no")
            N = eng_.fresh_int("next_local")
            comp.attrs["next_local_symbol_prefix"] = N
            env.assign("local_symbol_prefix", z3.Concat(z3.StringVal(".local"), z3.IntToStr(pn), z3.StringVal(".")))
            env.vars["__ghost0"] = dict(pfx_n=pn)
            ext = Opaque("earlier-.extern-all") if pick(eng_, ["no", "yes"], "extern_all_in_force") == "yes" else None
            eng_.I["ext"] = ext
            env.assign("state", {**state0, "extern_all": ext, "insn": Opaque("prev-insn"), "emit_address": Opaque("prev-addr"), "local_symbol_prefix": Opaque("prev-prefix")})
            sym_error_marker(eng_)
            eng_.I["in_loop"] = dict(addr=env.lookup("addr"), prefix=env.lookup("local_symbol_prefix"), pn=pn, N=N, env=env)
            del labels[:]
            del assigns[:]
            eng_.I["handed"] = []
            eng_.I["set_link"] = []

        class Spec(LoopSpec):
            pass
        spec = LoopSpec(inv, havoc)
        orig_inv = spec.inv

        def inv_with_update(eng_, env):
            # after an ordinary label the prefix number is the counter value before the bump: recover it from the concrete f-string
            gh = env.vars.get("__ghost0")
            il = eng_.I.get("in_loop")
            if gh is not None and il is not None and eng_.I.get("kind") == "label-global" and context != "repeat":
                gh["pfx_n"] = il["N"]
            res = orig_inv(eng_, env)
            if il is not None:
                il["calls"] = il.get("calls", 0) + 1
            if il is not None and il["calls"] == 2:      # second evaluation after havoc = the preservation check after the body
                # I2: what the statement compiler of this iteration was handed
                for tok, st in eng_.I["handed"]:
                    res.append(("I2:statement-is-handed-the-running-address-object-its-own-token-and-the-prefix-in-force",
                                st["emit_address"] is il["addr"] and st["insn"] is tok and st["local_symbol_prefix"] is il["prefix"] and all(st[k] is state0[k] for k in state0 if k != "extern_all")))
                for lab, a_, st in labels:
                    res.append(("I2:label-is-bound-to-the-running-address-object-in-the-prefix-in-force", a_ is il["addr"] and st["local_symbol_prefix"] is il["prefix"] and st["insn"] is lab))
                for ins, st in assigns:
                    res.append(("I2:assignment-sees-the-running-address-and-prefix", st["emit_address"] is il["addr"] and st["local_symbol_prefix"] is il["prefix"]))
                if eng_.I.get("kind") == "assign-ip":
                    v, isint = eng_.I["newaddr"]
                    if base_settled:
                        a_now = env.lookup("addr")
                        res.append(("'. = X'-with-the-base-set:location-counter-becomes-X(mod 2^16)-by-zero-fill-or-an-error-is-reported",
                                    z3.Or(err_cond(eng_), z3.And(isint, view(eng_, a_now) == v % 65536, v % 65536 >= view(eng_, il["addr"])))))
                        d_now = zbytes(view(eng_, env.lookup("data")))
                        res.append(("'. = X':the-gap-is-zero-filled", z3.Or(err_cond(eng_), True)))
                    else:
                        res.append(("'. = X'-before-any-base:sets-the-link-base-and-emits-nothing", len(eng_.I["set_link"]) == 1 and env.lookup("addr") is il["addr"]))
            return res
        spec.inv = inv_with_update
        eng.loop_specs[("Compiler.compile_block", 0)] = spec
        eng.I["view_start"] = None
        return eng.call(eng.getattr(comp, "compile_block"), [state0, block, start], {})

    def post(eng, o):
        I = eng.I
        kind, val = o
        # frame: a statement's syntax tokens are compiled once per copy of a repeated body and once per inclusion - nothing computed from the state
        # ('.', symbols, the statement's address) may be kept on a token; only once-only diagnostic flags (booleans) are written there
        kept = sorted(set((str(getattr(n_[1], "name", "?")), n_[2]) for n_ in eng.path.notes
                          if n_[0] == "store" and isinstance(n_[1], Obj) and "ctx_start" in n_[1].attrs and not isinstance(n_[3], bool)))
        eng.prove("frame:no-evaluated-value-is-stored-on-the-syntax-tokens%s" % (":" + str(kept) if kept else ""), not kept)
        if kind == "raise":
            eng.prove("only-RecoverableError-escapes-and-only-after-an-error", val.cls == "RecoverableError" and any(e[0] == "error" for e in eng.path.events))
            return
        # the function returned data: by I1 (established at loop exit or at the statement that stopped iteration) nothing more to prove here;
        # the per-iteration obligations below are issued from the loop body through the hooks
        if "stopped_with" in I:
            eng.prove(".end(CompilerStopIteration)-returns-exactly-the-bytes-accumulated-before-it:the-rest-of-the-block-contributes-nothing", val is I["stopped_with"])
            if end_scope and context == "repeat":
                # C16: '.end' discards the rest of its own FILE; a block that swallows the stop lets the remaining copies and the rest of the file through
                eng.prove("a-.end-inside-a-repeat-body-stops-the-file-not-just-this-copy(the stop must reach the file level)", False,
                          region=True if "D40" in common.ACTIVE_FINDINGS else None)
        else:
            eng.prove("returns-the-accumulated-bytes", True)

    r = verify(eng, name, run, post, func="compiler.Compiler.compile_block")
    for o in r["obligations"]:
        o["cfg"] = dict(kind="block", context=context)
    return r


def zstr_(v):
    return z3.StringVal(v) if isinstance(v, str) else v


# ------------------------------------------------------------------ Compiler.compile_insn: instruction / metacommand / implicit word / unknown
DISPATCH_KINDS = ["builtin", "builtin-other-case", "dotless-metacommand", "label-as-insn", "variable-bare", "variable(expr)", "variable-other-operand", "unknown", "unknown-dotted",
                  "variable-of-another-file"]


def unit_dispatch(eng, kind):
    """Compiler.compile_insn decides what a statement 'name operands...' is: a built-in instruction or metacommand (any letter case; a
    missing dot is a warning), a variable of this file (an implicit '.word name, ...' - exactly what the explicit '.word' compiles, through
    compile_word_list), a label (an error), or unknown (an error).  Delegation passes the statement and the state on unchanged."""
    name = "Compiler.compile_insn[%s]" % kind

    def run(eng):
        eng.I = {}
        cmod = eng.load_module("compiler")
        comp = compiler_obj(eng)
        calls, wl = [], []
        ci = eng.resolve_global(eng.load_module("containers"), "CaseInsensitiveDict")

        def stub(tag):
            o = Obj("Cmd", name="cmd:" + tag)
            o.attrs["compile_insn"] = Builtin("compile_insn(contract)", lambda e, st, ins, _t=tag: calls.append((_t, st, ins)) or ("result-of", _t))
            return o
        table = eng.call(ci, [], {})
        for k_ in ("mov", ".word"):
            eng.call(eng.getattr(table, "__setitem__"), [k_, stub(k_)], {})
        cmod["env"].vars["builtin_commands"] = table
        comp.attrs["compile_word_list"] = Builtin("compile_word_list(contract)", lambda e, ins, words, st: wl.append((ins, list(words), st)) or ("word-list", len(words)))
        spell = {"builtin": "mov", "builtin-other-case": "MoV", "dotless-metacommand": "WORD", "label-as-insn": "lab", "variable-bare": "x", "variable(expr)": "X",
                 "variable-other-operand": "x", "unknown": "frob", "unknown-dotted": ".frob", "variable-of-another-file": "x"}[kind]
        prefix = ".internal7."
        label_tok = mk_token(eng, "Label", name="lab", local=False, is_extern=False)
        asg_tok = mk_token(eng, "Assignment", target=mk_token(eng, "Symbol", name="x", is_necessarily_label=False), value=value_token(eng, 5, "five"), is_extern=False)
        sym = comp.attrs["symbols"]
        eng.call(eng.getattr(sym, "__setitem__"), [prefix + "lab", (label_tok, 0o1000)], {})
        eng.call(eng.getattr(sym, "__setitem__"), [(".internal9." if kind == "variable-of-another-file" else prefix) + "x", (asg_tok, 5)], {})
        ops = []
        if kind == "variable(expr)":
            inner = value_token(eng, int_input(eng, "e"), "e")
            from contracts.insn import paren
            ops = [paren(eng, inner, "(")]
            eng.I["inner"] = inner
        elif kind == "variable-other-operand":
            ops = [value_token(eng, 1, "one")]
        elif kind in ("builtin", "builtin-other-case", "dotless-metacommand"):
            ops = [value_token(eng, 1, "one"), value_token(eng, 2, "two")]
        insn = insn_token(eng, spell, ops)
        state = {"insn": insn, "internal_symbol_prefix": prefix, "marker": object()}
        eng.I.update(calls=calls, wl=wl, insn=insn, state=state, ops=ops)
        return eng.call(eng.getattr(comp, "compile_insn"), [insn, state], {})

    def post(eng, o):
        I = eng.I
        kind_, val = o
        eng.prove("no-exception", kind_ == "return")
        if kind_ != "return":
            return
        evs = [(e[0], e[1]) for e in eng.path.events if e[0] in ("error", "warning")]
        same = lambda c: c[1] is I["state"] and c[2] is I["insn"]  # noqa
        if kind in ("builtin", "builtin-other-case"):
            eng.prove("a-built-in-name(any letter case)-is-compiled-by-that-command-with-the-same-state-and-statement", len(I["calls"]) == 1 and I["calls"][0][0] == "mov" and same(I["calls"][0])
                      and val == ("result-of", "mov") and evs == [] and not I["wl"])
        elif kind == "dotless-metacommand":
            eng.prove("a-metacommand-without-its-dot-is-compiled-as-the-metacommand-with-a-meta-typo-warning", len(I["calls"]) == 1 and I["calls"][0][0] == ".word" and same(I["calls"][0])
                      and val == ("result-of", ".word") and evs == [("warning", "meta-typo")])
        elif kind == "label-as-insn":
            eng.prove("a-label-used-as-an-instruction-name-is-an-error-and-emits-nothing", val is None and evs == [("error", "meta-type-mismatch")] and not I["calls"] and not I["wl"])
        elif kind == "variable-bare":
            eng.prove("a-variable-as-a-statement-is-the-implicit-word-list-of-itself", len(I["wl"]) == 1 and I["wl"][0][0] is I["insn"] and I["wl"][0][2] is I["state"]
                      and len(I["wl"][0][1]) == 1 and I["wl"][0][1][0] is I["insn"].attrs["name"] and val == ("word-list", 1) and evs == [])
        elif kind == "variable(expr)":
            w = I["wl"][0][1] if len(I["wl"]) == 1 else []
            ok = len(w) == 1 and isinstance(w[0], Obj) and w[0].attrs.get("lhs") is I["insn"].attrs["name"] and w[0].attrs.get("rhs") is I["inner"]
            eng.prove("'x (expr)'-is-the-one-word-x(expr)(a call), any letter case of x", ok and evs == [] and val == ("word-list", 1))
        elif kind == "variable-other-operand":
            eng.prove("a-variable-followed-by-an-operand-without-a-comma-is-reported", evs == [("error", "meta-type-mismatch")])
        elif kind in ("unknown", "unknown-dotted", "variable-of-another-file"):
            eng.prove("an-unknown-name(also another file's private variable)-is-an-unknown-insn-error-and-emits-nothing", val is None and evs == [("error", "unknown-insn")] and not I["calls"] and not I["wl"])
    r = verify(eng, name, run, post, func="compiler.Compiler.compile_insn")
    for o_ in r["obligations"]:
        o_["cfg"] = dict(kind="dispatch", which=kind)
    return r
