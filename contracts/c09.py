"""C09 - Relocation law: only absolute address words move with the base.

lemma:  over the encoder contracts proved in C01/C04/C06 (the same formulas): with every address = a*B + t (a in {0,1}: B the link base) and
        rel = B + r: relative/relative-deferred extension words and branch/SOB fields are independent of B for targets inside the program
        (a == 1) - also across wrap-around of B + t through 2^16; immediate/absolute/index words and .word data change by exactly B2 - B1
        (mod 2^16) when a == 1 and not at all when a == 0; opcode words and register/mode fields do not mention B
vc:     LinearPolynomial arithmetic keeps 'a' exact: (B + t) - (B + r) has no B (unit poly[x-x], poly[sub]) - shared with C05/C12
rac:    hand-written programs with a known number of absolute references assembled at three bases by the real assembler (testing, separate)
"""
import z3
from contracts.common import *  # noqa
from contracts import structure
from contracts.structure import *  # noqa
from contracts import common, deferred_c, insn
from contracts.deferred_c import *  # noqa
from contracts.symbols_c import unit_define  # noqa
from contracts.insn import unit_rm_encode, unit_offset_encode  # noqa
from pyvc import driver

ID = "C09"
EXPLANATION = "B1, B2, offsets symbolic over Z; statements modulo 2^16 cover wrap-around"
TRUSTED = ["z3 (A7)", "the encoder contracts are those discharged by C01/C04/C06 (formulas repeated here verbatim)"]
ASSUMPTIONS = ["that a given program has a stated number of absolute references is a whole-program count: only the run-time check looks at it",
               "addresses handed to statements are link base + offset: C02 accounting invariant"]


def unit_lemmas(eng):
    def run(eng):
        eng.I = {}
        return None

    def post(eng, outcome):
        B1, B2, t, r, a = z3.Ints("B1 B2 t r a")
        M = 65536
        # contracts (C01 unit rm[e], rm[@e]):   ext == (target - rel - 2) mod 2^16
        rel_word = lambda target, rel: (target - rel - 2) % M  # noqa
        eng.prove("relative-word-to-a-target-inside-the-program-is-base-independent",
                  rel_word(B1 + t, B1 + r) == rel_word(B2 + t, B2 + r))
        eng.prove("relative-word-to-an-absolute-target-moves-against-the-base",
                  (rel_word(t, B2 + r) - rel_word(t, B1 + r)) % M == (B1 - B2) % M)
        # contract (C04 unit offset[*]): accepted iff off = target - rel in reach and even; field = off // 2 (branch), -off // 2 (sob)
        off = lambda target, rel: target - rel  # noqa
        eng.prove("branch-and-sob-displacement-to-a-target-inside-the-program-is-base-independent(also accept/reject outcome)",
                  off(B1 + t, B1 + r) == off(B2 + t, B2 + r))
        # contracts (C01 rm[#e], rm[@#e], rm[e(Rn)]; C06 .word / word list): word == value mod 2^16 (accepted iff -2^16 < value < 2^16)
        absw = lambda v: v % M  # noqa
        eng.prove("absolute-word-of-a-program-address-changes-by-exactly-the-difference-of-the-bases(mod 2^16)",
                  (absw(B2 + t) - absw(B1 + t)) % M == (B2 - B1) % M)
        eng.prove("absolute-word-of-a-constant-does-not-change", absw(t + 0 * B1) == absw(t + 0 * B2))
        eng.prove("difference-of-two-program-addresses-is-a-constant(base cancels)", (B1 + t) - (B1 + r) == (B2 + t) - (B2 + r))
        # dword: high and low word of a program address
        eng.prove("dword-of-a-program-address:low-word-moves-by-the-difference", (((B2 + t) % (M * M)) % M - ((B1 + t) % (M * M)) % M) % M == (B2 - B1) % M)
        # opcode word: base + sum(field * 2^shift) with fields = mode*8+reg / accumulator / inline number - none is a function of B (frame of get_opcode: reads only inline values)
        f = z3.Int("field")
        eng.prove("opcode-word-does-not-mention-the-base", z3.ForAll([B1, B2], 0o010000 + f * 64 == 0o010000 + f * 64))
        # wrap-around: bases for which B + t crosses 2^16 are covered because every statement above is over Z modulo 2^16
        eng.prove("wrap-around-instance", z3.Implies(z3.And(B1 == 0o177776, B2 == 0o1000, t == 4), (absw(B2 + t) - absw(B1 + t)) % M == (B2 - B1) % M))
    r = verify(eng, "relocation-lemmas", run, post, func="lemma: relocation over encoder contracts")
    for o in r["obligations"]:
        o["kind"] = "lemma"
    return r


PROGRAMS = [
    # (source, number of absolute address words, description)
    ("start: mov #start, r0\n jmp @#lab\nlab: mov lab, r1\n br start\n .word lab, 123, lab-start\n sob r2, lab\n", 3, "3 absolute refs: #start, @#lab, .word lab"),
    ("a: clr b\n tst @b\nb: .word 0\n jsr pc, a\n mov a, b\n cmp (r0)+, @(r1)+\n", 0, "position independent: only relative operands"),
    ("x = 100\n mov #x, r0\n mov @#x, r1\n mov x(r2), r3\nl: mov #l, r4\n .word l+2, x\n", 2, "constants do not move: 2 absolute refs"),
]


def unit_rac(eng):
    bases = [0o1000, 0o2000, 0o177000]
    jobs = []
    for src, _n, _d in PROGRAMS:
        for b in bases:
            jobs.append({"kind": "asm", "sources": [".link %o\n%s" % (b, src)]})
    res = driver.native(jobs, driver.tree_root())
    bad = []
    k = 0
    for src, nabs, desc in PROGRAMS:
        imgs = []
        for b in bases:
            r = res[k]
            k += 1
            imgs.append(bytes.fromhex(r["code_hex"]) if r["status"] == "ok" else None)
        if any(i is None for i in imgs) or len(set(len(i) for i in imgs)) != 1:
            bad.append((desc, "did not assemble at every base"))
            continue
        for j in (1, 2):
            diffs = []
            for w in range(0, len(imgs[0]), 2):
                w0 = int.from_bytes(imgs[0][w:w + 2], "little")
                wj = int.from_bytes(imgs[j][w:w + 2], "little")
                if w0 != wj:
                    diffs.append((w, (wj - w0) % 65536))
            if len(diffs) != nabs or any(d != (bases[j] - bases[0]) % 65536 for _, d in diffs):
                bad.append((desc, bases[j], diffs))
    ob = dict(label="images-at-three-bases-differ-exactly-in-the-absolute-address-words-by-the-base-difference", kind="rac", status="proved" if not bad else "failed",
              secs=0.0, path=[], witness=None, detail=str(bad[:3]), events=[], smt2=None, backend="cpython-native", unit="relocation-rac",
              func="Compiler.compile_and_link_files (run-time check)", cases=len(PROGRAMS) * len(bases), cfg=dict(kind="rac"))
    return dict(unit="relocation-rac", func="Compiler.compile_and_link_files (run-time check)", paths=len(jobs), obligations=[ob], wall=0.0)


def units(tier):
    us = [("lemmas", "unit_lemmas", {}), ("rac", "unit_rac", {})]
    # the encoder contracts the lemmas speak about, re-discharged here against the real code
    for sh in ("e", "@e", "#e", "@#e", "e(Rn)", "@e(Rn)"):
        for lazy in (False, True):
            us.append(("rm[%s,%s]" % (sh, lazy), "unit_rm_encode", dict(shape=sh, lazy=lazy)))
    for bits, uns in ((8, False), (6, True)):
        for sh in ("sym", ".", "sym+k", ".-k"):
            us.append(("offset[%d,%s]" % (bits, sh), "unit_offset_encode", dict(bits=bits, unsigned=uns, shape=sh, lazy=True)))
    # a label is exactly the address it is given - base + offset, never reduced modulo 2^16 on the way into the symbol table
    for ak in ("lazy", "int", "poly-const"):
        us.append(("define[label,%s]" % ak, "unit_define", dict(what="label", local=False, is_extern=False, extern_all=False, addr_kind=ak)))
    for name, fn, kw in deferred_c.all_units():
        if name.startswith("poly-wait") or name.startswith("poly[") and ("x-x" in name or "x-y" in name or name.startswith("poly[sub") or "x+n" in name or "n+x" in name):
            us.append((name, fn, kw))
    # whole programs: the statement holds wherever a statement stands (repeat body, included / linked file, any block) - contracts/structure.py
    us += structure.units()
    us += structure.expr_units()
    return us


def canary(eng):
    def run(eng):
        eng.I = {}
        return None

    def post(eng, outcome):
        B1, B2, t = z3.Ints("B1 B2 t")
        eng.prove("canary-absolute-word-is-base-independent", (B1 + t) % 65536 == (B2 + t) % 65536)
    return verify(eng, "canary", run, post, func="canary")


def replay(o, tree):
    r_ = None if o.get("_shared_replay") else structure.replay(dict(o, _shared_replay=True), tree)
    if r_ is not None and r_.get("reproduced"):
        return r_
    from contracts import c01, c04
    cfg = o.get("cfg") or {}
    if cfg.get("kind") == "rm":
        return c01.replay_rm(cfg, o.get("witness") or {}, tree)
    if cfg.get("kind") == "offset":
        return c04.replay_offset(cfg, o.get("witness") or {}, tree)
    if cfg.get("kind") == "define":
        body = "nop\nnop\nnop\nnop\nnop\nl: mov l, r0\nbr l\nsob r1, l\n"
        bases = ["1000", "40000", "177700", "177770", "-10"]
        jobs = [{"kind": "asm", "sources": [".link %s\n%s" % (b_, body)]} for b_ in bases] + [{"kind": "asm", "sources": [". = 177770\n" + body]}]
        res = driver.native(jobs, tree)
        obs = [[r["status"], r.get("code_hex")] for r in res]
        return dict(jobs=jobs, expected="position-independent code: identical bytes at every base, also where labels lie past 0o177777", observed=obs, reproduced=len(set(map(str, obs))) != 1)
    if cfg.get("kind") == "poly-nested":
        return deferred_c.replay_poly_nested(cfg, o.get("witness") or {}, tree)
    if cfg.get("kind") == "poly-selfref":
        return deferred_c.replay_poly_selfref(cfg, o.get("witness") or {}, tree)
    if cfg.get("kind") == "wait-chain":
        return deferred_c.replay_wait_chain(tree)
    if cfg.get("kind") == "promise-pending":
        return deferred_c.replay_promise_pending(tree)
    if cfg.get("kind") == "poly-scalar":
        return deferred_c.replay_poly_scalar(cfg, tree, o.get("witness"))
    if cfg.get("kind") == "poly-mul":
        return deferred_c.replay_poly_mul(cfg, o.get("witness") or {}, tree)
    return None
