"""C13 - Output containers carry exactly the image.

vc:      formats.bin_, formats.raw, bk_wav.make_wav_file, bk_wav.encode_data_bits (generic byte), bk_wav.encode_as_wav
         (structure + checksum == end-around-carry sum), formats.bk_wav / bk_turbo_wav wrappers
closed:  pulse constants of Env == spec/bk_tape.py shapes; ZERO/ONE prefix-free (unique demodulation) for both environments
rac:     spec demodulator applied to the real encoder's output on a seeded corpus (testing, reported separately)
"""
import os
import z3
from contracts.common import *  # noqa
from contracts import common
from contracts.cli_c import unit_emit_files, EMIT_SHAPES, replay_emit_files  # noqa
from contracts.meta_c import unit_add_emitted, EMIT_CMDS, SOURCE_NAMES  # noqa
from pyvc import driver
from pyvc.engine import seqsum, to_z3bytes

ID = "C13"
EXPLANATION = "image bytes, base, name are symbolic (Seq(Int) of arbitrary length / Z); both WAV environments"
TRUSTED = ["pyvc engine semantics (A1)", "z3 (A7)", "struct.pack model for H, I, B, <n>s", "spec/bk_tape.py is the statement of the tape format (A6)",
           "long byte constants (pilot tones) are abstracted to named constants of known length; their content is checked in the closed obligations"]
ASSUMPTIONS = ["comprehension over a byte sequence is elementwise (map-concat): encode_data_bits is proved for a generic byte and for lengths 0, 1, 2",
               "sum(code) is an uninterpreted function of the sequence with the range fact for bytes",
               "os.path / devices.open_device / file system are external (A5); path derivation of make_* directives is covered by a bounded stand-in only"]


def format_fn(eng, name):
    """the function registered under `name` in formats.file_formats (the registry emit_files / main_cli call through)"""
    reg = eng.resolve_global(eng.load_module("formats"), "file_formats")
    return reg[name]


def sym_bytes(eng, name, length=None):
    return abstract_seq(name, length)


# ------------------------------------------------------------------ formats.bin_ / raw
def unit_bin(eng):
    def run(eng):
        eng.I = {}
        base = int_input(eng, "base")
        eng.assume(z3.And(base >= 0, base < 65536))    # requires: the base is a 16-bit address (C12: get_as_int(16 bits) / default 0o1000)
        code = sym_bytes(eng, "code")
        n = int_input(eng, "len")
        eng.assume(n == slen(code))
        eng.I.update(base=base, code=code)
        f = format_fn(eng, "bin")
        return eng.call(f, [base, code], {})

    def post(eng, outcome):
        base, code = eng.I["base"], eng.I["code"]
        kind, val = outcome
        fits = z3.And(base >= 0, base < 65536, slen(code) < 65536)
        if kind == "raise":
            # the 16-bit length field cannot hold a longer image: struct.error, which emit_files and the command line turn into a report (D8, fixed;
            # obligations Compiler.emit_files[*]::a-container-that-cannot-be-built... and main_cli[*]::failure-status-iff...)
            eng.prove("raises-only-struct.error-and-only-when-base-or-length-exceeds-16-bits", z3.And(z3.BoolVal(val.cls == "struct.error"), z3.Not(fits)))
            return
        eng.prove("returns-only-when-base-and-length-fit", fits)
        eng.prove("bin-is-base-length-little-endian-then-the-bytes", zbytes(val) == z3.Concat(le16(base), le16(slen(code)), code))
    r = verify(eng, "formats.bin_", run, post, func="formats.bin_")
    for o in r["obligations"]:
        o["cfg"] = dict(kind="bin")
    return r


def unit_raw(eng):
    def run(eng):
        eng.I = {}
        code = sym_bytes(eng, "code")
        eng.I["code"] = code
        return eng.call(format_fn(eng, "raw"), [int_input(eng, "base"), code], {})
    return verify(eng, "formats.raw", run, lambda eng, o: eng.prove("raw-is-the-bytes", o[0] == "return" and o[1] is eng.I["code"]), func="formats.raw")


# ------------------------------------------------------------------ bk_wav.make_wav_file
def unit_make_wav(eng):
    def run(eng):
        eng.I = {}
        data = sym_bytes(eng, "data")
        rate = int_input(eng, "rate")
        eng.assume(z3.And(rate >= 0, rate < 2 ** 32))
        eng.assume(slen(data) < 2 ** 32 - 36)
        eng.I.update(data=data, rate=rate)
        return eng.call(find_func(eng, "bk_wav", ["make_wav_file"]), [data, rate], {})

    def u32(v):
        return z3.Concat(z3.Unit(v % 256), z3.Unit(v / 256 % 256), z3.Unit(v / 65536 % 256), z3.Unit(v / 16777216))

    def post(eng, outcome):
        data, rate = eng.I["data"], eng.I["rate"]
        kind, val = outcome
        eng.prove("no-exception-for-data-below-4GiB", kind == "return")
        if kind != "return":
            return
        n = slen(data)
        hdr = z3.Concat(to_z3bytes(b"RIFF"), u32(36 + n), to_z3bytes(b"WAVE"), to_z3bytes(b"fmt "), u32(z3.IntVal(16)), le16(1), le16(1), u32(rate), u32(rate), le16(1), le16(8),
                        to_z3bytes(b"data"), u32(n))
        eng.prove("riff-header-8-bit-mono-pcm-then-the-samples", zbytes(val) == z3.Concat(hdr, data))
        eng.prove("header-is-44-bytes", slen(zbytes(val)) == 44 + n)
    return verify(eng, "bk_wav.make_wav_file", run, post, func="bk_wav.make_wav_file")


# ------------------------------------------------------------------ bk_wav.encode_data_bits
def unit_data_bits(eng, n):
    def run(eng):
        eng.I = {}
        bs = []
        for i in range(n):
            b = int_input(eng, "b%d" % i)
            eng.assume(z3.And(b >= 0, b <= 255))
            bs.append(b)
        zero, one = sym_bytes(eng, "ZERO"), sym_bytes(eng, "ONE")
        env = Obj("Env", dict(ZERO=zero, ONE=one), name="env")
        eng.I.update(bs=bs, zero=zero, one=one)
        return eng.call(find_func(eng, "bk_wav", ["encode_data_bits"]), [tuple(bs), env], {})

    def post(eng, outcome):
        bs, zero, one = eng.I["bs"], eng.I["zero"], eng.I["one"]
        kind, val = outcome
        eng.prove("no-exception", kind == "return")
        if kind != "return":
            return
        parts = []
        for b in bs:
            for i in range(8):
                parts.append(z3.If((b / 2 ** i) % 2 == 1, one, zero))
        want = z3.Empty(BYTES) if not parts else parts[0] if len(parts) == 1 else z3.Concat(*parts)
        eng.prove("eight-pulses-per-byte-least-significant-bit-first", zbytes(val) == want)
    return verify(eng, "bk_wav.encode_data_bits[n=%d]" % n, run, post, func="bk_wav.encode_data_bits")


# ------------------------------------------------------------------ bk_wav.encode_as_wav
bitsfn = z3.Function("bits", BYTES, z3.IntSort(), BYTES)        # encode_data_bits(data, env#)
wavfn = z3.Function("wav", BYTES, z3.IntSort(), BYTES)          # make_wav_file(data, rate)


def spec_eac16(S):
    return z3.If(S == 0, 0, (S - 1) % 65535 + 1)


def unit_encode_as_wav(eng, turbo, via):
    """via: 'direct' (encode_as_wav) | 'format' (formats.bk_wav / bk_turbo_wav wrappers)"""
    name = "bk_wav.encode_as_wav[%s,%s]" % ("turbo" if turbo else "standard", via)

    def run(eng):
        eng.I = {}
        envcls = eng.resolve_global(eng.load_module("bk_wav"), "TurboEnv" if turbo else "Env")
        envid = 1 if turbo else 0

        calls = []
        eng.I["calls"] = calls

        def c_bits(eng_, data, env):
            eng_.prove("encode_data_bits-called-with-the-selected-environment", env is envcls)
            calls.append(to_z3bytes(data))
            return bitsfn(to_z3bytes(data), envid)

        def c_wav(eng_, data, rate):
            return wavfn(to_z3bytes(data), z3.IntVal(rate) if isinstance(rate, int) else rate)
        eng.contracts["encode_data_bits"] = c_bits
        eng.contracts["make_wav_file"] = c_wav
        base = int_input(eng, "base")
        eng.assume(z3.And(base >= 0, base < 65536))
        code = sym_bytes(eng, "code")
        eng.assume(slen(code) < 65536)
        S = int_input(eng, "sum")
        eng.assume(S == seqsum(code))
        namev = sym_bytes(eng, "name", 16)
        eng.I.update(base=base, code=code, name=namev, envcls=envcls, envid=envid, S=S)
        if via == "direct":
            f = find_func(eng, "bk_wav", ["encode_as_wav"])
            return eng.call(f, [base, code, namev], {"turbo": True} if turbo else {})
        f = format_fn(eng, "bk_turbo_wav" if turbo else "bk_wav")
        return eng.call(f, [base, code, namev], {})

    def post(eng, outcome):
        I = eng.I
        kind, val = outcome
        eng.prove("no-exception-for-16-bit-base-length-and-16-byte-name", kind == "return")
        if kind != "return":
            return
        env = I["envcls"]
        g = lambda a: to_z3bytes(env.ns[a])  # noqa
        S = seqsum(I["code"])
        calls = I["calls"]
        eng.prove("three-bit-streams:header-data-checksum", len(calls) == 3)
        if len(calls) != 3:
            return
        eng.prove("header-is-base-length-little-endian-then-the-16-byte-name", calls[0] == z3.Concat(le16(I["base"]), le16(slen(I["code"])), I["name"]))
        eng.prove("data-stream-is-the-image", calls[1] == I["code"])
        region = z3.And(S > 0, S % 65535 == 0) if "D1" in common.ACTIVE_FINDINGS else None
        eng.prove("checksum-word-is-the-16-bit-end-around-carry-sum-little-endian", calls[2] == le16(spec_eac16(S)), region=region)
        parts = [g("SYNC"), bitsfn(calls[0], I["envid"]), g("PAUSE"), bitsfn(calls[1], I["envid"])]
        if turbo:
            parts.append(g("PAUSE"))
        parts += [bitsfn(calls[2], I["envid"]), g("EOF")]
        eng.prove("train-is-sync-header-pause-data-[pause]-checksum-eof-in-a-wav-at-the-environment-rate", zbytes(val) == wavfn(z3.Concat(*parts), env.ns["sample_rate"]))
    r = verify(eng, name, run, post, func="bk_wav.encode_as_wav" if via == "direct" else "formats.bk_wav")
    for o in r["obligations"]:
        o["cfg"] = dict(kind="wav", turbo=turbo)
    return r


# ------------------------------------------------------------------ closed facts about the pulse constants
def unit_constants(eng):
    from spec import bk_tape
    code = r'''
from pdpy11 import bk_wav
result = {}
for n, env in (("Env", bk_wav.Env), ("TurboEnv", bk_wav.TurboEnv)):
    result[n] = dict(ONE=env.ONE.hex(), ZERO=env.ZERO.hex(), SYNC=env.SYNC.hex(), PAUSE=env.PAUSE.hex(), EOF=env.EOF.hex(), rate=env.sample_rate)
result["levels"] = {c: bk_wav.translate_audio_levels(c).hex() for c in "HSL"}
'''
    res = driver.native([{"kind": "py", "code": code}], driver.tree_root())[0]["result"]
    obs = []
    unit, func = "pulse-constants", "bk_wav.Env / TurboEnv (closed)"

    def ob(label, ok, detail=""):
        obs.append(dict(label=label, kind="closed", status="proved" if ok else "failed", secs=0.0, path=[], witness=None, detail=str(detail)[:300],
                        events=[], smt2=None, backend="cpython-eval", unit=unit, func=func, cfg=dict(kind="closed")))
    lv = {c: bytes.fromhex(h)[0] for c, h in res["levels"].items()}
    ob("levels-high-above-threshold-low-below", lv["H"] >= 128 and lv["S"] >= 128 and lv["L"] < 128, lv)
    lvl = lambda s: bytes(lv[c] for c in s)  # noqa
    E = {k: (bytes.fromhex(v) if isinstance(v, str) else v) for k, v in res["Env"].items()}
    std = bk_tape.STD
    ob("standard-zero==synchro+short", E["ZERO"] == lvl(std["zero"]))
    ob("standard-one==synchro+long", E["ONE"] == lvl(std["one"]))
    ob("standard-lead==pilot-4096+marker+pilot+marker", E["SYNC"] == lvl(std["short_sync"]) * 4096 + lvl(std["marker"]) + E["PAUSE"])
    pa = E["PAUSE"]
    ob("standard-block-gap==pilot(>=8)+marker", pa.endswith(lvl(std["marker"])) and len(pa[:-len(lvl(std["marker"]))]) % 4 == 0
       and pa[:-len(lvl(std["marker"]))] == lvl(std["short_sync"]) * (len(pa[:-len(lvl(std["marker"]))]) // 4) and len(pa[:-len(lvl(std["marker"]))]) // 4 >= 8)
    ob("standard-trailer-is-pilot", len(E["EOF"]) % 4 == 0 and E["EOF"] == lvl(std["short_sync"]) * (len(E["EOF"]) // 4))
    ob("standard-sample-rate", E["rate"] == std["rate"])
    for n in ("Env", "TurboEnv"):
        one, zero = bytes.fromhex(res[n]["ONE"]), bytes.fromhex(res[n]["ZERO"])
        ob("%s-bit-pulses-prefix-free(unique demodulation)" % n, not one.startswith(zero) and not zero.startswith(one) and one and zero)
        ph = lambda b: [(h, lo) for h, lo in bk_tape.pulses(b)]  # noqa
        ob("%s-bit-pulses-differ-in-high-width" % n, ph(one) != ph(zero))
    return dict(unit=unit, func=func, paths=1, obligations=obs, wall=0.0)


# ------------------------------------------------------------------ rac: spec demodulator on the real encoder's output
def unit_demodulate_rac(eng, tier="quick"):
    import random
    import os
    from spec import bk_tape
    rnd = random.Random(int(os.environ.get("VERIF_SEED", "0") or 0))
    images = [b"", b"\x00", b"\xff", b"\xff" * 257, b"\x01" * 65535, bytes(range(256)), b"\xff" * 514]
    for _ in range(12 if tier == "quick" else 120):
        images.append(bytes(rnd.randrange(256) for _ in range(rnd.randrange(0, 600))))
    jobs = []
    metas = []
    for img in images:
        base = rnd.choice([0, 0o1000, 0o177776, rnd.randrange(65536)])
        name = bytes(rnd.randrange(32, 127) for _ in range(rnd.randrange(0, 17))).ljust(16, b" ")
        code = "from pdpy11.bk_wav import encode_as_wav\nresult = encode_as_wav(%d, bytes.fromhex(%r), bytes.fromhex(%r)).hex()\n" % (base, img.hex(), name.hex())
        jobs.append({"kind": "py", "code": code})
        metas.append((base, img, name))
    res = driver.native(jobs, driver.tree_root())
    obs = []
    bad = []
    known = "D1" in common.ACTIVE_FINDINGS
    for (base, img, name), r in zip(metas, res):
        try:
            wav = bytes.fromhex(r["result"])
            assert wav[:44] == bk_tape.riff_header(len(wav) - 44, 21428), "riff header"
            d = bk_tape.demodulate(wav[44:])
            want = dict(base=base, length=len(img), name=name, data=img, checksum=bk_tape.eac16(sum(img)))
            got = {k: d[k] for k in want}
            if got != want:
                if known and sum(img) > 0 and sum(img) % 65535 == 0 and {k: v for k, v in got.items() if k != "checksum"} == {k: v for k, v in want.items() if k != "checksum"}:
                    continue
                bad.append((base, len(img), {k: (got[k], want[k]) for k in want if got[k] != want[k] and k != "data"}))
        except Exception as e:  # pylint: disable=broad-except
            bad.append((base, len(img), repr(e)))
    obs.append(dict(label="demodulate(encode_as_wav(image))==(base,length,name,bytes,eac16)", kind="rac", status="proved" if not bad else "failed", secs=0.0, path=[],
                    witness=None, detail=str(bad[:3]), events=[], smt2=None, backend="cpython-native", unit="demodulate-rac", func="bk_wav.encode_as_wav (run-time check)",
                    cases=len(images), cfg=dict(kind="rac")))
    return dict(unit="demodulate-rac", func="bk_wav.encode_as_wav (run-time check)", paths=len(images), obligations=obs, wall=0.0)


def unit_bounded_paths(eng):
    """bounded stand-in for devices.resolve_relative_path (os.path is the stdlib's): a relative path is taken from the directory of the
    including source file, an absolute one is used as written - against an independent few-line reference"""
    rels = ["out.bin", "sub/x.raw", "./a", "../up.bin", "a/../b", "/abs/x.bin", "/", "x//y", "dir/", "\u0444.bin", "a b.wav",
            # absolute paths that are not in normal form name the same file as their normal form
            "/d/sub/../x.bin", "/d//x", "/d/./x.wav", "/a/b/c/../../y", "/./z",
            # a name that merely begins with a tilde is an ordinary relative path unless it names a known device
            "~image", "~rom out", "~a.bin", "x~y", "dir/~a", "~Image"]
    bases = ["/src/prog.mac", "prog.mac", "dir/prog.mac", "/a/b/../c/p.mac", "./p.mac"]
    code = "from pdpy11.devices import resolve_relative_path\nresult = [[r, b, resolve_relative_path(r, b)] for r in %r for b in %r]\n" % (rels, bases)
    res = driver.native([{"kind": "py", "code": code}], driver.tree_root())[0]

    def ref(rel, base):
        if rel.startswith("/"):
            base, absolute_rel = "/", True
        parts = [] if "/" not in base else base.rsplit("/", 1)[0].split("/")
        absolute = base.startswith("/")
        out = []
        for p_ in [x for x in parts if x not in ("", ".")] + [x for x in rel.split("/") if x not in ("", ".")]:
            if p_ == ".." and out and out[-1] != "..":
                out.pop()
            elif p_ == ".." and absolute:
                pass
            else:
                out.append(p_)
        r_ = ("/" if absolute else "") + "/".join(out)
        return r_ or ("/" if absolute else ".")
    bad = []
    n = 0
    if res["status"] != "ok":
        bad.append(str(res)[:300])
    else:
        for rel, base, got in res["result"]:
            n += 1
            if got != ref(rel, base):
                bad.append((rel, base, got, ref(rel, base)))
    ob = dict(label="resolve_relative_path==reference(relative to the including file's directory; absolute paths unchanged)", kind="bounded", status="proved" if n and not bad else "failed", secs=0.0,
              path=[], witness=None, detail=str(bad[:4]), events=[], smt2=None, backend="cpython-native", unit="bounded-paths", func="devices.resolve_relative_path (bounded stand-in)",
              bound="%d path forms x %d source-file forms" % (len(rels), len(bases)), cases=n, cfg=dict(kind="bounded"))
    return dict(unit="bounded-paths", func="devices.resolve_relative_path (bounded stand-in)", paths=n, obligations=[ob], wall=0.0)



def unit_include(eng):
    """an output requested inside an INCLUDED file resolves against that file's directory: '.include' parses the file under its resolved path
    (contracts/meta_c.py, shared with C02)"""
    from contracts import meta_c
    return meta_c.unit_include(eng)


def unit_paths_rac(eng=None, tree=None):
    """the real command line, started in ANOTHER directory: outputs requested by the main file, by an included file in a sub-directory (by a
    relative and by a default name) and by a file included from there land beside the file that asks for them"""
    import subprocess
    import tempfile
    import shutil
    tree = tree or driver.tree_root()
    d = tempfile.mkdtemp(prefix="pyvc-c13-paths-")
    bad = []
    try:
        os.makedirs(os.path.join(d, "proj", "sub", "deep"))
        os.makedirs(os.path.join(d, "work"))
        open(os.path.join(d, "proj", "main.mac"), "w").write('mov #1, r0\nmake_raw "main.raw"\n.include "sub/part.mac"\nmake_bin\nmake_raw "~image"\n')
        open(os.path.join(d, "proj", "sub", "part.mac"), "w").write('nop\nmake_raw "part.raw"\nmake_bin\n.include "deep/leaf.mac"\nmake_wav "tape.wav", "NAME"\n')
        open(os.path.join(d, "proj", "sub", "deep", "leaf.mac"), "w").write('halt\nmake_raw "../up.raw"\nmake_raw\n')
        p = subprocess.run(["/venv/bin/python", "-c", "import sys; sys.path.insert(0, %r); sys.argv = ['pdpy11'] + sys.argv[1:]; from pdpy11._cli import main_cli; main_cli()" % tree,
                            "../proj/main.mac"], cwd=os.path.join(d, "work"), capture_output=True, text=True, timeout=120)
        found = sorted(os.path.relpath(os.path.join(r_, f), d) for r_, _, fs in os.walk(d) for f in fs if not f.endswith(".mac"))
        want = sorted(["proj/~image", "proj/main.raw", "proj/main.bin", "proj/sub/part.raw", "proj/sub/part.bin", "proj/sub/tape.wav", "proj/sub/up.raw", "proj/sub/deep/leaf"])
        if p.returncode != 0 or found != want:
            bad.append(dict(exit=p.returncode, files_written=found, expected=want, stderr=p.stderr[-300:]))
        else:
            img = bytes.fromhex("c0150100" + "a000" + "0000")
            for f in ("proj/~image", "proj/main.raw", "proj/sub/part.raw", "proj/sub/up.raw", "proj/sub/deep/leaf"):
                if open(os.path.join(d, f), "rb").read() != img:
                    bad.append(dict(file=f, holds=open(os.path.join(d, f), "rb").read().hex(), expected=img.hex()))
    finally:
        shutil.rmtree(d, ignore_errors=True)
    ob = dict(label="outputs-requested-by-main-included-and-nested-files-land-beside-the-requesting-file-whatever-the-working-directory", kind="rac", status="proved" if not bad else "failed", secs=0.0,
              path=[], witness=None, detail=str(bad[:2])[:1500], events=[], smt2=None, backend="cpython-native", unit="paths-rac", func="_cli.main_cli (run-time check)", cases=1, cfg=dict(kind="paths-rac"))
    return dict(unit="paths-rac", func="_cli.main_cli (run-time check)", paths=1, obligations=[ob], wall=0.0, bad=bad)


def units(tier):
    us = [("bin", "unit_bin", {}), ("raw", "unit_raw", {}), ("make_wav", "unit_make_wav", {}), ("constants", "unit_constants", {}),
          ("demodulate-rac", "unit_demodulate_rac", dict(tier=tier)), ("bounded-paths", "unit_bounded_paths", {}), ("include", "unit_include", {}), ("paths-rac", "unit_paths_rac", {})]
    for n in (0, 1, 2):
        us.append(("data_bits[%d]" % n, "unit_data_bits", dict(n=n)))
    for turbo in (False, True):
        for via in ("direct", "format"):
            us.append(("wav[%s,%s]" % (turbo, via), "unit_encode_as_wav", dict(turbo=turbo, via=via)))
    for sh in EMIT_SHAPES:
        us.append(("emit_files[%s]" % ",".join(sh), "unit_emit_files", dict(shape=sh)))
    for cmd in EMIT_CMDS:
        for hp, hn in ((False, False), (True, False), (True, True)):
            if hn and not cmd.endswith("wav"):
                continue
            for src in (SOURCE_NAMES if not hp else ["/src/prog.mac"]):
                us.append(("%s[%s,%s,%s]" % (cmd, hp, hn, src), "unit_add_emitted", dict(cmd=cmd, has_path=hp, has_name=hn, source=src)))
    return us


def canary(eng):
    def run(eng):
        eng.I = {}
        return None
    return verify(eng, "canary", run, lambda eng, o: eng.prove("canary-mod-65535-is-eac", z3.Int("S") % 65535 == spec_eac16(z3.Int("S"))), func="canary")


def _wav_checksum_replay(total_ff, tree, extra=0):
    """an image of total_ff bytes 0xFF plus (if extra) one byte `extra`: any byte sum can be reached this way"""
    from spec import bk_tape
    img = b"\xff" * total_ff + (bytes([extra]) if extra else b"")
    code = "from pdpy11.bk_wav import encode_as_wav\nresult = encode_as_wav(512, b'\\xff' * %d + %r, b'NAME'.ljust(16)).hex()\n" % (total_ff, bytes([extra]) if extra else b"")
    r = driver.native([{"kind": "py", "code": code}], tree)[0]
    d = bk_tape.demodulate(bytes.fromhex(r["result"])[44:])
    exp = bk_tape.eac16(sum(img))
    return dict(jobs=[{"kind": "py", "code": code}], image="%d bytes of 0xFF%s (sum %d = 0x%x)" % (total_ff, " and one byte 0x%02x" % extra if extra else "", sum(img), sum(img)),
                expected=[exp], observed=[d["checksum"]], reproduced=d["checksum"] != exp)


def replay_add_emitted(o, tree):
    """the directive in a real source file under each source-name form: the files that appear and, for tapes, the demodulated name"""
    import os
    import shutil
    import subprocess
    import tempfile
    from spec import bk_tape
    cfg = o["cfg"]
    d = tempfile.mkdtemp(prefix="pyvc-path-")
    bad = []
    try:
        for srcname, stem in (("prog.mac", "prog"), ("GAME.MAC", "GAME"), ("prog.asm", "prog.asm"), ("noext", "noext")):
            wd = os.path.join(d, srcname.replace(".", "_"))
            os.makedirs(os.path.join(wd, "sub"))
            ops = []
            if cfg["has_path"]:
                ops.append('"sub/out.file"')
            tape_name = "TAPE NAME"
            wt = (o.get("witness") or {}).get("tape")
            if isinstance(wt, str) and len(wt) <= 16 and all(32 <= ord(c) < 127 and c not in '"\\' for c in wt):
                tape_name = wt                      # the solver's own tape name (e.g. the empty string)
            if cfg["has_name"]:
                ops.append('"%s"' % tape_name)
            open(os.path.join(wd, srcname), "w").write("%s %s\n.word 1, 2\n" % (cfg["cmd"], ", ".join(ops)))
            p = subprocess.run(["/venv/bin/python", "-c", "import sys; sys.path.insert(0, %r); sys.argv = ['pdpy11', %r]; from pdpy11._cli import main_cli; main_cli()" % (tree, srcname)],
                               cwd=wd, capture_output=True, text=True, timeout=120)
            fmt, ext = EMIT_CMDS[cfg["cmd"]]
            want = "sub/out.file" if cfg["has_path"] else stem + ext
            files = sorted(os.path.relpath(os.path.join(r_, f), wd) for r_, _, fs in os.walk(wd) for f in fs if f != srcname)
            if files != [want]:
                bad.append((srcname, "files", files, "expected", [want])); continue
            data = open(os.path.join(wd, want), "rb").read()
            if fmt == "raw" and data != b"\x01\0\x02\0":
                bad.append((srcname, "raw bytes", data.hex()))
            if fmt == "bin" and data != b"\0\x02\x04\0\x01\0\x02\0":
                bad.append((srcname, "bin bytes", data.hex()))
            if fmt == "bk_wav":
                nm = bytes(bk_tape.demodulate(data[44:])["name"])
                exp = (tape_name.encode() if cfg["has_name"] else (b"out.file" if cfg["has_path"] else stem.encode())).ljust(16)
                if nm != exp:
                    bad.append((srcname, "tape name", nm, "expected", exp))
        return dict(jobs=None, experiment="%s with path=%s name=%s under four source-file names, through the real CLI" % (cfg["cmd"], cfg["has_path"], cfg["has_name"]), observed=bad or "as expected", reproduced=bool(bad))
    finally:
        shutil.rmtree(d, ignore_errors=True)


def replay(o, tree):
    if (o.get("cfg") or {}).get("kind") in ("include", "paths-rac") or o.get("unit") == ".include":
        r = unit_paths_rac(None, tree)
        return dict(jobs=None, experiment="the real command line started in another directory (contracts/c13.py unit_paths_rac)", observed=r["bad"][:1], reproduced=bool(r["bad"]))
    cfg = o.get("cfg") or {}
    w = o.get("witness") or {}
    if o.get("kind") == "bounded":
        return None
    if cfg.get("kind") == "emit_files":
        return replay_emit_files(o, tree)
    if cfg.get("kind") == "add_emitted":
        return replay_add_emitted(o, tree)
    if cfg.get("kind") == "wav":
        # smallest image with a positive byte sum that is a multiple of 65535: 257 bytes of 0xFF; generally use the witness sum if feasible
        S = w.get("sum", 65535)
        tries = []
        if isinstance(S, int) and 0 < S < 255 * 70000:
            tries.append(divmod(S, 255))
        # the sums where 16-bit folding is delicate: multiples of 65535, one carry, two carries, the first sum whose fold carries again
        tries += [(257, 0), (257, 1), (514, 0), (514, 1), (515, 0), (771, 0), (1028, 3), (0, 7)]
        last = None
        for q, r_ in tries:
            last = _wav_checksum_replay(q, tree, r_)
            if last["reproduced"]:
                return last
        return last
    if cfg.get("kind") == "bin":
        n = max(0, w.get("len", 3))
        if n >= 65536:
            n = 65536
        elif n > 2000:
            n = 2000
        base = w.get("base", 0o1000) % 65536 or 0o1000
        code = "from pdpy11.formats import file_formats\ntry:\n    result = file_formats['bin'](%d, bytes(range(7)) * 0 + bytes([i %% 251 for i in range(%d)])).hex()\nexcept Exception as e:\n    result = 'EXC:' + type(e).__name__\n" % (base, n)
        r = driver.native([{"kind": "py", "code": code}], tree)[0]
        exp = "a diagnostic, not an exception" if n >= 65536 else (base.to_bytes(2, "little") + n.to_bytes(2, "little") + bytes([i % 251 for i in range(n)])).hex()
        return dict(jobs=[{"kind": "py", "code": code}], expected=[exp[:64]], observed=[str(r.get("result"))[:64]], reproduced=str(r.get("result")) != exp)
    return None


def witness_D1(tree):
    r = _wav_checksum_replay(257, tree)
    return r["reproduced"], "257 x 0xFF: checksum %s, end-around-carry sum %s" % (r["observed"], r["expected"])


def witness_D8(tree):
    """the real command line on an image of 120000 bytes with a bin output: the internal-error path instead of a diagnostic"""
    import subprocess
    import tempfile
    import shutil
    d = tempfile.mkdtemp(prefix="pyvc-d8-")
    try:
        open(os.path.join(d, "p.mac"), "w").write(".blkb 60000.\n.blkb 60000.\n")
        p = subprocess.run(["/venv/bin/python", "-c", "import sys; sys.path.insert(0, %r); sys.argv = ['pdpy11'] + sys.argv[1:]; from pdpy11._cli import main_cli; main_cli()" % tree,
                            "p.mac", "-o", "big.bin"], cwd=d, capture_output=True, text=True, timeout=120)
        return "internal compiler error" in p.stderr, "-o big.bin for an image of 120000 bytes: exit %d, %s" % (p.returncode, "internal-error path" if "internal compiler error" in p.stderr else "reported")
    finally:
        shutil.rmtree(d, ignore_errors=True)


FINDING_WITNESS = {"D1": witness_D1, "D8": witness_D8}
