"""C11 - Symbol scoping and linking.

vc on map-shaped ghost state (symbol names are symbolic strings, the two tables arbitrary):
  compile_label / compile_assignment (key of the right scope, duplicate => error and no change, exports), declare_external_symbol,
  Symbol._resolve (own scope first - now or LATER - then exported; invisible => undefined-symbol in the final pass, never a private symbol of
  another file), compile_file (fresh file prefix), compile_block loop invariant I3 (fresh local scope at block entry and after every ordinary
  label), metacommands.extern incl. 'all'; lemma: keys of different scopes never collide
rac: multi-file / multi-scope programs on the real assembler (testing, separate)
"""
import z3
from contracts.common import *  # noqa
from contracts import structure
from contracts.structure import *  # noqa
from contracts.deferred_c import *  # noqa
from contracts import common, symbols_c, compiler_c
from contracts.symbols_c import *  # noqa
from contracts.compiler_c import unit_compile_block, unit_dispatch  # noqa
from pyvc import driver

ID = "C11"
EXPLANATION = "names are z3 strings, tables are arbitrary maps plus the insertions of the path; statement lists of arbitrary length for the scope invariant"
TRUSTED = ["pyvc engine semantics incl. the SymMap model of dicts with symbolic keys (A1)", "z3 string theory for the key lemmas (A7)",
           "str.lower() is an uninterpreted function; case folding itself is the stdlib's"]
ASSUMPTIONS = ["A2: numeric local labels (digit-initial names) are only ever defined in the local scope, other names only under the file prefix; names do not start with '.'",
               "Symbol._resolve runs non-speculatively (try_compute.depth == 0) only in the final waits, after every definition and export has been made",
               "comparison with the reference assembler is outside (none installed)",
               "a '.repeat' body opens a fresh local scope (compile_block does so for every block): a local label of the enclosing scope is not visible inside - "
               "errs on the side of an 'undefined-symbol' error, never of a wrong binding (observation D11, not claimed either way)"]


def unit_rac(eng):
    cases = [
        # (sources, expected status, expected image hex or None)
        (["a: 1$: br 1$\nb: 1$: br 1$\n"], "ok", "ff01ff01"),
        (["a: br 1$\n1$: nop\nb: br 1$\n"], "fail", None),
        (["x = 5\n.byte x\n", "x = 7\n.byte x\n"], "ok", "0507"),
        (["x == 5\n", ".byte x\n"], "ok", "05"),
        ([".byte x\n", "x == 5\n"], "ok", "05"),
        (["x == 5\n", ".byte x\nx = 7\n"], "ok", "07"),
        (["x == 5\n", "x = 7\n.byte x\n"], "ok", "07"),
        (["x = 5\n", ".byte x\n"], "fail", None),
        (["x: nop\nx: nop\n"], "fail", None),
        (["x == 1\n", "x == 2\n"], "fail", None),
        (["a:: nop\n", "jmp a\n"], "ok", "a0007700faff"),
        ([".extern all\nq = 3\n", ".byte q\n"], "ok", "03"),
        (["q = 3\n.extern q\n", ".byte q\n"], "ok", "03"),
        (["q = 3\n.extern q\n.extern q\n"], "fail", None),
        (["1$: nop\nX: br 1$\n"], "fail", None),
        (["A = 1\n.byte a\n"], "ok", "01"),
        ([".extern all\nx == 37\n", ".byte x\n"], "ok", "1f"),
        ([".extern all\na:: nop\n", "jmp a\n"], "ok", "a0007700faff"),
        ([".extern all\nq == 3\n", "q == 4\n"], "fail", None),
        # '.extern all' AFTER the definitions: exports them too, and a name another file already exported is a duplicate, not a silent private symbol
        (["x == 5\n", "x = 7\n.extern all\n", ".word x\n"], "fail", None),
        (["x:: nop\n", "x: nop\n.extern all\n"], "fail", None),
        (["q = 1\n.extern q\n", "Q = 2\n.extern ALL\n", ".byte q\n"], "fail", None),
        (["x = 7\n.extern all\n", ".byte x\n"], "ok", "07"),
        (["x = 7\n.extern all\n", "x = 6\n.byte x\n"], "ok", "06"),
        # a local label in the LEADING scope of a later file (before its first ordinary label) is its own scope
        (["entry: nop\n1: nop\nbr 1\n", "1: nop\nbr 1\ntail: nop\n"], "ok", "a000a000fe01a000fe01a000"),
        (["entry: nop\nbr 1\n", "1: nop\ntail: nop\n"], "fail", None),
        (["1: nop\nbr 1\n", "1: nop\nbr 1\n", "1: nop\nbr 1\n"], "ok", "a000fe01a000fe01a000fe01"),
        (["a: nop\n", "br 1\nb: nop\n1: nop\n"], "fail", None),
        (["a: 1: nop\n.repeat 2 { nop }\nbr 1\n"], "ok", "a000a000a000fc01"),
        # '.extern all' exports ordinary symbols only: numeric local labels stay reusable after it
        ([".extern all\na: 1: nop\nbr 1\nb: 1: nop\nbr 1\n"], "ok", "a000fe01a000fe01"),
        ([".extern all\na: 1: nop\n", ".extern all\nb: 1: nop\nbr 1\n"], "ok", "a000a000fe01"),
    ]
    # the scope prefix and the label spelling must concatenate injectively: label 13 of scope 2 is not label 3 of scope 21 (seed C11h)
    cases.append((["".join("L%d: 3: nop\n13: nop\n23: nop\nbr 3\n" % k for k in range(32))], "ok", "a000a000a000fc01" * 32))
    for j in range(18, 25):
        cases.append((["".join("L%d: 13: nop\n%s" % (k, "br 3\n" if k == j else "") for k in range(32))], "fail", None))
    jobs = [{"kind": "asm", "sources": s} for s, _, _ in cases]
    res = driver.native(jobs, driver.tree_root())
    bad = []
    for (s, st, img), r in zip(cases, res):
        if r["status"] != st or (img is not None and r.get("code_hex") != img):
            bad.append((s, st, img, r["status"], r.get("code_hex"), [d[1] for d in r.get("diags", [])]))
    ob = dict(label="scoping-linking-and-duplicate-cases-on-the-real-assembler", kind="rac", status="proved" if not bad else "failed", secs=0.0, path=[], witness=None,
              detail=str(bad[:3]), events=[], smt2=None, backend="cpython-native", unit="scope-rac", func="Compiler (run-time check)", cases=len(cases), cfg=dict(kind="rac"))
    return dict(unit="scope-rac", func="Compiler (run-time check)", paths=len(cases), obligations=[ob], wall=0.0)


def units(tier):
    us = [("rac", "unit_rac", {}), ("declare_external", "unit_declare_external", {}), ("resolve-register", "unit_resolve_register", {}), ("compile_file", "unit_compile_file", {}),
          ("key-lemma", "unit_key_lemma", {}), ("key-lemma-inj", "unit_key_lemma_inj", {})]
    for what in ("label", "assignment"):
        for local in ((False, True) if what == "label" else (False,)):
            for ie in (False, True):
                for ea in (False, True):
                    us.append(("define[%s,%s,%s,%s]" % (what, local, ie, ea), "unit_define", dict(what=what, local=local, is_extern=ie, extern_all=ea)))
    for ak in ("int", "poly-const"):
        for local in (False, True):
            us.append(("define[label,%s,%s]" % (local, ak), "unit_define", dict(what="label", local=local, is_extern=False, extern_all=False, addr_kind=ak)))
    for sp in (False, True):
        for dn in (False, True):
            us.append(("resolve[%s,%s]" % (sp, dn), "unit_resolve", dict(speculative=sp, digit_name=dn)))
    for sh in [("sym",), ("all",), ("bad",), ("sym", "all"), ("all", "sym"), ("sym", "bad", "sym")]:
        us.append((".extern[%s]" % ",".join(sh), "unit_extern", dict(shape=sh)))
    us.append(("dispatch[variable-of-another-file]", "unit_dispatch", dict(kind="variable-of-another-file")))
    for ctxt in ("file", "repeat"):
        us.append(("compile_block[%s]" % ctxt, "unit_compile_block", dict(context=ctxt, base_settled=False, start_kind="promise")))
    # whole programs: the statement holds wherever a statement stands (repeat body, included / linked file, any block) - contracts/structure.py
    us += structure.units()
    us += structure.kernel_units()
    return us


def canary(eng):
    def run(eng):
        eng.I = {}
        return None

    def post(eng, o):
        a, b = z3.String("a"), z3.String("b")
        eng.prove("canary-different-names-different-keys-after-folding", z3.Implies(a != b, strlower(a) != strlower(b)))
    return verify(eng, "canary", run, post, func="canary")


def replay(o, tree):
    r_ = None if o.get("_shared_replay") else structure.replay(dict(o, _shared_replay=True), tree)
    if r_ is not None and r_.get("reproduced"):
        return r_
    import os
    old = os.environ.get("PDPY11_SRC")
    os.environ["PDPY11_SRC"] = tree
    try:
        rr = unit_rac(None)["obligations"][0]
    finally:
        if old is None:
            os.environ.pop("PDPY11_SRC", None)
        else:
            os.environ["PDPY11_SRC"] = old
    return dict(jobs=None, experiment="scoping / linking programs on the real assembler", observed=rr["detail"][:800], reproduced=rr["status"] == "failed")
