"""C18 - Assembly is a pure function of its inputs.

The history quantifier is reduced to a one-state invariant: after ANY assembly (successful, failed or crashed) the module-level state is the
state at import time.

frame:  inventory (regenerated from the ASTs of the whole package on every run) of every store / mutating call in a function body whose root is a
        module-level object, a class object or a class-level attribute: it must be a subset of the allow-list below; each allow-listed entry
        has a justification obligation (balanced by a context manager / import-time only / diagnostic text only)
vc:     TryCompute, Awaiting, handle_reports: the real __enter__/__exit__ restore depth / stacks / marks on normal, exceptional and swallowing
        exits; Deferred.construct restores them on every outcome of the body (value, NotReadyError, RecoverableError, DeferredCycle)
closed: no iteration over sets, no hash()/id(), no global/time/random/environment reads in the package (syntactic)
rac:    a probe program assembled after histories of valid / invalid / crashing programs in one process, and in fresh processes under different
        PYTHONHASHSEED values, gives identical results (testing, separate)
"""
import ast
import os
import z3
from contracts.common import *  # noqa
from contracts import common, deferred_c
from contracts.deferred_c import *  # noqa
from pyvc import driver, frames

ID = "C18"
EXPLANATION = "one-state invariant over all exit paths of the three context managers + complete syntactic inventory of global writes"
TRUSTED = ["pyvc engine semantics incl. Python's with-statement protocol (A1)", "z3 (A7)", "the AST inventory (pyvc/frames.py) sees every syntactic store and mutating method call"]
ASSUMPTIONS = ["hash randomisation inside the stdlib and OS state are external (A5, A8)",
               "aliasing: a module-level object mutated through a local alias of a different name is not seen by the syntactic inventory "
               "(the package has no such alias on the pinned tree; the run-time check would expose one)"]

# (module, function, target) -> justification
ALLOW = {
    ("deferred", "TryCompute.__enter__", "self.depth"): "balanced: TryCompute.__exit__ restores it on every exit (vc TryCompute[*])",
    ("deferred", "TryCompute.__exit__", "self.depth"): "balanced: see __enter__",
    ("deferred", "Awaiting.__enter__", "Awaiting.awaiting_stack.append()"): "balanced: Awaiting.__exit__ pops the same object (vc Awaiting[*])",
    ("deferred", "Awaiting.__exit__", "Awaiting.awaiting_stack.pop()"): "balanced: see __enter__",
    ("deferred", "Deferred.__init__", "Deferred.next_instance_id"): "diagnostic text only: feeds Deferred.name, read only by __repr__ (obligation name-only-in-repr)",
    ("reports", "handle_reports.__enter__", "self.handlers_stack.append()"): "balanced: handle_reports.__exit__ pops first thing (vc handle_reports[*])",
    ("reports", "handle_reports.__exit__", "self.handlers_stack.pop()"): "balanced: see __enter__",
    ("devices", "register_device.<locals>.decorator", "DEVICES[name[1:]][mode]"): "import time only: decorator applied at module level",
    ("formats", "file_format", "file_formats[name]"): "import time only: decorator applied at module level",
    ("insns", "init", "instructions[insn_name]"): "import time only: init() is called once at module level",
    ("metacommand_impl", "_metacommand_impl", "metacommands[command_name]"): "import time only: @metacommand at module level",
    ("operators", "operator", "operators[kind][char]"): "import time only: @operator at module level",
}
IMPORT_TIME_FUNCS = {"register_device", "file_format", "init", "_metacommand_impl", "metacommand", "operator"}


def global_sites(inv):
    modnames = {}
    for m in inv["module_state"]:
        modnames.setdefault(m["module"], set()).add(m["name"])
    classattrs = {}
    for c in inv["class_state"]:
        classattrs.setdefault((c["module"], c["cls"]), set()).add(c["name"])
    classes = set(c["cls"] for c in inv["class_state"]) | {"Deferred"}
    out = []
    for s in inv["sites"]:
        r = s["root"]
        hit = False
        if r in ("self", "cls") and s["cls"]:
            attr = s["target"].split(".")[1].split("[")[0].split("(")[0] if "." in s["target"] else None
            if attr in classattrs.get((s["module"], s["cls"]), ()):
                hit = True
        elif not s["root_is_local"] and r is not None:
            # module-level object of this module (any module-level name), imported registry, or a class object
            hit = True
            if s["kind"].startswith("global-") is False and r in ("self",):
                hit = False
        if s["kind"].startswith("global-"):
            hit = True
        if hit:
            out.append(s)
    return out


def ob(obs, unit, func, label, ok, detail="", kind="frame"):
    obs.append(dict(label=label, kind=kind, status="proved" if ok else "failed", secs=0.0, path=[], witness=None, detail=str(detail)[:600], events=[], smt2=None,
                    backend="ast-inventory", unit=unit, func=func, cfg=dict(kind=kind, label=label)))


def unit_inventory(eng):
    pkg = os.path.join(driver.tree_root(), "pdpy11")
    inv = frames.inventory(pkg)
    obs = []
    unit, func = "global-state-inventory", "package-wide frame (AST inventory)"
    gs = global_sites(inv)
    found = set((s["module"], s["function"], s["target"]) for s in gs)
    extra = sorted(found - set(ALLOW))
    ob(obs, unit, func, "every-write-to-module-or-class-level-state-in-a-function-body-is-allow-listed", not extra, extra)
    for key in sorted(ALLOW):
        ob(obs, unit, func, "allow-listed-site-still-exists-or-is-gone[%s.%s %s]" % key, True, ALLOW[key])
    ob(obs, unit, func, "no-mutable-default-arguments", not inv["defaults"], inv["defaults"])
    ob(obs, unit, func, "no-global-rebinding-statements", not [s for s in inv["sites"] if s["kind"].startswith("global-")], [s for s in inv["sites"] if s["kind"].startswith("global-")])
    # class-level mutable state is exactly the three balanced items (+ constants)
    cs = sorted((c["module"], c["cls"], c["name"]) for c in inv["class_state"] if c["module"] not in ("bk_wav",))
    ob(obs, unit, func, "class-level-mutable-state-is-depth-awaiting_stack-handlers_stack",
       cs == [("deferred", "Awaiting", "awaiting_stack"), ("deferred", "TryCompute", "depth"), ("reports", "handle_reports", "handlers_stack")], cs)
    # import-time-only writers are called only at module level / as decorators
    mods = frames.parse_package(pkg)
    bad_calls = []
    for mname, tree in mods.items():
        for fn in ast.walk(tree):
            if isinstance(fn, ast.FunctionDef) and fn.name not in IMPORT_TIME_FUNCS | {"decorator"}:
                loc = frames.local_names(fn)
                for sub in ast.walk(ast.Module(body=fn.body, type_ignores=[])):
                    if isinstance(sub, ast.Call) and isinstance(sub.func, ast.Name) and sub.func.id in IMPORT_TIME_FUNCS and sub.func.id not in loc:
                        bad_calls.append((mname, fn.name, sub.func.id))
    ob(obs, unit, func, "registry-writers-are-called-only-at-import-time", not bad_calls, bad_calls)
    # Deferred.name (fed by next_instance_id) is read only by __repr__
    uses = [u for u in frames.uses_of(pkg, {"name"}) if u[0] == "deferred"]
    ob(obs, unit, func, "Deferred.name-is-read-only-by-__repr__(diagnostic text)", all(u[1] == "__repr__" for u in uses), uses)
    uses2 = frames.uses_of(pkg, {"next_instance_id"})
    ob(obs, unit, func, "next_instance_id-is-read-only-by-Deferred.__init__", all(u[1] == "__init__" for u in uses2), uses2)

    def nondeterminism(node):
        if isinstance(node, ast.Call):
            f = node.func
            nm = f.id if isinstance(f, ast.Name) else f.attr if isinstance(f, ast.Attribute) else None
            if nm in ("hash", "id", "set", "frozenset", "getrandbits", "random", "randrange", "urandom", "time", "getenv"):
                return "call " + nm
        if isinstance(node, (ast.Set, ast.SetComp)):
            return "set display"
        if isinstance(node, ast.Attribute) and node.attr == "environ":
            return "os.environ"
        return None
    # interpreter- and process-wide state has no store site in the package: it is changed by CALLS into the stdlib
    SETTERS = {"setrecursionlimit", "setswitchinterval", "settrace", "setprofile", "chdir", "fchdir", "chroot", "putenv", "unsetenv", "umask", "setlocale", "seed", "simplefilter",
               "filterwarnings", "resetwarnings", "signal", "set_threshold", "reload", "setdefaulttimeout", "setrlimit", "setcheckinterval", "set_int_max_str_digits",
               "setdefaultencoding", "set_asyncgen_hooks", "setdlopenflags", "install_opener", "register_error", "excepthook", "displayhook", "invalidate_caches"}
    STDLIB_ROOTS = {"sys", "os", "random", "locale", "signal", "gc", "warnings", "atexit", "threading", "resource", "faulthandler", "builtins", "importlib", "codecs", "time", "socket",
                    "decimal", "re", "struct", "itertools", "functools"}

    def process_state(node):
        if isinstance(node, ast.Call) and isinstance(node.func, ast.Attribute) and node.func.attr in SETTERS:
            return "call %s" % frames.text(node.func)
        if isinstance(node, ast.Call) and isinstance(node.func, ast.Attribute) and frames.root_name(node.func) == "gc" and node.func.attr in ("disable", "enable", "freeze", "collect"):
            return "call %s" % frames.text(node.func)
        if isinstance(node, ast.Call) and isinstance(node.func, ast.Attribute) and frames.root_name(node.func) == "atexit":
            return "call %s" % frames.text(node.func)
        if isinstance(node, (ast.Assign, ast.AugAssign, ast.Delete)):
            ts = node.targets if not isinstance(node, ast.AugAssign) else [node.target]
            for t in ts:
                if isinstance(t, (ast.Attribute, ast.Subscript)) and frames.root_name(t) in STDLIB_ROOTS:
                    return "store %s" % frames.text(t)
        return None
    def locale_dependent_open(node):
        """open() of a text file without an explicit encoding decodes with the locale of the process (D51)"""
        if isinstance(node, ast.Call) and isinstance(node.func, ast.Name) and node.func.id == "open":
            mode = node.args[1] if len(node.args) > 1 else next((k.value for k in node.keywords if k.arg == "mode"), None)
            if mode is not None and not isinstance(mode, ast.Constant):
                return "open with a computed mode and no encoding" if not any(k.arg == "encoding" for k in node.keywords) else None
            m = mode.value if mode is not None else "r"
            if "b" not in m and not any(k.arg == "encoding" for k in node.keywords):
                return "text-mode open without encoding"
        return None
    lo = [x for x in frames.syntactic_scan(pkg, locale_dependent_open) if x[0] not in ("devices",)]
    ob(obs, unit, func, "every-text-file-is-opened-with-an-explicit-encoding(the locale of the process is not an input)", not lo, lo, kind="closed")
    # objects built at import time (the operand stubs and instruction entries of insns.init(), Metacommand objects, operator classes) live for the
    # whole process: a method that stores into 'self' there carries state from one assembly into the next
    IMPORT_TIME_MODULES = ("insns", "metacommand_impl", "operators", "builtins", "architecture", "radix50", "formats", "bk_wav", "bk_encoding", "containers")
    stores = []
    for mname in IMPORT_TIME_MODULES:
        tree_ = mods.get(mname)
        if tree_ is None:
            continue
        for cls in [n_ for n_ in ast.walk(tree_) if isinstance(n_, ast.ClassDef)]:
            if mname == "containers":
                continue          # CaseInsensitiveDict instances are created per Compiler
            for fn in [n_ for n_ in cls.body if isinstance(n_, ast.FunctionDef) and n_.name != "__init__"]:
                for node in ast.walk(fn):
                    tg = node.targets if isinstance(node, ast.Assign) else [node.target] if isinstance(node, (ast.AugAssign, ast.AnnAssign)) else []
                    for x in tg:
                        b = x
                        while isinstance(b, (ast.Subscript, ast.Attribute)) and not (isinstance(b, ast.Attribute) and isinstance(b.value, ast.Name)):
                            b = b.value
                        if isinstance(b, ast.Attribute) and isinstance(b.value, ast.Name) and b.value.id == "self":
                            stores.append((mname, cls.name, fn.name, b.attr, node.lineno))
                    if isinstance(node, ast.Call) and isinstance(node.func, ast.Attribute) and node.func.attr in ("append", "add", "update", "setdefault", "pop", "extend", "clear", "insert", "remove") \
                            and isinstance(node.func.value, ast.Attribute) and isinstance(node.func.value.value, ast.Name) and node.func.value.value.id == "self":
                        stores.append((mname, cls.name, fn.name, node.func.value.attr + "." + node.func.attr, node.lineno))
    ob(obs, unit, func, "no-method-of-an-object-built-at-import-time(operand stubs, instruction entries, metacommands, operators)-stores-into-self", not stores, stores)
    ps = frames.syntactic_scan(pkg, process_state)
    ob(obs, unit, func, "no-call-or-store-that-changes-interpreter-or-process-wide-state(recursion limit, cwd, environment, locale, warnings filters, signal handlers, sys.*)", not ps, ps)
    nd = [x for x in frames.syntactic_scan(pkg, nondeterminism) if x[0] not in ("devices",)]
    ob(obs, unit, func, "no-set-iteration-hash-id-time-random-or-environment-reads-outside-the-audio-device-back-ends", not nd, nd, kind="closed")
    return dict(unit=unit, func=func, paths=1, obligations=obs, wall=0.0)


# ------------------------------------------------------------------ handle_reports balance (reports.py, A.7)
def unit_handle_reports(eng, exc, errcond, handler):
    name = "handle_reports[exit with %s,error=%s,%s]" % (exc, errcond, handler)

    def run(eng):
        eng.I = {}
        rmod = eng.load_module("reports")
        hr = eng.resolve_global(rmod, "handle_reports")
        if handler == "callable":
            h = Builtin("handler", lambda eng_, *a: None)
        else:
            fh = eng.resolve_global(rmod, "FilterHandler")
            bare = eng.call(eng.resolve_global(rmod, "BareHandler"), [], {})
            h = eng.call(fh, [bare, {}], {})
        obj = eng.call(hr, [h], {})
        stack = hr.ns["handlers_stack"]
        n0 = len(stack)
        eng.call(eng.getattr(obj, "__enter__"), [], {})
        eng.I["mid"] = (len(stack), stack[-1] is obj if stack else False)
        obj.attrs["is_error_condition"] = errcond
        cls = None if exc is None else eng.exc_class_value(Exc(exc))
        eng.I.update(stack=stack, n0=n0)
        return eng.call(eng.getattr(obj, "__exit__"), [cls, None, None], {})

    def post(eng, o):
        kind, val = o
        eng.prove("pushed-on-enter", eng.I["mid"] == (eng.I["n0"] + 1, True))
        eng.prove("popped-on-every-exit(stack restored)", len(eng.I["stack"]) == eng.I["n0"])
        must_raise = errcond and exc in (None, "RecoverableError")
        if must_raise:
            eng.prove("error-condition-turns-a-normal-or-recoverable-exit-into-UnrecoverableError", kind == "raise" and val.cls == "UnrecoverableError")
        else:
            eng.prove("otherwise-the-exception-passes-through-unswallowed", kind == "return" and not eng.truth(val) if kind == "return" else False)
    return verify(eng, name, run, post, func="reports.handle_reports.__exit__")


def unit_emit_report(eng, prio, latched=False):
    """emit_report: error/critical latch is_error_condition on the top handler after calling it; critical raises UnrecoverableError;
    the latch is monotone: whatever is reported after an error, it stays set (latched = its value before the call)"""
    def run(eng):
        eng.I = {}
        rmod = eng.load_module("reports")
        hr = eng.resolve_global(rmod, "handle_reports")
        calls = []
        h = Builtin("handler", lambda eng_, *a: calls.append(a))
        obj = eng.call(hr, [h], {})
        eng.call(eng.getattr(obj, "__enter__"), [], {})
        eng.I.update(obj=obj, calls=calls)
        if latched:
            obj.attrs["is_error_condition"] = True
        pr = eng.resolve_global(rmod, prio)
        ccls = eng.resolve_global(eng.load_module("context"), "Context")
        mk = lambda fn, pos: Obj(ccls, dict(filename=fn, code="x" * 9, pos=pos), name="ctx")  # noqa
        # two parts: the culprit (in a file whose name sorts LAST) and a note about another file
        spans = [(mk("z_culprit.mac", 4), mk("z_culprit.mac", 5), "culprit"), (mk("a_other.mac", 1), mk("a_other.mac", 2), "note")]
        eng.I["spans"] = spans
        return eng.call(eng.resolve_global(rmod, "emit_report"), [pr, "some-id"] + spans, {})

    def post(eng, o):
        kind, val = o
        obj, calls = eng.I["obj"], eng.I["calls"]
        eng.prove("handler-called-exactly-once-with-the-report", len(calls) == 1 and calls[0][1] == "some-id")
        eng.prove("the-handler-receives-the-parts-in-the-order-given(the culprit first, whatever the file names)",
                  len(calls) == 1 and len(calls[0]) == 4 and calls[0][2] is eng.I["spans"][0] and calls[0][3] is eng.I["spans"][1])
        eng.prove("latch-after==latch-before-or-error-severity(set by error and critical, never cleared, never set by a warning)",
                  obj.attrs["is_error_condition"] is (latched or prio != "warning"))
        eng.prove("critical-aborts-with-UnrecoverableError-others-return", (kind == "raise" and val.cls == "UnrecoverableError") if prio == "critical" else kind == "return")
    return verify(eng, "emit_report[%s,latched=%s]" % (prio, latched), run, post, func="reports.emit_report")


# ------------------------------------------------------------------ rac: histories
def unit_rac(eng, tier="quick"):
    import subprocess
    import json
    n_hist = 6 if tier == "quick" else 50
    code = r'''
import random, sys
sys.path.insert(0, %r)
sys.path.insert(0, "/verif/pyvc")
from pdpy11 import reports, bk_encoding
from pdpy11.parser import parse
from pdpy11.compiler import Compiler
def run(src):
    diags = []
    try:
        with reports.handle_reports(lambda p, i, *l: diags.append(("W" if p is reports.warning else "E", i, [(repr(a), repr(b)) for a, b, _ in l]))):
            f = parse("/t/p.mac", src)
            comp = Compiler()
            base, code = comp.compile_and_link_files([f])
            listing = comp.generate_listing()          # the listing is one of the files written
        return ["ok", base, code.hex(), diags, listing]
    except reports.UnrecoverableError:
        return ["fail", diags]
    except Exception as e:
        return ["crash", type(e).__name__, diags]
PROBE = "a: mov #a, r0\n1$: sob r0, 1$\n .word a, b-a, .\n .ascii \"hi\"\nb: .byte 1, 2\n x = b - a\n .word x\n .repeat 2 { nop }\n br a\n .word undefined_sym\n"
PROBE_OK = PROBE.replace(" .word undefined_sym\n", "") + " clr @r0\n mov @r1, @r2\n tstf @r3\n .byte\n emt #1\n trap #2\n" + "same5 = 5\nalso5 = 5\nfive = 5\nmid: other: last:\n zeta = 7\n alpha = 7\n"
POOL = ["nop\n", "mov r0\n", ".word 200000\n", "a: a:\n", "br 1000\n", ".link 100\n.link 200\n", "clr (%%y)+\ny=1\n", ".align 0\n",
        ".blkb 100000\n.blkb 100000\nmake_bin\n", ".rad50 \"#\"\n", ".error oops\n", "l: .word l\n .even\n", ".repeat 3 { .word . }\n", "mov (, r0\n", "\"unterminated\n"]
# programs that fail late (at link time, with many symbols), deep expressions and long dependency chains: histories that stress interpreter-level state
POOL += [".word big\n" + "".join("c%%d = %%d\n" %% (i, i) for i in range(400)) + "big = c3 * 100000\n",
         "".join("a%%d = a%%d & 7\n" %% (i, i + 1) for i in range(60)) + "a60 = 5\n.word a0\n",
         ".word " + "+".join(["1"] * 300) + "\n", ".word zz\n" + "".join("q%%d: nop\n" %% i for i in range(200))]
def process_state():
    import os, gc, locale, signal, warnings, threading
    return [sys.getrecursionlimit(), os.getcwd(), len(sys.path), len(warnings.filters), list(locale.getlocale()), sys.getswitchinterval(), repr(signal.getsignal(signal.SIGINT)),
            sorted(os.environ) == sorted(ENV0), gc.isenabled(), list(gc.get_threshold()), threading.active_count(), os.umask(os.umask(0o22) and 0o22) if False else None]
import os, tempfile, shutil
ENV0 = list(os.environ)
# headers that earlier assemblies include too: a diagnostic raised while parsing or first evaluating a header must be raised again for the probe
HDIR = tempfile.mkdtemp(prefix="pyvc-c18-hdr-")
open(os.path.join(HDIR, "strings.mac"), "w").write('.ascii "a\\qb"\n.word 1\n')
open(os.path.join(HDIR, "nums.mac"), "w").write(".word 8\n.word 1/0\n")
open(os.path.join(HDIR, "chars.mac"), "w").write(".word 'я, 10\n")
open(os.path.join(HDIR, "once.mac"), "w").write(".once\nk1 = 123\n.word k1\n")
POOL += ["entry: nop\ncount = 7\nlab: nop\n", ".extern all\nentry: nop\ncount = 1\n", "entry:: nop\ncount == 2\nmov (, r0\n"]
POOL += ["clr @r5\nmov @r0, @r1\n", "tstf @r2\nclr @r1\n.word\nemt #3\n", "clr @r5\nmov (, r0\n"]
POOL += ['.once\nnop\n', '.include "%%s/once.mac"\n.include "%%s/once.mac"\n.word k1 + 1\n' %% (HDIR, HDIR), '.once\nmov r0\n']
POOL += ['.include "%%s/strings.mac"\nnop\n' %% HDIR, '.include "%%s/nums.mac"\n' %% HDIR, '.include "%%s/chars.mac"\nhalt\n' %% HDIR]
PROBE_INC = 'nop\n.include "%%s/strings.mac"\n.include "%%s/nums.mac"\n.include "%%s/chars.mac"\n' %% (HDIR, HDIR, HDIR)
# per-file bookkeeping ('.once') belongs to one assembly: the probe itself and a header it includes twice are guarded by '.once'
PROBE_ONCE = '.link 2000\n.once\nentry: mov #1, r0\n.include "%%s/once.mac"\n.include "%%s/once.mac"\n.word entry, k1\n' %% (HDIR, HDIR)
_run0 = run
def run(src, _r=_run0):
    import json
    return json.loads(json.dumps(_r(src)).replace(HDIR, "<HDR>"))       # the scratch directory's name differs from process to process
rnd = random.Random(%d)
PROBE_EXT = ".extern all\nentry: mov #1, r0\ncount = 5\n.word count, entry\nlab:: nop\n"
PROBES = [PROBE, PROBE_OK, PROBE_INC, PROBE_ONCE, PROBE_EXT]
ONLY = os.environ.get("C18_ONLY")
if ONLY is not None:
    # the reference: each probe alone, as the first and only assembly of a fresh process
    result = run(PROBES[int(ONLY)])
    shutil.rmtree(HDIR, ignore_errors=True)
    import json; print(json.dumps(result)); sys.exit(0)
first = [run(PROBE), run(PROBE_OK) + [run(PROBE_INC), run(PROBE_ONCE), run(PROBE_EXT)], process_state()]
bad = []
for h in range(%d):
    for _ in range(rnd.randrange(1, 8)):
        run(rnd.choice(POOL))
    now = [run(PROBE), run(PROBE_OK) + [run(PROBE_INC), run(PROBE_ONCE), run(PROBE_EXT)], process_state()]
    if now != first:
        bad.append([h, [i for i in range(3) if now[i] != first[i]], now[2] if now[2] != first[2] else None])
shutil.rmtree(HDIR, ignore_errors=True)
result = [first, bad]
''' % (driver.tree_root(), int(os.environ.get("VERIF_SEED", "0") or 0), n_hist)
    outs = []
    fresh = []
    for seed in ("0", "1", "12345"):
        p = subprocess.run(["/venv/bin/python", "-c", code + "\nimport json; print(json.dumps(result))"], capture_output=True, text=True, env=dict(os.environ, PYTHONHASHSEED=seed), cwd="/", timeout=600)
        outs.append(p.stdout.strip().splitlines()[-1] if p.stdout.strip() else "ERR " + p.stderr[-300:])
    for k in range(5):
        p = subprocess.run(["/venv/bin/python", "-c", code], capture_output=True, text=True, env=dict(os.environ, PYTHONHASHSEED="0", C18_ONLY=str(k)), cwd="/", timeout=600)
        try:
            fresh.append(json.loads(p.stdout.strip().splitlines()[-1]))
        except Exception:
            fresh.append("ERR " + p.stderr[-300:])
    parsed = []
    for o_ in outs:
        try:
            parsed.append(json.loads(o_))
        except Exception:
            parsed.append(None)
    ok = all(p is not None and p[1] == [] for p in parsed) and all(p[0] == parsed[0][0] for p in parsed if p)
    detail = [str(p)[:200] if p is None or p[1] else "same" for p in parsed]
    # the first probes of the history process (already preceded by one another) against each probe alone in a fresh process
    if parsed[0]:
        f0 = parsed[0][0]
        seq = [f0[0], f0[1][:-3], f0[1][-3], f0[1][-2], f0[1][-1]]
        for k in range(5):
            if seq[k] != fresh[k]:
                ok = False
                detail.append("probe %d differs from its result in a fresh process: %s vs fresh %s" % (k, str(seq[k])[:200], str(fresh[k])[:200]))
    o1 = dict(label="probe-result-identical-after-every-history-and-under-three-hash-seeds", kind="rac", status="proved" if ok else "failed", secs=0.0, path=[], witness=None,
              detail=str(detail) + ("" if ok else str(outs)[:600]), events=[], smt2=None, backend="cpython-native", unit="history-rac", func="parse + Compiler (run-time check)",
              cases=3 * n_hist, cfg=dict(kind="rac"))
    return dict(unit="history-rac", func="parse + Compiler (run-time check)", paths=3 * n_hist, obligations=[o1], wall=0.0)


def units(tier):
    us = [("inventory", "unit_inventory", {}), ("rac", "unit_rac", dict(tier=tier))]
    for name, fn, kw in deferred_c.all_units():
        if name.split("[")[0] in ("trycompute", "awaiting", "not_ready", "construct", "wait", "promise"):
            us.append((name, fn, kw))
    for exc in (None, "RecoverableError", "UnrecoverableError", "TypeError", "NotReadyError"):
        for errcond in (False, True):
            for h in ("callable", "filter"):
                us.append(("handle_reports[%s,%s,%s]" % (exc, errcond, h), "unit_handle_reports", dict(exc=exc, errcond=errcond, handler=h)))
    for p in ("error", "critical", "warning"):
        for latched in (False, True):
            us.append(("emit_report[%s,%s]" % (p, latched), "unit_emit_report", dict(prio=p, latched=latched)))
    return us


def canary(eng):
    def run(eng):
        real(eng)
        tc = eng.resolve_global(eng.load_module("deferred"), "try_compute")
        eng.call(eng.getattr(tc, "__enter__"), [], {})
        return None
    return verify(eng, "canary", run, lambda eng, o: eng.prove("canary-depth-0-inside-try_compute", module_state(eng) == (0, 0)), func="canary")


def replay(o, tree):
    """a frame/balance failure is replayed as a history experiment on the real code: probe after random histories vs the first probe"""
    if o.get("unit", "").startswith("emit_report["):
        from contracts import c07
        return c07.replay_emit_report(tree)
    os.environ["PDPY11_SRC"] = tree
    r = unit_rac(None, tier="thorough")
    ob_ = r["obligations"][0]
    return dict(jobs=None, experiment="probe program after 50 random histories x 3 hash seeds", observed=ob_["detail"][:600], reproduced=ob_["status"] == "failed")
