"""C17 - Diagnostics point at the culprit.   REDUCED SCOPE (DESIGN section 7/C17, MANIFEST level_note).

Within reach of this family:
 frame:   every reports.error / warning / critical call of the compile side (insns, compiler, metacommands, metacommand_impl, operators, types) passes spans of the form
          (E.ctx_start, E.ctx_end, text) with ONE token expression E - so, under the Token invariant (same file, start.pos <= end.pos <= len(code), established by the
          parser: assumed), every such diagnostic names the token's file and a range inside it with start not after end; nothing outside Token.__init__ assigns
          ctx_start / ctx_end (the invariant is preserved by the compile side)
 bounded: Context.__repr__ (line = 1 + newlines before pos; column = 1 + offset in the line + 3 per tab) against a character-by-character scanner, exhaustively on small texts
Not expressible as a function contract (testing only, reported separately):
 rac:     for a fault planted at a known token - in the main file, a second linked file and an included file, after tabs, non-ASCII text and comments - the first reported
          position is that token's line and column
"""
import ast
import os
import z3
from contracts.common import *  # noqa
from contracts import structure
from contracts.structure import *  # noqa
from contracts.deferred_c import *  # noqa
from contracts import common
from pyvc import driver, frames
from contracts.c18 import unit_emit_report  # noqa
from contracts.insn import unit_rm_encode  # noqa

ID = "C17"
EXPLANATION = "syntactic obligations over all 120 report sites + exhaustive small-scope check of the line/column arithmetic; the culprit relation itself is tested, not proved"
TRUSTED = ["the AST scan of report call sites", "Token invariant established by the parser (assumed, A2)"]
ASSUMPTIONS = ["'which token is the culprit of a fault' is a relation between programs and diagnostics: no per-function contract expresses it - only the run-time check looks at it",
               "report sites inside the parser pass raw Context objects: counted, not verified"]

COMPILE_SIDE = ("insns", "compiler", "metacommands", "metacommand_impl", "operators", "types")


def span_sites(pkg):
    """(module, lineno, [span exprs]) for every reports.error/warning/critical(...) call"""
    out = []
    for mname, tree in frames.parse_package(pkg).items():
        for node in ast.walk(tree):
            if isinstance(node, ast.Call):
                f = node.func
                is_report = isinstance(f, ast.Attribute) and f.attr in ("error", "warning", "critical") and isinstance(f.value, ast.Name) and f.value.id == "reports"
                # '(reports.warning if cond else reports.error)(...)'
                if isinstance(f, ast.IfExp) and all(isinstance(x, ast.Attribute) and isinstance(x.value, ast.Name) and x.value.id == "reports" for x in (f.body, f.orelse)):
                    is_report = True
                if is_report:
                    out.append((mname, node.lineno, node.args[1:]))
    return out


def span_ok(span):
    """(E.ctx_start, E.ctx_end, text) with the same E, or a pair of plain names 'ctx_start, ctx_end' unpacked together from one stored entry"""
    if not isinstance(span, ast.Tuple) or len(span.elts) != 3:
        return False
    a, b = span.elts[0], span.elts[1]
    if isinstance(a, ast.Attribute) and isinstance(b, ast.Attribute) and a.attr == "ctx_start" and b.attr == "ctx_end":
        return ast.dump(a.value) == ast.dump(b.value)
    if isinstance(a, ast.Name) and isinstance(b, ast.Name) and (a.id, b.id) == ("ctx_start", "ctx_end"):
        return True
    return False


def unit_span_frame(eng):
    pkg = os.path.join(driver.tree_root(), "pdpy11")
    sites = span_sites(pkg)
    obs = []
    unit, func = "span-frame", "all report sites (syntactic frame)"

    def ob(label, ok, detail="", kind="frame"):
        obs.append(dict(label=label, kind=kind, status="proved" if ok else "failed", secs=0.0, path=[], witness=None, detail=str(detail)[:600], events=[], smt2=None, backend="ast-inventory",
                        unit=unit, func=func, cfg=dict(kind="frame")))
    comp = [s for s in sites if s[0] in COMPILE_SIDE]
    bad = [(m, ln, ast.unparse(sp)[:80]) for m, ln, spans in comp for sp in spans if not span_ok(sp)]
    nosp = [(m, ln) for m, ln, spans in comp if not spans]
    ob("every-compile-side-report-has-at-least-one-span", not nosp, nosp)
    ob("every-compile-side-span-is-(E.ctx_start, E.ctx_end, text)-of-one-token-E", not bad, bad)
    ob("compile-side-report-sites-found", len(comp) >= 60, len(comp))
    inv = frames.inventory(pkg)
    writers = [(s["module"], s["function"], s["target"]) for s in inv["sites"] if s.get("attr") in ("ctx_start", "ctx_end") and not s["function"].endswith("Token.__init__")]
    ob("nothing-outside-Token.__init__-assigns-ctx_start-or-ctx_end(the span invariant is preserved)", not writers, writers)
    # emit_files: the spans come from entries stored by add_emitted_file / add_emitted_bk_wav from state['insn']
    mods = frames.parse_package(pkg)
    src = ast.unparse(mods["metacommands"])
    ob("emitted-file-entries-carry-the-directive's-own-span", src.count('(state["insn"].ctx_start, state["insn"].ctx_end, file_format') >= 2 or src.count("state['insn'].ctx_start, state['insn'].ctx_end, file_format") >= 2, "")
    parser_sites = len([s for s in sites if s[0] == "parser"])
    obs.append(dict(label="parser-report-sites-pass-raw-contexts(not verified, counted)", kind="rac", status="proved", secs=0.0, path=[], witness=None, detail="%d sites" % parser_sites, events=[],
                    smt2=None, backend="ast-inventory", unit=unit, func=func, cases=parser_sites, cfg=dict(kind="info")))
    return dict(unit=unit, func=func, paths=len(sites), obligations=obs, wall=0.0)


def unit_repr(eng):
    """Context.__repr__ for a text and position of ARBITRARY content and length: file:line:column with line = 1 + line breaks before the
    position and column = 1 + characters since the line start, a tab counting four (str.count is an uninterpreted function with its range,
    str.rfind an uninterpreted function with the documented contract; three lemmas pin down that the start it yields IS the start of the
    position's line)"""
    from pyvc.engine import strcount, zstr

    def run(eng):
        eng.I = {}
        eng.fstring_ints = True
        ccls = eng.resolve_global(eng.load_module("context"), "Context")
        code = z3.String("code")
        pos = int_input(eng, "pos")
        eng.inputs["code"] = code
        eng.assume(z3.And(pos >= 0, pos <= z3.Length(code)))
        c = Obj(ccls, dict(filename="f.mac", code=code, pos=pos), name="ctx")
        eng.I.update(code=code, pos=pos)
        return eng.call(eng.getattr(c, "__repr__"), [], {})

    def post(eng, o):
        code, pos = eng.I["code"], eng.I["pos"]
        eng.prove("no-exception", o[0] == "return")
        if o[0] != "return":
            return
        nl, tab = z3.StringVal("\n"), z3.StringVal("\t")
        from pyvc.engine import strrfind
        before = z3.SubString(code, 0, pos)
        k = strrfind(code, nl, z3.IntVal(0), pos)
        start = k + 1
        line_text = z3.SubString(code, start, pos - start)
        j = z3.Int("j!line")
        eng.prove("lemma:line-start-lies-between-0-and-the-position", z3.And(start >= 0, start <= pos))
        eng.prove("lemma:line-start-is-the-file-start-or-follows-a-line-break", z3.Or(start == 0, z3.SubString(code, start - 1, 1) == nl))
        eng.prove("lemma:no-line-break-between-the-line-start-and-the-position", z3.ForAll([j], z3.Implies(z3.And(j >= start, j < pos), z3.SubString(code, j, 1) != nl)))
        line = strcount(before, nl) + 1
        col = (pos - start) + 3 * strcount(line_text, tab) + 1
        want = z3.Concat(z3.StringVal("f.mac:"), z3.IntToStr(line), z3.StringVal(":"), z3.IntToStr(col))
        eng.prove("text-is-file:line:column(line = 1 + line breaks before the position; column = 1 + characters since the line start, a tab counting four)", zstr(o[1]) == want)
    r = verify(eng, "Context.__repr__", run, post, func="context.Context.__repr__")
    for o_ in r["obligations"]:
        o_["cfg"] = dict(kind="repr")
    return r


def unit_bounded_repr(eng, tier="quick"):
    maxlen = 7 if tier == "quick" else 9
    code = r'''
import itertools
from pdpy11.context import Context
def spec(text, pos):
    line, col = 1, 1
    for ch in text[:pos]:
        if ch == "\n":
            line += 1; col = 1
        elif ch == "\t":
            col += 4
        else:
            col += 1
    return "f.mac:%%d:%%d" %% (line, col)
bad = []; n = 0
for L in range(0, %d + 1):
    for t in itertools.product("a\t\n", repeat=L):
        text = "".join(t)
        for pos in range(L + 1):
            c = Context("f.mac", text); c.pos = pos; n += 1
            if repr(c) != spec(text, pos):
                bad.append([text, pos, repr(c), spec(text, pos)])
                if len(bad) > 3: break
for text in ["яБ\t€x\n\t\ty", "a\r\nb\tc"]:
    for pos in range(len(text) + 1):
        c = Context("f.mac", text); c.pos = pos; n += 1
        if repr(c) != spec(text, pos): bad.append([text, pos, repr(c), spec(text, pos)])
result = [n, bad[:4]]
''' % maxlen
    r = driver.native([{"kind": "py", "code": code}], driver.tree_root(), timeout=1200)[0]
    n, bad = r["result"] if r["status"] == "ok" else (0, [str(r)[:300]])
    ob = dict(label="Context.__repr__==file:line:column-with-a-tab-counting-four-columns", kind="bounded", status="proved" if n and not bad else "failed", secs=0.0, path=[], witness=None,
              detail=str(bad), events=[], smt2=None, backend="cpython-native", unit="bounded-repr", func="context.Context.__repr__ (bounded stand-in)",
              bound="every text over {a, tab, newline} up to length %d x every position, plus two non-ASCII / CRLF texts" % maxlen, cases=n, cfg=dict(kind="bounded"))
    return dict(unit="bounded-repr", func="context.Context.__repr__ (bounded stand-in)", paths=n, obligations=[ob], wall=0.0)


FAULTS = [
    # (statement text with the culprit marked by «», expected report identifier)
    (".word «200000»", "value-out-of-bounds"), (".byte «400»", "value-out-of-bounds"), ("mov «undefined_sym», r0", "undefined-symbol"), ("«nosuchinsn» r0", "unknown-insn"),
    ("«br» .+1000", "branch-out-of-bounds"), ("«mov r0»", "wrong-operands"), (".word «1 / 0»", "arithmetic-error"), ("«.error oops»", "user-error"), (".word «8»", "invalid-number"),
    (".rad50 «\"a#b\"»", "invalid-character"), ("«jsr 5, x»", "invalid-addressing"), ("«emt» 400", "value-out-of-bounds"), ("«sob» r0, .+4", "branch-out-of-bounds"),
    (".blkb «-1»", "value-out-of-bounds"), ("«.link 5»", "address-conflict"),
    # parse-time faults whose culprit token is preceded by blanks, a tab or a comment and a line break
    ("mov r0   «,» ]", "invalid-operand"), ("mov r0 ; c\n\t  «,» ; d\n]", "invalid-operand"), ("1, 2 \t«,» ]", "invalid-operand"), (".word 1 + «»)", "invalid-insn"),
    (".ascii «\"abc»", "unterminated-string", "bk", "start-only"), ("x «=» ]", "invalid-assignment"), (".rad50 \"a\" «<50>»", "value-out-of-bounds"), ("«.error ;abcdef»", "user-error"),
    ("«.error  oops   ; why»", "user-error"),
    # a code block where a value is expected: the culprit is the block, from its opening brace to its closing one
    (".word 1 «{ nop }»", "unexpected-code-block"), (".word 1, 2 \t«{ nop ; c\n halt\n }»", "unexpected-code-block"), ("mov #1 «{ }»", "unexpected-code-block"),
    # an infix operator without its right operand: the report is where the scanner stopped (the token found instead), not where it began to look
    ("mov #2 *\t«», r0", "invalid-expression"), (".word (1 /  «»)", "invalid-expression"), (".word 3 %   «»]", "invalid-expression"), ("mov #1 <<  \t «», r1", "invalid-expression"),
    # index expressions that the operand encoder regroups ('-x(r0)' becomes '(-x)(r0)'): the regrouped token keeps the span of what was written
    ("big = 200000\n mov «-big»(r0), r1", "value-out-of-bounds"), ("mov «#4»(r0), r1", "unexpected-value"), ("big = 200000\nmov «big+1»(r0), r1", "value-out-of-bounds"),
    ("big = 200000\nmov @«-big»(r0), r1", "value-out-of-bounds"), ("mov «~<200000>»(r2), r1", "value-out-of-bounds"),
    # text with decomposed letters (base letter + combining mark, as macOS tools store them) on the culprit's own line: positions are
    # positions in the file's text as it is on disk
    (".ascii \"\u0438\u0306o\u0308\" <«undefined_sym»>", "undefined-symbol", "utf-8"), (".asciz /e\u0301 \u0418\u0306/ <«undefined_sym»>", "undefined-symbol", "utf-8"),
]


def unit_rac(eng, tier="quick"):
    import tempfile
    import shutil
    prefixes = ["", "\t", "lab:\t", "nop ; ядро\n\t ", "; comment €\n\n  x = 1 ;\t\n\t"]
    if tier == "quick":
        prefixes = prefixes[:4]
    d = tempfile.mkdtemp(prefix="pyvc-c17-")
    bad = []
    n = 0
    try:
        jobs, metas = [], []
        for fault in FAULTS:
            text, ident = fault[0], fault[1]
            charset = fault[2] if len(fault) > 2 else "bk"
            start_only = len(fault) > 3           # an unterminated literal runs to the end of the file: only its start is the culprit's
            for pre in prefixes:
                for where in ("main", "second", "included"):
                    if ident == "address-conflict" and where == "included":
                        continue      # an included file has a link base of its own: '.link' there is not a conflict
                    stmt = text.replace("«", "").replace("»", "")
                    start_off = text.index("«")
                    end_off = text.index("»") - 1
                    lead = ".link 1000\n" if ident == "address-conflict" else ""
                    body = lead + "nop\n" + pre + stmt + "\nx1 = 2\n"
                    pos = len(lead + "nop\n" + pre) + start_off
                    if where == "main":
                        names, srcs, fname = [d + "/m.mac"], [body], d + "/m.mac"
                    elif where == "second":
                        names, srcs, fname = [d + "/m.mac", d + "/s.mac"], ["nop\n", body if not lead else body.replace(".link 1000\n", ".link 2000\n", 1)], d + "/s.mac"
                        if lead:
                            srcs[0] = ".link 1000\nnop\n"
                            srcs[1] = "nop\n" + pre + stmt + "\nx1 = 2\n"
                            pos = len("nop\n" + pre) + start_off
                    else:
                        incname = d + "/inc_%d.mac" % len(jobs)
                        open(incname, "w", encoding="utf-8").write(body if not lead else "nop\n" + pre + stmt + "\nx1 = 2\n")
                        if lead:
                            pos = len("nop\n" + pre) + start_off
                        names, srcs, fname = [d + "/m.mac"], [(".link 1000\n" if lead else "") + "nop\n.include \"%s\"\n" % incname], incname
                    jobs.append({"kind": "asm", "sources": srcs, "names": names, "charset": charset})
                    src_text = (body if where == "main" or not lead else "nop\n" + pre + stmt + "\nx1 = 2\n") if where != "second" else srcs[1]
                    metas.append((text, ident, where, fname, src_text, pos, None if start_only else pos - start_off + end_off))
        res = driver.native(jobs, driver.tree_root(), timeout=1500)
        for (text, ident, where, fname, src_text, pos, endpos), r in zip(metas, res):
            n += 1
            line = src_text[:pos].count("\n") + 1
            ls = src_text.rfind("\n", 0, pos) + 1
            col = 1 + sum(4 if c == "\t" else 1 for c in src_text[ls:pos])
            want = "%s:%d:%d" % (fname, line, col)
            errs = [dg for dg in r.get("diags", []) if dg[0] == "E"]
            if r["status"] != "fail" or not errs:
                bad.append((text, where, "no error reported", r["status"], r.get("exc"), (r.get("trace") or "")[-300:]))
                continue
            first = errs[0]
            got = first[2][0][3] if first[2] else None
            if first[1] != ident or got != want:
                bad.append((text, where, first[1], got, want))
            elif first[2] and endpos is not None and first[2][0][2] != endpos:
                bad.append((text, where, "the first range ends at offset %s, the culprit ends at %s" % (first[2][0][2], endpos), src_text[pos:first[2][0][2]][:30]))
            for dg in r.get("diags", []):
                for fn_, p0, p1, r0, r1 in dg[2]:
                    if p0 is None or p1 is None or p0 > p1:
                        bad.append((text, where, "span start after end", p0, p1))
                    elif fn_ == fname and not (0 <= p0 <= p1 <= len(src_text)):
                        bad.append((text, where, "range outside the file", p0, p1, len(src_text)))
    finally:
        shutil.rmtree(d, ignore_errors=True)
    ob = dict(label="first-reported-position-is-the-planted-token's-file:line:column(tabs=4, non-ASCII, comments; main / linked / included file)", kind="rac", status="proved" if n and not bad else "failed",
              secs=0.0, path=[], witness=None, detail=str(bad[:4]), events=[], smt2=None, backend="cpython-native", unit="culprit-rac", func="parser + Compiler + reports (run-time check)",
              cases=n, cfg=dict(kind="rac"))
    return dict(unit="culprit-rac", func="parser + Compiler + reports (run-time check)", paths=n, obligations=[ob], wall=0.0)


def unit_text_identity(eng):
    """frame: the text the scanner works on IS the file's text - parser.parse hands its argument to Context unchanged, and every caller passes
    what it read from the file (a position is a position in the file on disk only then)"""
    pkg = os.path.join(driver.tree_root(), "pdpy11")
    mods = frames.parse_package(pkg)
    bad = []
    # 1. parse(filename, text): parameters never reassigned; Context(...) receives exactly (filename, text)
    for fn in ast.walk(mods["parser"]):
        if isinstance(fn, ast.FunctionDef) and fn.name == "parse":
            params = [a.arg for a in fn.args.args]
            for sub in ast.walk(fn):
                if isinstance(sub, ast.Name) and isinstance(sub.ctx, ast.Store) and sub.id in params:
                    bad.append(("parser.parse", "parameter %s is reassigned (line %d)" % (sub.id, sub.lineno)))
            ctx_calls = [c for c in ast.walk(fn) if isinstance(c, ast.Call) and isinstance(c.func, ast.Name) and c.func.id == "Context"]
            if len(ctx_calls) != 1 or [frames.text(a) for a in ctx_calls[0].args] != params:
                bad.append(("parser.parse", "Context(...) does not receive exactly the parameters %s: %s" % (params, [frames.text(c) for c in ctx_calls])))
    # 2. every call of parse(path, source): 'source' is assigned only from a .read() call (or unpacked from the list of (path, source) pairs read that way)
    for mname, tree in mods.items():
        for fn in ast.walk(tree):
            if not isinstance(fn, ast.FunctionDef):
                continue
            for call in ast.walk(fn):
                if isinstance(call, ast.Call) and (frames.text(call.func) in ("parser.parse", "parse")) and len(call.args) == 2:
                    arg = call.args[1]
                    if not isinstance(arg, ast.Name):
                        bad.append((mname + "." + fn.name, "the text passed to parse is not a plain variable: %s" % frames.text(arg)))
                        continue
                    for st in ast.walk(fn):
                        if getattr(st, "lineno", 0) >= call.lineno:
                            continue          # what happens to the variable after the call does not matter
                        if isinstance(st, ast.Assign) and any(isinstance(t, ast.Name) and t.id == arg.id for t in st.targets):
                            v = st.value
                            if not (isinstance(v, ast.Call) and isinstance(v.func, ast.Attribute) and v.func.attr == "read" and not v.args):
                                bad.append((mname + "." + fn.name, "%s = %s (line %d): not the text as read" % (arg.id, frames.text(v)[:60], st.lineno)))
                        if isinstance(st, ast.AugAssign) and isinstance(st.target, ast.Name) and st.target.id == arg.id:
                            bad.append((mname + "." + fn.name, "%s is modified in place (line %d)" % (arg.id, st.lineno)))
    ob = dict(label="the-scanner-works-on-the-file's-text-unchanged(parse -> Context; callers pass what they read)", kind="frame", status="proved" if not bad else "failed", secs=0.0, path=[],
              witness=None, detail=str(bad), events=[], smt2=None, backend="ast-inventory", unit="text-identity", func="parser.parse and its callers (frame)", cfg=dict(kind="frame"))
    return dict(unit="text-identity", func="parser.parse and its callers (frame)", paths=1, obligations=[ob], wall=0.0)



def units(tier):
    us = [("repr", "unit_repr", {}), ("text-identity", "unit_text_identity", {}), ("span-frame", "unit_span_frame", {}), ("bounded-repr", "unit_bounded_repr", dict(tier=tier)), ("rac", "unit_rac", dict(tier=tier))]
    # the report machinery hands the parts of a diagnostic to the handler unchanged and in order (the culprit is the first part)
    for p in ("error", "critical", "warning"):
        us.append(("emit_report[%s]" % p, "unit_emit_report", dict(prio=p, latched=False)))
    # tokens that the operand encoder builds itself (regrouped index expressions) keep the span of the text that was written
    for sh in ("a+b(Rn)", "a-b(Rn)", "@a+b(Rn)", "-a(Rn)"):
        us.append(("rm[%s]" % sh, "unit_rm_encode", dict(shape=sh, lazy=False)))
    # whole programs: the statement holds wherever a statement stands (repeat body, included / linked file, any block) - contracts/structure.py
    us += structure.units()
    us += structure.kernel_units()
    return us


def canary(eng):
    def run(eng):
        eng.I = {}
        return None
    return verify(eng, "canary", run, lambda eng, o: eng.prove("canary-start-after-end", z3.Implies(z3.Int("s") <= z3.Int("e"), z3.Int("s") > z3.Int("e"))), func="canary")


def replay(o, tree):
    r_ = None if o.get("_shared_replay") else structure.replay(dict(o, _shared_replay=True), tree)
    if r_ is not None and r_.get("reproduced"):
        return r_
    if (o.get("cfg") or {}).get("kind") == "repr":
        w = o.get("witness") or {}
        texts = [("a\tb\nc\t\td", None), ("x", None), ("\n\n\t", None)]
        if isinstance(w.get("code"), str) and isinstance(w.get("pos"), int):
            texts.insert(0, (w["code"], w["pos"]))
        code = "from pdpy11.context import Context\nres = []\nfor t, p in %r:\n    for q in ([p] if p is not None else range(len(t) + 1)):\n        c = Context('f.mac', t); c.pos = q; res.append([t, q, repr(c)])\nresult = res\n" % (texts,)
        r = driver.native([{"kind": "py", "code": code}], tree)[0]
        bad = []
        for t, q, got in (r.get("result") or []):
            line, col = 1, 1
            for ch in t[:q]:
                if ch == "\n":
                    line, col = line + 1, 1
                else:
                    col += 4 if ch == "\t" else 1
            if got != "f.mac:%d:%d" % (line, col):
                bad.append((t, q, got, "f.mac:%d:%d" % (line, col)))
        return dict(jobs=[{"kind": "py", "code": code}], expected="file:line:column with a tab counting four", observed=bad[:4] or "as expected", reproduced=bool(bad))
    old = os.environ.get("PDPY11_SRC")
    os.environ["PDPY11_SRC"] = tree
    try:
        rr = unit_rac(None, "thorough")["obligations"][0]
        rb = unit_bounded_repr(None, "quick")["obligations"][0]
    finally:
        if old is None:
            os.environ.pop("PDPY11_SRC", None)
        else:
            os.environ["PDPY11_SRC"] = old
    return dict(jobs=None, experiment="planted faults x prefixes x file roles; Context.__repr__ small scope", observed=(rr["detail"] + rb["detail"])[:800],
                reproduced=rr["status"] == "failed" or rb["status"] == "failed")
