"""Structural units shared by every property whose statement quantifies over whole programs: what a statement means does not change
because it stands in a '.repeat' body, in an included or a linked file, or behind other statements of its block.  The units are the
contracts of metacommands.repeat / include and Compiler.compile_block / compile_and_link_files / compile_include (contracts/meta_c.py,
contracts/compiler_c.py); they were first run under C16 / C02 only, and seeded changes placed in exactly these functions were then missed
by the checks of other properties (DESIGN section 13, rounds 6 and 7).  A property module does
    from contracts.structure import *      (the unit functions; the driver looks them up in the property's module)
    us += structure.units()
    r = structure.replay(o, tree)          (first thing in its replay)"""
import itertools
from pyvc import driver


def unit_s_repeat(eng):
    from contracts import meta_c
    return meta_c.unit_repeat(eng)


def unit_s_include(eng):
    from contracts import meta_c
    return meta_c.unit_include(eng)


def unit_s_compile_block(eng, context, base_settled, start_kind):
    from contracts import compiler_c
    return compiler_c.unit_compile_block(eng, context=context, base_settled=base_settled, start_kind=start_kind)


def unit_s_link_files(eng, nfiles, kinds, settle_in):
    from contracts import compiler_c
    return compiler_c.unit_link_files(eng, nfiles=nfiles, kinds=kinds, settle_in=settle_in)


def unit_s_compile_include(eng, settles, kind):
    from contracts import compiler_c
    return compiler_c.unit_include(eng, settles=settles, kind=kind)


def units():
    us = [("structure:repeat", "unit_s_repeat", {}), ("structure:include", "unit_s_include", {})]
    for ctxt in ("file", "repeat"):
        for bs in (False, True):
            us.append(("structure:compile_block[%s,%s]" % (ctxt, bs), "unit_s_compile_block", dict(context=ctxt, base_settled=bs, start_kind="poly")))
    for n in (1, 2, 3):
        for kinds in ((("ready",) * n), (("lazy",) * n)):
            for s in (None, n - 1):
                us.append(("structure:link[%d,%s,%s]" % (n, kinds[0][0], s), "unit_s_link_files", dict(nfiles=n, kinds=kinds, settle_in=s)))
    for s in (False, True):
        us.append(("structure:compile_include[%s]" % s, "unit_s_compile_include", dict(settles=s, kind="lazy")))
    return us


def replay(o, tree):
    """a failing structural obligation is replayed on the structure corpus of C16 (repeat == unrolled, linked files == concatenation,
    cross-file exports) and, for '.include', on C13's run from another directory"""
    unit = o.get("unit", "")
    kind = (o.get("cfg") or {}).get("kind")
    if "frame:no-evaluated-value-is-stored-on-the-syntax-tokens" in o.get("label", ""):
        # a statement compiled once per copy: a value kept on its token is the first copy's
        progs = [(".link 1000\n.repeat 2 { . = . + 10 }\n", "00" * 16), (".link 1000\n.repeat 2 { .word 177777\n. = . + 2 }\n", "ffff0000ffff0000"),
                 (".link 1000\ns: .repeat 3 { .ascii \"ab\"<.-s> }\n", "616200616203616206"), (".link 1000\ns: .repeat 3 { .word .-s\n. = . + 2 }\n", "000000000400000008000000"),
                 (".link 1000\ns: .repeat 2 { .blkb .-s+1\n.byte .-s }\n", "000100000005"), ("s: .repeat 3 { mov #.-s, r0 }\n", "c0150000c0150400c0150800")]
        res = driver.native([{"kind": "asm", "sources": [p_]} for p_, _ in progs], tree)
        obs = [[r_["status"], r_.get("code_hex")] for r_ in res]
        exp = [["ok", e_] for _, e_ in progs]
        return dict(jobs=[{"kind": "asm", "sources": [p_]} for p_, _ in progs], expected=exp, observed=obs, reproduced=obs != exp)
    r = kernel_replay(o, tree)
    if r is not None:
        return r
    r = expr_replay(o, tree)
    if r is not None:
        return r
    if not (unit.startswith((".repeat", ".include", "compile_block[", "compile_and_link_files[", "compile_include[")) or kind in ("repeat", "block", "linkfiles", "include")):
        return None
    if unit.startswith(".include") or kind == "include":
        from contracts import c13
        r = c13.unit_paths_rac(None, tree)
        if r["bad"]:
            return dict(jobs=None, experiment="the real command line started in another directory (contracts/c13.py unit_paths_rac)", observed=r["bad"][:1], reproduced=True)
    from contracts import c16
    for k in ("linkfiles", "repeat"):
        r = c16.replay(dict(o, cfg=dict(kind=k), kind="vc", label=o.get("label", ""), _shared_replay=True), tree)
        if r is not None and r.get("reproduced"):
            return r
    from contracts import c02
    return c02.replay(dict(o, cfg=dict(kind="linkfiles"), _shared_replay=True), tree)


# ------------------------------------------------------------------ the lazy-evaluation kernel (deferred.py)
def kernel_units():
    """every contract of deferred.py (wait, Deferred construction, Promise, Concatenator, LinearPolynomial arithmetic and _wait): whatever a
    statement produces reaches the image through these"""
    from contracts import deferred_c
    return [("kernel:" + name, fn, kw) for name, fn, kw in deferred_c.all_units()]


def kernel_replay(o, tree):
    from contracts import deferred_c
    cfg = o.get("cfg") or {}
    k = cfg.get("kind")
    w = o.get("witness") or {}
    if k == "poly-nested":
        return deferred_c.replay_poly_nested(cfg, w, tree)
    if k == "poly-selfref":
        return deferred_c.replay_poly_selfref(cfg, w, tree)
    if k == "wait-chain":
        return deferred_c.replay_wait_chain(tree)
    if k == "promise-pending":
        return deferred_c.replay_promise_pending(tree)
    if k == "poly-scalar":
        return deferred_c.replay_poly_scalar(cfg, tree, w)
    if k == "poly-mul":
        return deferred_c.replay_poly_mul(cfg, w, tree)
    if k == "concat":
        return deferred_c.replay_concat(cfg, tree)
    if k == "poly-binop":
        return deferred_c.replay_poly_binop(cfg, w, tree)
    return None


# ------------------------------------------------------------------ expression evaluation (operators.py)
def expr_units():
    """the operator bodies over all integers and the resolve() contracts of operators.py (contracts/c05.py): wherever a property's statement says
    'the arithmetic value of the expression' (link expressions, data values, operand values)"""
    import itertools
    from contracts import c05
    us = []
    for n in c05.INFIX_NAMES:
        us.append(("expr:body[%s]" % n, "unit_x_infix_body", dict(name=n)))
        for lz in itertools.product((False, True), repeat=2):
            us.append(("expr:resolve[%s,%s]" % (n, lz), "unit_x_resolve", dict(name=n, lz=lz)))
    for n in c05.PREFIX_NAMES:
        us.append(("expr:body[%s]" % n, "unit_x_prefix_body", dict(name=n)))
        for lz in ((False,), (True,)):
            us.append(("expr:resolve[%s,%s]" % (n, lz), "unit_x_resolve", dict(name=n, lz=lz)))
    return us


def unit_x_infix_body(eng, name):
    from contracts import c05
    return c05.unit_infix_body(eng, name=name)


def unit_x_prefix_body(eng, name):
    from contracts import c05
    return c05.unit_prefix_body(eng, name=name)


def unit_x_resolve(eng, name, lz):
    from contracts import c05
    return c05.unit_resolve(eng, name=name, lz=lz)


def expr_replay(o, tree):
    if (o.get("cfg") or {}).get("kind") in ("infix", "prefix", "again"):
        from contracts import c05
        return c05.replay(dict(o, _shared_replay=True), tree)
    return None
