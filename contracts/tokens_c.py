"""Contracts on the small value-producing token classes of pdpy11/types.py and on metacommand_impl.get_as_str (shared by C06, C08, C14):
what a string operand denotes before it reaches the codec."""
import z3
from contracts.common import *  # noqa
from contracts import common
from pyvc.engine import chrfn, zstr
from pyvc import driver
from contracts.insn import new, find_func  # noqa


def unit_quoted_string(eng):
    def run(eng):
        eng.I = {}
        s = z3.String("s")
        eng.inputs["s"] = s
        tok = new(eng, "types", "QuotedString", '"', s)
        eng.I["s"] = s
        return eng.call(eng.getattr(tok, "resolve"), [{}], {})
    return verify(eng, "QuotedString.resolve", run, lambda eng, o: eng.prove("a-quoted-string-denotes-exactly-its-own-text(no case mapping, no normalisation)",
                                                                              o[0] == "return" and o[1] is eng.I["s"]), func="types.QuotedString.resolve")


def unit_instruction_pointer(eng):
    def run(eng):
        eng.I = {}
        tok = new(eng, "types", "InstructionPointer")
        here = Lazy(int_input(eng, "here"), "int")
        eng.I["here"] = here
        return eng.call(eng.getattr(tok, "resolve"), [{"emit_address": here, "rel_address": 12345}], {})
    return verify(eng, "InstructionPointer.resolve", run, lambda eng, o: eng.prove("'.'-is-the-address-at-which-the-current-statement-is-emitted", o[0] == "return" and o[1] is eng.I["here"]),
                  func="types.InstructionPointer.resolve")


def unit_angle_char(eng):
    """<n> inside a string: the character with code n; a code outside the code space (however large) is ONE value-out-of-bounds error and
    the empty string, also when the chunk is evaluated again"""
    def run(eng):
        use_callee_contracts(eng, "wait", "get_as_int")
        eng.I = {}
        dyn, v, isint = dyn_input(eng, "n")
        tok = new(eng, "types", "AngleBracketedChar", value_token(eng, dyn, "n"))
        eng.I.update(v=v, isint=isint, tok=tok)
        r1 = eng.call(eng.getattr(tok, "resolve"), [{}], {})
        n1 = len(errors(eng))
        r2 = eng.call(eng.getattr(tok, "resolve"), [{}], {})
        return r1, r2, n1

    def post(eng, o):
        v, isint = eng.I["v"], eng.I["isint"]
        if o[0] == "raise":
            eng.prove("only-RecoverableError-escapes(a non-integer code), after its error report", z3.And(z3.Not(isint), o[1].cls == "RecoverableError", len(errors(eng)) >= 1))
            return
        r1, r2, n1 = o[1]
        inrange = z3.And(v >= 0, v < 0x110000)
        if n1 == 0:
            eng.prove("silent-only-for-a-code-inside-the-code-space", inrange)
            eng.prove("the-value-is-the-character-with-that-code", zstr(r1) == chrfn(v))
        else:
            eng.prove("an-error-only-for-a-code-outside-the-code-space(also beyond 2^31)", z3.Not(inrange))
            eng.prove("the-error-is-value-out-of-bounds-and-the-value-is-empty", [e[1] for e in errors(eng)][:1] == ["value-out-of-bounds"] and r1 == "")
            eng.prove("evaluated-again-it-stays-empty-without-a-second-report", r2 == "" and len(errors(eng)) == n1)
    r = verify(eng, "AngleBracketedChar.resolve", run, post, func="types.AngleBracketedChar.resolve")
    for o_ in r["obligations"]:
        o_["cfg"] = dict(kind="anglechar")
    return r


def unit_get_as_str(eng):
    def run(eng):
        use_callee_contracts(eng, "wait")
        eng.I = {}
        s = z3.String("s")
        k = pick_kind(eng)
        val = s if k == "str" else (int_input(eng, "n") if k == "int" else b"bytes")
        eng.I.update(s=s, k=k)
        f = find_func(eng, "metacommand_impl", ["get_as_str"])
        return eng.call(f, [{}, "operand", mk_token(eng, "ExpressionToken"), value_token(eng, Lazy(val, "obj") if k == "lazy-str" else val, "arg")], {})

    def post(eng, o):
        k = eng.I["k"]
        if k == "str":
            eng.prove("a-string-is-returned-unchanged", o[0] == "return" and o[1] is eng.I["s"] and not errors(eng))
        else:
            eng.prove("anything-else-is-a-type-mismatch-error-and-RecoverableError", o[0] == "raise" and o[1].cls == "RecoverableError" and [e[1] for e in errors(eng)] == ["type-mismatch"])
    return verify(eng, "get_as_str", run, post, func="metacommand_impl.get_as_str")


def pick_kind(eng):
    for k in ("str", "int"):
        if eng.branch(eng.fresh_bool("value_is_" + k)):
            return k
    return "bytes"


def unit_string_concat(eng, n):
    """a string operand made of several chunks is their values in order"""
    def run(eng):
        eng.I = {}
        ss = [z3.String("s%d" % i) for i in range(n)]
        toks = [value_token(eng, s_, "chunk%d" % i) for i, s_ in enumerate(ss)]
        eng.contracts["get_as_str"] = lambda e, state, what, token, arg: e.call(e.getattr(arg, "resolve"), [state], {})
        tok = new(eng, "types", "StringConcatenation", toks)
        eng.I["ss"] = ss
        return eng.call(eng.getattr(tok, "resolve"), [{}], {})

    def post(eng, o):
        ss = eng.I["ss"]
        eng.prove("the-chunks-in-order", o[0] == "return" and zstr(o[1]) == (ss[0] if len(ss) == 1 else z3.Concat(*ss)))
    return verify(eng, "StringConcatenation.resolve[%d]" % n, run, post, func="types.StringConcatenation.resolve")


def all_units():
    return [("QuotedString", "unit_quoted_string", {}), ("InstructionPointer", "unit_instruction_pointer", {}), ("AngleBracketedChar", "unit_angle_char", {}),
            ("get_as_str", "unit_get_as_str", {})] + [("StringConcatenation[%d]" % n, "unit_string_concat", dict(n=n)) for n in (1, 2, 3)]


def replay_anglechar(o, tree):
    w = (o.get("witness") or {}).get("n")
    cands = [w] if isinstance(w, int) else []
    cands += [65, 0x10FFFF, 0x110000, -1, 2 ** 31, 2 ** 40, -2 ** 31 - 1]
    jobs = [{"kind": "asm", "sources": [".ascii <%s>\n" % (("-%d." % -c) if c < 0 else "%d." % c)], "charset": "utf-8"} for c in cands]
    res = driver.native(jobs, tree)
    bad = [(c, r["status"], r.get("exc")) for c, r in zip(cands, res) if r["status"] == "crash" or (0 <= c < 0x110000 and not (0xD800 <= c <= 0xDFFF) and r["status"] != "ok") or (not 0 <= c < 0x110000 and r["status"] != "fail")]
    return dict(jobs=jobs[:3], expected="a code inside the code space assembles, any other is an error - never a crash", observed=bad, reproduced=bool(bad))
