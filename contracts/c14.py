"""C14 - The BK charset is a bijection consistent with ASCII and KOI-8.

closed (exhaustive, real module under /venv/bin/python): 256-byte round trip; ASCII on 0x00-0x7E; KOI8-R on 0xC0-0xFF; ENCODING_TABLE is the
        inverse relation of DECODING_TABLE; for every code point 0..0x10FFFF encode succeeds iff the character is in the table; error positions
        on a seeded corpus of mixed strings (run-time check)
vc:     bk_encoding.encode for strings of ARBITRARY length: success iff every character is in the table, bytes pointwise from the table;
        otherwise UnicodeEncodeError('bk', s, start, end, ...) with start the first and end-1 the last unencodable index
        (comprehension contract + two loop contracts with variants); bk_encoding.decode pointwise
        types.CharLiteral.resolve turns the encoding error into an 'invalid-character' report
"""
import os
import z3
from contracts.common import *  # noqa
from contracts import common
from pyvc import driver
from contracts import tokens_c
from contracts.tokens_c import unit_quoted_string, unit_instruction_pointer, unit_angle_char, unit_get_as_str, unit_string_concat  # noqa
from pyvc.engine import LoopSpec, CompSpec, dict_fns, abstract_seq, LISTFN, DICTFN

ID = "C14"
EXPLANATION = "closed obligations enumerate all 256 bytes and all 1114112 code points; the vc part is for strings of arbitrary length"
TRUSTED = ["pyvc engine semantics incl. loop and comprehension contracts (A1)", "z3 (A7)", "stdlib codecs 'ascii' and 'koi8_r' as the independent oracle",
           "large constant tables indexed by a symbolic key are uninterpreted functions; their content is what the closed obligations check"]
ASSUMPTIONS = ["codec registration (codecs.register) and the str.encode -> bk_encoding.encode dispatch are stdlib machinery (A5)"]


def facts_native():
    code = r'''
import codecs
from pdpy11 import bk_encoding as bk
D, E = bk.DECODING_TABLE, bk.ENCODING_TABLE
res = {}
res["n_dec"] = len(D)
def guarded(f, *a):
    # a mutated codec may raise where the real one does not: that is a fact to report, not a reason for this script to die
    try:
        return f(*a)
    except Exception as e:
        return "raised " + type(e).__name__
res["roundtrip_bad"] = [b for b in range(256) if guarded(lambda b: bytes([b]).decode("bk").encode("bk"), b) != bytes([b])][:5]
res["ascii_bad"] = [b for b in range(0x7f) if guarded(lambda b: bytes([b]).decode("bk"), b) != bytes([b]).decode("ascii")][:5]
res["koi8_bad"] = [b for b in range(0xc0, 0x100) if guarded(lambda b: bytes([b]).decode("bk"), b) != bytes([b]).decode("koi8_r")][:5]
inv = {}
dup = []
for i, chars in enumerate(D):
    for ch in chars:
        if ch in inv: dup.append(ch)
        inv[ch] = i
res["inverse_ok"] = inv == E and not dup
res["values_in_range"] = all(isinstance(v, int) and 0 <= v < 256 for v in E.values())
res["entries_nonempty"] = all(isinstance(c, str) and len(c) >= 1 for c in D)
res["decode_is_first_char"] = all(guarded(lambda b: bytes([b]).decode("bk"), b) == D[b][0] for b in range(256))
bad = []
n_ok = 0
for cp in range(0x110000):
    ch = chr(cp)
    try:
        out = ch.encode("bk")
        ok = True
    except UnicodeEncodeError as ex:
        ok = False
        if (ex.start, ex.end, ex.encoding) != (0, 1, "bk"): bad.append(["pos", cp])
    except Exception as ex:
        ok = False
        bad.append(["raised " + type(ex).__name__, cp])
    if ok != (ch in E): bad.append(["membership", cp])
    if ok:
        n_ok += 1
        if ch in E and out != bytes([E[ch]]) : bad.append(["value", cp])
    if len(bad) > 5: break
res["codepoints_bad"] = bad
res["codepoints_encodable"] = n_ok
res["table_chars"] = len(E)
result = res
'''
    r = driver.native([{"kind": "py", "code": code}], driver.tree_root(), timeout=900)[0]
    if r["status"] != "ok":
        raise RuntimeError(str(r))
    return r["result"]


def unit_closed(eng):
    f = facts_native()
    obs = []

    def ob(label, ok, detail="", cases=None):
        obs.append(dict(label=label, kind="closed", status="proved" if ok else "failed", secs=0.0, path=[], witness=None, detail=str(detail), events=[], smt2=None,
                        backend="cpython-eval", unit="bk-tables", func="bk_encoding tables (closed, exhaustive)", cfg=dict(kind="closed"), cases=cases))
    ob("decoding-table-has-256-entries", f["n_dec"] == 256, f["n_dec"])
    ob("decode-then-encode-is-identity-on-all-256-bytes", not f["roundtrip_bad"], f["roundtrip_bad"], 256)
    ob("agrees-with-ascii-on-0x00-0x7E", not f["ascii_bad"], f["ascii_bad"], 127)
    ob("agrees-with-koi8-r-on-0xC0-0xFF", not f["koi8_bad"], f["koi8_bad"], 64)
    ob("encoding-table-is-exactly-the-inverse-relation-no-character-maps-to-two-bytes", f["inverse_ok"])
    ob("encoding-table-values-are-bytes", f["values_in_range"])
    ob("decoding-table-entries-are-nonempty-and-decode-yields-the-first-character", f["entries_nonempty"] and f["decode_is_first_char"])
    ob("for-every-code-point-0..0x10FFFF-encode-succeeds-iff-in-table-with-the-table-byte-else-error-at-position-0..1", not f["codepoints_bad"], f["codepoints_bad"], 0x110000)
    ob("number-of-encodable-code-points==number-of-table-characters", f["codepoints_encodable"] == f["table_chars"], (f["codepoints_encodable"], f["table_chars"]))
    return dict(unit="bk-tables", func="bk_encoding tables (closed, exhaustive)", paths=1, obligations=obs, wall=0.0)


# ------------------------------------------------------------------ encode, arbitrary strings
def unit_encode(eng):
    def run(eng):
        eng.I = {}
        mod = eng.load_module("bk_encoding")
        enc_table = eng.resolve_global(mod, "ENCODING_TABLE")
        s = z3.String("s")
        eng.inputs["s"] = s
        n = z3.Length(s)
        val, has = dict_fns(enc_table, s)
        j = z3.Int("j!e")
        ch = lambda k: z3.SubString(s, k, 1)  # noqa
        eng.I.update(s=s, val=val, has=has)

        def summary(eng_, it):
            anybad = z3.Exists([j], z3.And(j >= 0, j < n, z3.Not(has(ch(j)))))
            if eng_.branch(anybad):
                kf, kl = z3.Int("kf"), z3.Int("kl")      # ghost: first / last unencodable index (exist on this path)
                eng_.inputs["kf"] = kf
                eng_.inputs["kl"] = kl
                eng_.assume(z3.And(kf >= 0, kf < n, z3.Not(has(ch(kf))), z3.ForAll([j], z3.Implies(z3.And(j >= 0, j < kf), has(ch(j))))))
                eng_.assume(z3.And(kl >= kf, kl < n, z3.Not(has(ch(kl))), z3.ForAll([j], z3.Implies(z3.And(j > kl, j < n), has(ch(j))))))
                eng_.I.update(kf=kf, kl=kl)
                raise PyRaise(Exc("KeyError"))
            R = abstract_seq("R!enc", n)
            eng_.assume(z3.ForAll([j], z3.Implies(z3.And(j >= 0, j < n), R[j] == val(ch(j)))))
            eng_.I["R"] = R
            return R

        def element(eng_, it, g, outcome):
            if outcome[0] == "raise":
                eng_.prove("comprehension-element-raises-only-KeyError-and-only-for-a-character-outside-the-table", z3.And(outcome[1].cls == "KeyError", z3.Not(has(ch(g)))))
            else:
                eng_.prove("comprehension-element-is-the-table-value-of-a-character-in-the-table", z3.And(has(ch(g)), outcome[1] == val(ch(g))))
        eng.comp_specs[("encode", 0)] = CompSpec(summary, element)

        def inv0(eng_, env):
            st = env.lookup("start")
            kf = eng_.I["kf"]
            return [("0<=start<=first-unencodable-index", z3.And(st >= 0, st <= kf))]

        def havoc0(eng_, env):
            env.assign("start", eng_.fresh_int("start"))
        eng.loop_specs[("encode", 0)] = LoopSpec(inv0, havoc0, variant=lambda eng_, env: eng_.I["kf"] - env.lookup("start"))

        def inv1(eng_, env):
            en = env.lookup("end")
            kl = eng_.I["kl"]
            return [("last-unencodable-index<end<=len", z3.And(en >= kl + 1, en <= n))]

        def havoc1(eng_, env):
            env.assign("end", eng_.fresh_int("end"))
        eng.loop_specs[("encode", 1)] = LoopSpec(inv1, havoc1, variant=lambda eng_, env: env.lookup("end") - eng_.I["kl"] - 1)
        f = find_func(eng, "bk_encoding", ["encode"])
        return eng.call(f, [s], {})

    def post(eng, outcome):
        I = eng.I
        s, has, val = I["s"], I["has"], I["val"]
        n = z3.Length(s)
        j = z3.Int("j!p")
        ch = lambda k: z3.SubString(s, k, 1)  # noqa
        kind, v = outcome
        if kind == "raise":
            eng.prove("only-UnicodeEncodeError-escapes", v.cls == "UnicodeEncodeError")
            if v.cls != "UnicodeEncodeError":
                return
            codec, obj, start, end = v.args[0], v.args[1], v.args[2], v.args[3]
            eng.prove("error-names-the-bk-codec-and-the-string", codec == "bk" and obj is s)
            eng.prove("raised-only-when-some-character-is-outside-the-table", z3.Exists([j], z3.And(j >= 0, j < n, z3.Not(has(ch(j))))))
            eng.prove("start-is-the-first-unencodable-index", z3.And(start >= 0, start < n, z3.Not(has(ch(start))), z3.ForAll([j], z3.Implies(z3.And(j >= 0, j < start), has(ch(j))))))
            eng.prove("end-1-is-the-last-unencodable-index", z3.And(end - 1 >= start, end <= n, z3.Not(has(ch(end - 1))), z3.ForAll([j], z3.Implies(z3.And(j >= end, j < n), has(ch(j))))))
        else:
            out, ln = v
            eng.prove("returns-only-when-every-character-is-in-the-table", z3.ForAll([j], z3.Implies(z3.And(j >= 0, j < n), has(ch(j)))))
            eng.prove("length-preserved", z3.And(ln == n, slen(out) == n))
            eng.prove("bytes-pointwise-from-the-table", z3.ForAll([j], z3.Implies(z3.And(j >= 0, j < n), zbytes(out)[j] == val(ch(j)))))
    r = verify(eng, "bk_encoding.encode", run, post, func="bk_encoding.encode")
    seen = set(o["label"].split("-")[0] for o in r["obligations"])
    r["cover_missing"] = sorted({"start", "returns"} - seen)
    for o in r["obligations"]:
        o["cfg"] = dict(kind="encode")
    return r


def unit_decode(eng):
    def run(eng):
        eng.I = {}
        mod = eng.load_module("bk_encoding")
        table = eng.resolve_global(mod, "DECODING_TABLE")
        b = abstract_seq("b!dec")
        n = slen(b)
        j = z3.Int("j!d")
        eng.assume(z3.ForAll([j], z3.Implies(z3.And(j >= 0, j < n), z3.And(b[j] >= 0, b[j] <= 255))))      # bytes
        eng.I.update(b=b, n=n, table=table)

        def tabfn():
            return LISTFN[id(table)][0]

        def summary(eng_, it):
            R = z3.String("R!dec")
            eng_.assume(z3.Length(R) == n)
            eng_.I["R"] = R
            eng_.I["summary_used"] = True
            return R

        def element(eng_, it, g, outcome):
            eng_.prove("comprehension-element-never-raises-for-a-byte", outcome[0] == "value")
            if outcome[0] == "value":
                eng_.I["elem"] = (g, outcome[1])
                eng_.prove("comprehension-element-is-the-first-character-of-the-table-entry", outcome[1] == z3.SubString(tabfn()(b[g]), 0, 1))
        eng.comp_specs[("decode", 0)] = CompSpec(summary, element)
        return eng.call(find_func(eng, "bk_encoding", ["decode"]), [b], {})

    def post(eng, outcome):
        kind, v = outcome
        eng.prove("no-exception-for-any-byte-string", kind == "return")
        if kind == "return":
            eng.prove("returns-the-joined-characters-and-the-input-length", v[0] is eng.I["R"] and v[1] is eng.I["n"] or z3.And(v[1] == eng.I["n"]))
    return verify(eng, "bk_encoding.decode", run, post, func="bk_encoding.decode")


# ------------------------------------------------------------------ CharLiteral.resolve: encoding error -> 'invalid-character'
def unit_charliteral(eng):
    def run(eng):
        eng.I = {}
        s = z3.String("lit")
        eng.inputs["lit"] = s
        tok = mk_token(eng, "CharLiteral", representation="'x", string=s, evaluated_value=None)
        state = {"compiler": Obj("Compiler", {"output_charset": "bk"}, name="compiler")}
        eng.I.update(s=s)
        return eng.call(Bound(tok, tok.cls.lookup("resolve")), [state], {})

    def post(eng, outcome):
        from pyvc.engine import ENCODERS
        kind, v = outcome
        s = eng.I["s"]
        enc, bad = ENCODERS["bk"]
        errs = [e[1] for e in errors(eng)]
        eng.prove("no-exception", kind == "return")
        if kind != "return":
            return
        b = enc(s)
        n = slen(b)
        if "invalid-character" in errs:
            eng.prove("unencodable-literal-is-an-invalid-character-error-with-value-0", z3.And(bad(s), v == 0, errs == ["invalid-character"]))
        else:
            eng.prove("accepted-only-when-encodable", z3.Not(bad(s)))
            eng.prove("too-long-string-reported-iff-more-than-2-bytes", z3.If(n > 2, errs == ["too-long-string"], errs == []))
            b0 = z3.If(n > 0, b[0], 0)
            b1 = z3.If(n > 1, b[1], 0)
            eng.prove("value-is-the-first-two-bytes-little-endian-zero-padded", v == b0 + 256 * b1)
    r = verify(eng, "types.CharLiteral.resolve[bk]", run, post, func="types.CharLiteral.resolve")
    return r


def unit_bk_filename(eng):
    """metacommands.encode_bk_filename (the tape name of make_wav / make_turbo_wav) over every string: the codec's bytes of exactly the text
    given, or one invalid-character error and the empty name"""
    def run(eng):
        eng.I = {}
        s = z3.String("name")
        eng.inputs["name"] = s
        state = {"compiler": Obj("Compiler", {"output_charset": "bk"}, name="compiler"), "insn": mk_token(eng, "Instruction", name="make_wav")}
        eng.I.update(s=s)
        return eng.call(eng.resolve_global(eng.load_module("metacommands"), "encode_bk_filename"), [state, s], {})

    def post(eng, outcome):
        from pyvc.engine import ENCODERS
        kind, v = outcome
        s = eng.I["s"]
        enc, bad = ENCODERS["bk"]
        errs = [e[1] for e in errors(eng)]
        eng.prove("no-exception", kind == "return")
        if kind != "return":
            return
        if errs:
            eng.prove("refused-only-when-some-character-is-outside-the-table:one-invalid-character-error-and-an-empty-name", z3.And(bad(s), z3.BoolVal(errs == ["invalid-character"]), zbytes(v) == z3.Empty(z3.SeqSort(z3.IntSort()))))
        else:
            eng.prove("accepted-only-when-every-character-is-in-the-table", z3.Not(bad(s)))
            eng.prove("the-name's-bytes-are-the-table-bytes-of-exactly-the-text-given", zbytes(v) == enc(s))
    return verify(eng, "metacommands.encode_bk_filename[bk]", run, post, func="metacommands.encode_bk_filename")


def unit_include_path(eng=None, tree=None):
    """the same string in an INCLUDED file: source files are UTF-8 whatever the locale of the process (the command line reads the main file
    as UTF-8 explicitly); run through the real CLI under the default environment and under an ASCII-only locale"""
    import subprocess
    import tempfile
    import shutil
    tree = tree or driver.tree_root()
    text = "\u041f\u0440\u0438\u0432\u0435\u0442, \u043c\u0438\u0440 Az"
    want = None
    bad, n = [], 0
    d = tempfile.mkdtemp(prefix="pyvc-c14-inc-")
    try:
        open(os.path.join(d, "inc.mac"), "w", encoding="utf-8").write('.ascii "%s"\n' % text)
        open(os.path.join(d, "main.mac"), "w", encoding="utf-8").write('.include "inc.mac"\n.ascii "%s"\n' % text)
        for envname, extra in (("default", {}), ("LC_ALL=C, PYTHONUTF8=0", dict(LC_ALL="C", LANG="C", PYTHONUTF8="0", PYTHONCOERCECLOCALE="0")), ("LC_ALL=POSIX", dict(LC_ALL="POSIX", PYTHONCOERCECLOCALE="0", PYTHONUTF8="0"))):
            env = {k: v for k, v in os.environ.items() if k not in ("LC_ALL", "LANG", "PYTHONUTF8", "PYTHONCOERCECLOCALE", "LC_CTYPE")}
            env.update(extra)
            out = os.path.join(d, "out.raw")
            if os.path.exists(out):
                os.remove(out)
            p = subprocess.run(["/venv/bin/python", "-c", "import sys; sys.path.insert(0, %r); sys.argv = ['pdpy11'] + sys.argv[1:]; from pdpy11._cli import main_cli; main_cli()" % tree,
                                "main.mac", "-o", "out.raw"], cwd=d, capture_output=True, env=env, timeout=120)
            n += 1
            got = open(out, "rb").read().hex() if os.path.exists(out) else None
            exp = (text.encode("koi8-r") * 2).hex()      # the property: ASCII below 0x7F, KOI8-R for the Cyrillic letters
            if p.returncode != 0 or got != exp:
                bad.append([envname, "exit %d" % p.returncode, got, "expected " + exp, p.stderr.decode("utf-8", "replace")[-200:]])
    finally:
        shutil.rmtree(d, ignore_errors=True)
    ob = dict(label="a-string-in-an-included-file-assembles-to-the-same-table-bytes-as-in-the-main-file-under-every-locale", kind="rac", status="proved" if n and not bad else "failed", secs=0.0, path=[],
              witness=None, detail=str(bad[:3])[:1500], events=[], smt2=None, backend="cpython-native", unit="include-path", func="metacommands.include (run-time check)", cases=n, cfg=dict(kind="include-path"))
    return dict(unit="include-path", func="metacommands.include (run-time check)", paths=n, obligations=[ob], wall=0.0)


def unit_text_identity(eng):
    """a character reaches the codec as it is written in the file: parser.parse hands the file's own text to the scanner (frame, contracts/c17.py)"""
    from contracts import c17
    return c17.unit_text_identity(eng)


def unit_rac(eng, tier="quick"):
    """run-time check: error positions on random strings mixing encodable and unencodable characters"""
    import os
    code = r'''
import random
from pdpy11 import bk_encoding as bk
rnd = random.Random(%d)
good = [c for c in bk.ENCODING_TABLE]
badc = ["\u20ac", "\u4e2d", "\U0001f600", "\u00e9", "\ufb06", "\u0451"]
bad = []
n = 0
for _ in range(%d):
    s = "".join(rnd.choice(good) if rnd.random() < 0.8 else rnd.choice(badc) for _ in range(rnd.randrange(0, 12)))
    idx = [i for i, c in enumerate(s) if c not in bk.ENCODING_TABLE]
    n += 1
    try:
        out = s.encode("bk")
        if idx or out != bytes(bk.ENCODING_TABLE[c] for c in s): bad.append(s)
    except UnicodeEncodeError as ex:
        if not idx or (ex.start, ex.end) != (idx[0], idx[-1] + 1): bad.append(s)
result = [n, bad[:3]]
''' % (int(os.environ.get("VERIF_SEED", "0") or 0), 2000 if tier == "quick" else 50000)
    r = driver.native([{"kind": "py", "code": code}], driver.tree_root())[0]
    n, bad = r["result"] if r["status"] == "ok" else (0, [str(r)])
    ob = dict(label="encode-error-positions-on-mixed-strings", kind="rac", status="proved" if n and not bad else "failed", secs=0.0, path=[], witness=None, detail=str(bad),
              events=[], smt2=None, backend="cpython-native", unit="bk-rac", func="bk_encoding.encode (run-time check)", cases=n, cfg=dict(kind="rac"))
    return dict(unit="bk-rac", func="bk_encoding.encode (run-time check)", paths=n, obligations=[ob], wall=0.0)


def unit_string_path(eng, tier="quick"):
    """the same question as the codec's closed obligation, asked through the assembler's own string path ('.ascii "c"', a char literal and a
    tape name): a character outside the table is an error there too, and one inside gives exactly its table byte - no rewriting of the text
    (case mapping, Unicode normalisation, ...) on the way from the source to the codec"""
    code = r'''
import unicodedata
from pdpy11 import reports, bk_encoding as bk
from pdpy11.parser import parse
from pdpy11.compiler import Compiler
E = bk.ENCODING_TABLE
tier = %r
def interesting(cp):
    ch = chr(cp)
    if cp < 0x3000 or ch in E:
        return True
    for form in ("NFC", "NFD", "NFKC", "NFKD"):
        if unicodedata.normalize(form, ch) != ch:
            return True
    if unicodedata.category(ch) in ("Cf", "Cc", "Zs", "Zl", "Zp", "Mn", "Me", "Lm", "Sk"):
        return True      # format / control / space / combining characters: what a well-meant clean-up of the source text would drop
    return ch.upper() != ch or ch.lower() != ch or ch.casefold() != ch
cps = [cp for cp in range(0x110000) if not (0xD800 <= cp <= 0xDFFF) and (tier != "quick" or interesting(cp)) and chr(cp) not in '"\\\n\r\t']
if tier != "quick":
    cps = [cp for cp in cps if cp < 0x30000 or cp %% 7 == 0]
bad, n = [], 0
pairs = [("\u0438\u0306", None), ("e\u0301", None), ("K\u030a", None), ("\u0418\u0306\u0438\u0306", None)]
for cp in cps:
    ch = chr(cp)
    for tmpl, width in ((".ascii \"%%s\"\n", 1), (".byte '%%s\n", 1)):
        if ch == "'" and tmpl.startswith(".byte"):
            continue            # '' is the (warned) empty literal by design
        errs = []
        try:
            with reports.handle_reports(lambda p, i, *l: errs.append(i) if p is not reports.warning else None):
                base, code = Compiler().compile_and_link_files([parse("t.mac", tmpl %% ch)])
            got = ["ok", code.hex()]
        except reports.UnrecoverableError:
            got = ["fail", errs[:1]]
        except Exception as e:
            got = ["crash", type(e).__name__]
        n += 1
        want = ["ok", "%%02x" %% E[ch]] if ch in E else None
        if (want is not None and got != want) or (want is None and got[0] != "fail"):
            if len(bad) < 12: bad.append([tmpl.split()[0], "U+%%04X" %% cp, got, want or "an error"])
    # the tape name of make_wav / make_turbo_wav: the 16-byte header field holds the table bytes, blank padded; position: last, first, middle
    for tmpl, mk in (("A%%s", lambda b: b"A" + b), ("%%sA", lambda b: b + b"A"), ("A%%sB", lambda b: b"A" + b + b"B")):
        if tmpl != "A%%s" and cp >= 0x3000:
            continue
        errs = []
        comp = Compiler()
        try:
            with reports.handle_reports(lambda p, i, *l: errs.append(i) if p is not reports.warning else None):
                comp.compile_and_link_files([parse("t.mac", 'make_wav "x.wav", "' + (tmpl %% ch) + '"\nnop\n')])
            got = ["ok", comp.emitted_files[0][4].hex()]
        except reports.UnrecoverableError:
            got = ["fail", errs[:1]]
        except Exception as e:
            got = ["crash", type(e).__name__]
        n += 1
        want = ["ok", mk(bytes([E[ch]])).ljust(16, b" ").hex()] if ch in E else None
        if (want is not None and got != want) or (want is None and got[0] != "fail"):
            if len(bad) < 12: bad.append(["make_wav name " + tmpl, "U+%%04X" %% cp, got, want or "an error"])
for seq, _ in pairs:
    errs = []
    try:
        with reports.handle_reports(lambda p, i, *l: errs.append(i) if p is not reports.warning else None):
            base, code = Compiler().compile_and_link_files([parse("t.mac", ".ascii \"" + seq + "\"\n")])
        got = ["ok", code.hex()]
    except reports.UnrecoverableError:
        got = ["fail", errs[:1]]
    n += 1
    want = ["ok", "".join("%%02x" %% E[c] for c in seq)] if all(c in E for c in seq) else None
    if (want is not None and got != want) or (want is None and got[0] != "fail"):
        bad.append([".ascii", "+".join("U+%%04X" %% ord(c) for c in seq), got, want or "an error"])
# the same refusal every time: a character constant rejected by one assembly is rejected by the next one in the same process too
for ch in ("\u03bb", "\u263a", "\u5b57", "\u20ac"):
    for tmpl in (".word '%%s\n", "mov #'%%s, r0\n", ".ascii \"%%s\"\n", ".word \"a%%s\n"):
        outs = []
        for rnd_ in range(3):
            errs = []
            try:
                with reports.handle_reports(lambda p, i, *l: errs.append(i) if p is not reports.warning else None):
                    base, code = Compiler().compile_and_link_files([parse("t%%d.mac" %% rnd_, tmpl %% ch)])
                outs.append(["ok", code.hex()])
            except reports.UnrecoverableError:
                outs.append(["fail", errs[:1]])
        n += 1
        if any(o_[0] != "fail" for o_ in outs):
            bad.append([tmpl.strip(), "U+%%04X three assemblies in one process" %% ord(ch), outs, "an error every time"])
result = [n, len(cps), bad]
''' % tier
    r = driver.native([{"kind": "py", "code": code}], driver.tree_root(), timeout=3000)[0]
    n, ncp, bad = r["result"] if r["status"] == "ok" else (0, 0, [str(r)[:400]])
    ob = dict(label="through-.ascii,-a-char-literal-and-a-tape-name:a-character-assembles-to-its-table-byte-iff-it-is-in-the-table-else-an-error(no rewriting of the text before the codec)",
              kind="bounded", status="proved" if n and not bad else "failed", secs=0.0, path=[], witness=None, detail=str(bad[:6]), events=[], smt2=None, backend="cpython-native",
              unit="string-path", func="types.QuotedString / CharLiteral -> bk_encoding (bounded stand-in)",
              bound=("%d code points: all below U+3000, every table character, and every code point that any Unicode normalisation form or case mapping changes" % ncp) if tier == "quick"
              else ("%d code points (all up to U+2FFFF, every 7th above)" % ncp) + "; plus four base+combining-mark sequences; two statement forms each",
              cases=n, cfg=dict(kind="bounded"))
    return dict(unit="string-path", func="types.QuotedString / CharLiteral -> bk_encoding (bounded stand-in)", paths=n, obligations=[ob], wall=0.0)



def units(tier):
    return [("tables", "unit_closed", {}), ("encode", "unit_encode", {}), ("decode", "unit_decode", {}), ("charliteral", "unit_charliteral", {}), ("bk_filename", "unit_bk_filename", {}), ("include-path", "unit_include_path", {}), ("text-identity", "unit_text_identity", {}),
            ("rac", "unit_rac", dict(tier=tier)), ("string-path", "unit_string_path", dict(tier=tier)), ("QuotedString", "unit_quoted_string", {})]


def canary(eng):
    def run(eng):
        eng.I = {}
        return None

    def post(eng, outcome):
        start, kf = z3.Ints("start kf")
        eng.prove("canary-loop-exit-without-invariant", z3.Implies(start >= 0, start == kf))
    return verify(eng, "canary", run, post, func="canary")


def replay(o, tree):
    cfg = o.get("cfg") or {}
    if o.get("kind") in ("bounded", "closed"):
        return None          # evaluated on the real assembler / the real tables already: the failing characters are in the obligation's detail
    if cfg.get("kind") == "include-path":
        return None          # the real CLI was run: the failing environment and output are in the obligation's detail
    probes = ["abc", "\u20acabc", "ab\u20ac", "a\u20acb\u4e2dc", "\u4e2d", "\u044f\u0411", "a\u20ac", "\u20ac\u20ac", "\x7f", "\u25a0", "\u00a4$"]
    code = "from pdpy11 import bk_encoding as bk\nres = []\nfor s in %r:\n    try:\n        res.append(['ok', s.encode('bk').hex()])\n    except UnicodeEncodeError as ex:\n        res.append(['err', ex.start, ex.end])\nresult = res\n" % (probes,)
    r = driver.native([{"kind": "py", "code": code}], tree)[0]
    # expectation from the independent oracle: ascii below 0x7f, koi8-r for cyrillic, positions of foreign characters
    exp = []
    for s in probes:
        idx = [i for i, c in enumerate(s) if not (ord(c) < 0x7f or c in "\u25a0\u00a4" or (0x410 <= ord(c) <= 0x44f))]
        if idx:
            exp.append(["err", idx[0], idx[-1] + 1])
        else:
            out = b""
            for c in s:
                out += bytes([ord(c)]) if ord(c) < 0x7f else (b"\x7f" if c == "\u25a0" else b"\x24" if c == "\u00a4" else c.encode("koi8_r"))
            exp.append(["ok", out.hex()])
    obs = r.get("result")
    return dict(jobs=[{"kind": "py", "code": code}], expected=exp, observed=obs, reproduced=obs != exp)
