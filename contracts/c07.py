"""C07 - Errors fail the build; warnings never change it.

vc:    reports.emit_report (latch after the handler was called, independent of what it returned; critical aborts), handle_reports.__enter__/__exit__
       (A.7, all exit kinds), FilterHandler.__call__ (forwards every non-warning; drops a warning iff disabled or outside the default class);
       _cli.main_cli executed for real against the real report machinery for every outcome class of parse+compile x output options:
       exit status != 0 <=> an error-severity report or an I/O failure; nothing is written while an error is latched; a failed run leaves no output
       (finding D12: a later write fails after an earlier one succeeded); warnings-only runs succeed and write every output
frame: the report handlers write nothing outside their own objects (store-site inventory of reports.py) - so -W selections and the report format
       cannot influence bytes, files or status
rac:   the real CLI in a subprocess on planted faults x both report formats x -W selections (testing, separate)
"""
import os
import z3
from contracts.common import *  # noqa
from contracts import common, cli_c, c18
from contracts.cli_c import *  # noqa
from contracts.c18 import unit_handle_reports, unit_emit_report  # noqa
from contracts.compiler_c import unit_link_files  # noqa
from pyvc import driver, frames

ID = "C07"
EXPLANATION = "every path of the real main_cli / emit_files / report machinery for each outcome class of the compiler contract and each output-option combination"
TRUSTED = ["pyvc engine semantics incl. with / try / SystemExit (A1)", "z3 (A7)", "argparse (external): the args object is an input"]
ASSUMPTIONS = ["parse + compile_and_link_files are replaced by a contract that reports through the real emit_report: any mix of warnings, errors, a critical error, a RecoverableError, "
               "or an internal exception (whose absence is C08's business)", "open_device / file writes may raise IOError (A5)",
               "-o path forms are an enumerated list of representative spellings (bounded for that part)", "GraphicalHandler rendering is not executed (text only)"]

OUTFILES = [None, "out.bin", "dir.x/OUT.BIN", "out", "dir/out.raw", "-", "-.bin", "a.wav"]


def unit_filter_handler(eng):
    out = []
    rmod_name = "reports"
    cases = []
    for prio in ("error", "critical", "warning"):
        for ident, in_default in (("implicit-operand", True), ("meta-typo", False)):
            for control in ("unset", "enabled", "disabled"):
                cases.append((prio, ident, in_default, control))
    for prio, ident, in_default, control in cases:
        def run(eng, prio=prio, ident=ident, control=control):
            eng.I = {}
            rmod = eng.load_module(rmod_name)
            calls = []
            nested = Builtin("nested", lambda e, *a: calls.append(a))
            wc = {} if control == "unset" else {ident: control == "enabled"}
            fh = eng.call(eng.resolve_global(rmod, "FilterHandler"), [nested, wc], {})
            eng.I.update(calls=calls, fh=fh, wc=dict(wc))
            return eng.call(fh, [eng.resolve_global(rmod, prio), ident, ("span",)], {})

        def post(eng, o, prio=prio, ident=ident, in_default=in_default, control=control):
            eng.prove("no-exception", o[0] == "return")
            forwarded = len(eng.I["calls"]) == 1
            if prio != "warning":
                eng.prove("errors-are-always-forwarded", forwarded)
            else:
                want = (control == "enabled") or (control == "unset" and in_default)
                eng.prove("a-warning-is-dropped-iff-disabled-or-not-in-the-default-class", forwarded == want)
            eng.prove("filtering-changes-nothing-but-the-forwarding(frame)", eng.I["fh"].attrs["warning_control"] == eng.I["wc"])
        out.append(verify(eng, "FilterHandler[%s,%s,%s]" % (prio, ident, control), run, post, func="reports.FilterHandler.__call__"))
    return out


def unit_handler_frame(eng):
    pkg = os.path.join(driver.tree_root(), "pdpy11")
    inv = frames.inventory(pkg)
    obs = []
    sites = [s for s in inv["sites"] if s["module"] == "reports" and s["cls"] in ("FilterHandler", "BareHandler", "GraphicalHandler")]
    bad = [(s["function"], s["target"]) for s in sites if not (s["function"].endswith("__init__") or s["target"].startswith("self.nested_handler") or s["root_is_local"])]
    # stores through local variables inside GraphicalHandler (ReportInfo objects, local lists) stay inside the call
    obs.append(dict(label="report-handlers-write-only-their-own-fields-and-locals(no compiler, no file, no status)", kind="frame", status="proved" if not bad else "failed", secs=0.0, path=[],
                    witness=None, detail=str(bad), events=[], smt2=None, backend="ast-inventory", unit="handler-frame", func="reports.*Handler (frame)", cfg=dict(kind="frame")))
    import ast
    mods = frames.parse_package(pkg)
    calls = []
    for node in ast.walk(mods["reports"]):
        if isinstance(node, ast.ClassDef) and node.name in ("FilterHandler", "BareHandler", "GraphicalHandler"):
            for sub in ast.walk(node):
                if isinstance(sub, ast.Call):
                    f = sub.func
                    nm = f.id if isinstance(f, ast.Name) else f.attr if isinstance(f, ast.Attribute) else None
                    if nm in ("open", "open_device", "exit", "emit_report", "write"):
                        calls.append((node.name, nm))
    obs.append(dict(label="report-handlers-neither-open-files-nor-exit-nor-report", kind="frame", status="proved" if not calls else "failed", secs=0.0, path=[], witness=None,
                    detail=str(calls), events=[], smt2=None, backend="ast-inventory", unit="handler-frame", func="reports.*Handler (frame)", cfg=dict(kind="frame")))
    return dict(unit="handler-frame", func="reports.*Handler (frame)", paths=1, obligations=obs, wall=0.0)


def unit_rac(eng, tier="quick"):
    """the real CLI in subprocesses: planted faults x report formats x -W selections; outputs / status compared"""
    import subprocess
    import tempfile
    import shutil
    import itertools
    faults = [("ok", "nop\nmake_raw\n", 0), ("warn", ".byte\nmake_raw\n", 0), ("warn2", "clr @r0\nmake_raw\n", 0), ("err-value", ".word 200000\nmake_raw\n", 1),
              ("err-undef", ".word zz\nmake_raw\n", 1), ("err-parse", "mov (, r0\nmake_raw\n", 1), ("err-user", ".error boom\nmake_raw\n", 1), ("err-dup", "a: a:\nmake_raw\n", 1),
              ("err-branch", "br .+1000\nmake_raw\n", 1), ("err-link", ".link 1\n.link 2\nmake_raw\n", 1),
              # orders of several diagnostics: the latch must survive whatever is reported afterwards (also a warning that -W filters out)
              ("err-then-warn", "a: a:\n.byte\nmake_raw\n", 1), ("warn-then-err", ".byte\na: a:\nmake_raw\n", 1), ("err-then-filtered-warn", "a: a:\nmov @(r1), r2\nmake_raw\n", 1),
              ("parse-err-then-warn", "r0: nop\n.byte\nmake_raw\n", 1), ("two-errors", "a: a:\nb: b:\nmake_raw\n", 1),
              # a diagnostic on the very last line of a file that has no final newline, and at the end-of-file position
              ("warn-last-line-no-newline", "make_raw\nmov #1, r0\n.word", 0), ("err-last-line-no-newline", "make_raw\n.word 200000", 1), ("warn-at-eof", "make_raw\nnop\n.word\n", 0),
              # an error in a definition that no statement uses (it is evaluated only because every symbol is resolved at the end); with and without --lst
              # source lines that the graphical format colours: several ';' on the reported line, quotes inside comments
              ("warn-two-semicolons", "\t.byte\t\t; pad to even; see start\nmake_raw\n", 0), ("err-quote-in-comment", ".word 200000 ; it's \"big\"; really\nmake_raw\n", 1),
              # an output path the operating system cannot express (NUL): an io-error report, not the internal-error path
              ("err-nul-in-output-path", "nop\nmake_raw \"a\\x00b\"\n", 1),
              ("err-too-large-bin-next-to-raw", ".blkb 60000.\n.blkb 60000.\nmake_bin \"o.bin\"\nmake_raw \"o.raw\"\n", 1), ("err-too-large-raw-first", ".blkb 60000.\n.blkb 60000.\nmake_raw \"o.raw\"\nmake_wav \"o.wav\"\n", 1),
              ("err-unused-undefined", "limit = top - 2\nnop\nmake_raw\n", 1), ("err-unused-divzero-later", "x = y / z\nz = 0\ny = 1\nnop\nmake_raw\n", 1),
              ("err-unused-label-expr", "nop\nq = e - zz\ne:\nmake_raw\n", 1)]
    # identifiers that are a warning in one place and an ERROR in another: switching the warning off must not hide (or change) the error
    faults += [("err-excess-hash-in-directive", ".word #5\nmake_raw\n", 1), ("warn-excess-hash-in-insn", "emt #1\nmake_raw\n", 0)]
    wsel = [[], ["-Wall"], ["-Wno-implicit-operand"], ["-Wmeta-typo", "-Wno-not-implemented"], ["-Wno-excess-hash"], ["-Wno-all"]]
    if tier == "quick":
        wsel = wsel[:3] + wsel[4:5]
    d = tempfile.mkdtemp(prefix="pyvc-cli-")
    bad = []
    n = 0
    try:
        for name, src, want in faults:
            ref = None
            for fmt, ws, lst in itertools.product(("bare", "graphical"), wsel, ((True, False) if name.startswith("err-unused") else (True,))):
                wd = os.path.join(d, "%s-%s-%d-%s" % (name, fmt, wsel.index(ws), lst))
                os.makedirs(wd)
                open(os.path.join(wd, "p.mac"), "w").write(src)
                p = subprocess.run(["/venv/bin/python", "-c", "import sys; sys.path.insert(0, %r); sys.argv = ['pdpy11'] + sys.argv[1:]; from pdpy11._cli import main_cli; main_cli()" % driver.tree_root(),
                                    "p.mac", "--report-format", fmt] + (["--lst"] if lst else []) + ws, cwd=wd, capture_output=True, text=True, timeout=120)
                files = {f: open(os.path.join(wd, f), "rb").read() for f in sorted(os.listdir(wd)) if f != "p.mac"}
                n += 1
                res = (p.returncode, files)
                if p.returncode != want:
                    bad.append((name, fmt, ws, "status", p.returncode))
                if want and files:
                    bad.append((name, fmt, ws, "files written on failure", sorted(files)))
                if not want and "p" not in files:
                    bad.append((name, fmt, ws, "no output on success", sorted(files)))
                if "internal compiler error" in p.stderr:
                    bad.append((name, fmt, ws, "internal error path"))
                if want and "rror" not in (p.stdout + p.stderr):
                    bad.append((name, fmt, ws, "the run failed without showing any error diagnostic"))
                if ref is None:
                    ref = res
                elif res != ref:
                    bad.append((name, fmt, ws, "differs from the first configuration"))
        # the image written to standard output ('-o -'): the emitted bytes must not depend on the report format or the -W selection
        # (finding D47: the bare format prints its diagnostics to standard output too)
        known47 = []
        for name, src, image in (("stdout-ok", "mov #1, r0\n", "c0150100"), ("stdout-warn", ".byte\n.byte 2\n", "0002")):
            for fmt, ws in itertools.product(("bare", "graphical"), wsel):
                wd = os.path.join(d, "%s-%s-%d" % (name, fmt, wsel.index(ws)))
                os.makedirs(wd)
                open(os.path.join(wd, "p.mac"), "w").write(src)
                p = subprocess.run(["/venv/bin/python", "-c", "import sys; sys.path.insert(0, %r); sys.argv = ['pdpy11'] + sys.argv[1:]; from pdpy11._cli import main_cli; main_cli()" % driver.tree_root(),
                                    "p.mac", "--report-format", fmt, "-o", "-"] + ws, cwd=wd, capture_output=True, timeout=120)
                n += 1
                if p.returncode != 0 or p.stdout.hex() != image:
                    rec = (name, fmt, ws, "standard output is not the image", p.returncode, p.stdout[:60])
                    if fmt == "bare" and "D47" in common.ACTIVE_FINDINGS and p.returncode == 0 and bytes.fromhex(image) in p.stdout:
                        known47.append(rec)
                    else:
                        bad.append(rec)
    finally:
        shutil.rmtree(d, ignore_errors=True)
    ob = dict(label="real-CLI:status-and-files-per-fault-identical-under-both-report-formats-and-all--W-selections", kind="rac",
              status=("known-region" if known47 else "proved") if n and not bad else "failed", secs=0.0, path=[],
              witness=None, detail=str(bad[:4]), events=[], smt2=None, backend="cpython-native", unit="cli-rac", func="_cli.main_cli (run-time check)", cases=n, cfg=dict(kind="rac"))
    return dict(unit="cli-rac", func="_cli.main_cli (run-time check)", paths=n, obligations=[ob], wall=0.0)


def unit_bounded_handlers(eng, tier="quick"):
    """bounded stand-in for the report renderers (string formatting code outside the subset): BareHandler and GraphicalHandler never raise,
    whatever spans they are given - every start <= end pair of positions in small texts (with and without a final newline, tabs, empty,
    non-ASCII, several lines), one- and two-part reports, parts in two files, every severity"""
    texts = ["", "a", "a\n", "a\nb", "ab\n\n", "\tx y\n\n z", "ab\ncd\nef\ngh\nij\nkl\nmn\nop", "\u00e9\u4e16\n\tq", "\n\n\n",
             # what the colouring of the graphical format looks at: comments (one, several, empty), strings, quotes, brackets, labels, numbers
             "x ;c", "a;b;c\n;", "\t.byte\t; pad; see 'x\n", "\";\" ;\"", "l: 1$: <'a> \"\\\"\" /;/ ^R;", ";;;", "'"]
    if tier != "quick":
        texts += ["a\r\nb", "x" * 200 + "\ny", "\n".join("l%d" % i for i in range(40))]
    code = r'''
import io, sys, contextlib, itertools
from pdpy11 import reports
from pdpy11.context import Context
texts = %r
bad, n = [], 0
for hname in ("BareHandler", "GraphicalHandler"):
    h = getattr(reports, hname)()
    for ti, t in enumerate(texts):
        pos = list(range(len(t) + 1))
        if len(pos) > 14:
            pos = pos[:5] + pos[len(pos) // 2 - 1:len(pos) // 2 + 2] + pos[-5:]
        for a, b in itertools.combinations_with_replacement(pos, 2):
            s1, e1 = Context("f.mac", t), Context("f.mac", t)
            s1.pos, e1.pos = a, b
            other_s, other_e = Context("g.mac", "zz\nyy"), Context("g.mac", "zz\nyy")
            other_s.pos, other_e.pos = 1, 5
            s2, e2 = Context("f.mac", t), Context("f.mac", t)
            s2.pos, e2.pos = 0, len(t)
            for prio in (reports.warning, reports.error, reports.critical):
                for parts in ([(s1, e1, "one")], [(s1, e1, "multi\nline text")], [(s1, e1, "first"), (s2, e2, "whole file")], [(s1, e1, "here"), (other_s, other_e, "and there")],
                              [(other_s, other_e, "there"), (s1, e1, "and here")]):
                    n += 1
                    try:
                        with contextlib.redirect_stdout(io.StringIO()), contextlib.redirect_stderr(io.StringIO()):
                            h(prio, "some-id", *parts)
                    except Exception as e:
                        if len(bad) < 8:
                            bad.append([hname, t, a, b, len(parts), type(e).__name__ + ": " + str(e)[:60]])
result = [n, bad]
''' % (texts,)
    r = driver.native([{"kind": "py", "code": code}], driver.tree_root(), timeout=1800)[0]
    n, bad = r["result"] if r["status"] == "ok" else (0, [str(r)[:400]])
    ob = dict(label="BareHandler-and-GraphicalHandler-never-raise-for-any-span(so the report format cannot turn a run into the internal-error path)", kind="bounded",
              status="proved" if n and not bad else "failed", secs=0.0, path=[], witness=None, detail=str(bad[:4]), events=[], smt2=None, backend="cpython-native", unit="bounded-handlers",
              func="reports.BareHandler / reports.GraphicalHandler (bounded stand-in)",
              bound="%d texts (empty, with/without final newline, tabs, non-ASCII, up to 8 lines) x every start<=end position pair (sampled beyond 14 positions) x 3 severities x 5 part layouts" % len(texts),
              cases=n, cfg=dict(kind="bounded"))
    return dict(unit="bounded-handlers", func="reports.BareHandler / reports.GraphicalHandler (bounded stand-in)", paths=n, obligations=[ob], wall=0.0)



def units(tier):
    us = [("rac", "unit_rac", dict(tier=tier)), ("filter", "unit_filter_handler", {}), ("handler-frame", "unit_handler_frame", {}), ("bounded-handlers", "unit_bounded_handlers", dict(tier=tier))]
    for exc in (None, "RecoverableError", "UnrecoverableError", "TypeError"):
        for errcond in (False, True):
            for h in ("callable", "filter"):
                us.append(("handle_reports[%s,%s,%s]" % (exc, errcond, h), "unit_handle_reports", dict(exc=exc, errcond=errcond, handler=h)))
    for p in ("error", "critical", "warning"):
        for latched in (False, True):
            us.append(("emit_report[%s,%s]" % (p, latched), "unit_emit_report", dict(prio=p, latched=latched)))
    for sh in cli_c.EMIT_SHAPES:
        us.append(("emit_files[%s]" % ",".join(sh), "unit_emit_files", dict(shape=sh)))
    # every definition is evaluated inside the reporting scope (an error in a symbol nobody uses still fails the build): compile_and_link_files
    for kinds in (("ready",), ("lazy",), ("ready", "lazy"), ("lazy", "lazy", "ready")):
        us.append(("link[%d,%s]" % (len(kinds), "".join(k[0] for k in kinds)), "unit_link_files", dict(nfiles=len(kinds), kinds=kinds, settle_in=None)))
    # the same obligations under every report format and -W selection: neither may change status, files or bytes
    for rf in ("bare", "graphical"):
        for ws in (["all"], ["no-implicit-operand"], ["meta-typo"], ["no-default", "no-meta-typo"], ["nosuch-warning", "no-all"]):
            for of, ne in ((None, 2), ("out.bin", 0)):
                us.append(("main_cli[%s,%s,%s,%s]" % (of, ne, rf, ws), "unit_main_cli", dict(outfile_kind=of, lst=True, implicit_bin=False, n_emitted=ne, report_format=rf, warnings=ws)))
    us.append(("main_cli[graphical]", "unit_main_cli", dict(outfile_kind=None, lst=False, implicit_bin=True, n_emitted=0, report_format="graphical", warnings=None)))
    for of in OUTFILES:
        for lst in (False, True):
            for ib in (False, True):
                for ne in (0, 1, 2):
                    if tier == "quick" and ib and of is not None:
                        continue
                    us.append(("main_cli[%s,%s,%s,%d]" % (of, lst, ib, ne), "unit_main_cli", dict(outfile_kind=of, lst=lst, implicit_bin=ib, n_emitted=ne)))
    return us


def canary(eng):
    def run(eng):
        eng.I = {}
        install_cli_world(eng, None, False, False, [])
        return run_main_cli(eng)
    return verify(eng, "canary", run, lambda eng, o: eng.prove("canary-every-run-succeeds", exit_status(o) == 0), func="canary")


def _d12(tree):
    import subprocess
    import tempfile
    import shutil
    d = tempfile.mkdtemp(prefix="pyvc-d12-")
    try:
        open(os.path.join(d, "p.mac"), "w").write('make_bin "a.bin"\nmake_bin "/nonexistent_dir_pyvc/b.bin"\nnop\n')
        p = subprocess.run(["/venv/bin/python", "-c", "import sys; sys.path.insert(0, %r); sys.argv = ['pdpy11', 'p.mac']; from pdpy11._cli import main_cli; main_cli()" % tree], cwd=d,
                           capture_output=True, text=True, timeout=120)
        files = sorted(f for f in os.listdir(d) if f != "p.mac")
        return dict(jobs=None, experiment="CLI: make_bin a.bin then make_bin into a missing directory", expected="exit 1 and no file", observed=[p.returncode, files],
                    reproduced=p.returncode != 0 and bool(files))
    finally:
        shutil.rmtree(d, ignore_errors=True)


def replay_emit_report(tree):
    """the real emit_report under a real handle_reports: the latch after each sequence of severities"""
    code = """
from pdpy11 import reports
out = {}
for seq in (["warning"], ["error"], ["error", "warning"], ["warning", "error"], ["error", "warning", "warning"], ["error", "error"]):
    h = reports.handle_reports(lambda *a: None)
    latch = None
    try:
        with h:
            for s in seq:
                reports.emit_report(getattr(reports, s), "some-id", (None, None, "text"))
            latch = h.is_error_condition
            h.is_error_condition = False
    except reports.UnrecoverableError:
        pass
    out[",".join(seq)] = latch
result = dict(latches=out, ok=all(v == ("error" in k) for k, v in out.items()))
"""
    jobs = [dict(kind="py", code=code)]
    r = driver.native(jobs, tree)[0]
    r = r.get("result") or r
    return dict(jobs=jobs, expected="latch == (an error was reported earlier in the sequence)", observed=r, reproduced=isinstance(r, dict) and r.get("ok") is False)


def replay(o, tree):
    if "failed-run-has-written-no-output" in o.get("label", "") and "D12" not in common.ACTIVE_FINDINGS:
        r = _d12(tree)          # (with D12 listed, its region is excluded from the obligation, so a failure is something else: the fault catalogue below)
        if r["reproduced"]:
            return r
    if o.get("unit", "").startswith("emit_report["):
        return replay_emit_report(tree)
    if o.get("unit", "").startswith("FilterHandler"):
        # an identifier that is a warning in one place and an error in another, switched off with -Wno-...: the error must still be shown
        import subprocess
        import tempfile
        import shutil
        d = tempfile.mkdtemp(prefix="pyvc-filter-")
        bad = []
        try:
            for src, ws in ((".word #5\n", ["-Wno-excess-hash"]), (".byte #1\n", ["-Wno-all"]), ("ldf r6, ac0\n", ["-Wno-implicit-accumulator"]), (".word #5\n", ["-Wno-default"])):
                for fmt in ("bare", "graphical"):
                    open(os.path.join(d, "p.mac"), "w").write(src)
                    p = subprocess.run(["/venv/bin/python", "-c", "import sys; sys.path.insert(0, %r); sys.argv = ['pdpy11'] + sys.argv[1:]; from pdpy11._cli import main_cli; main_cli()" % tree,
                                        "p.mac", "--report-format", fmt, "-o", "out.bin"] + ws, cwd=d, capture_output=True, text=True, timeout=120)
                    shown = "rror" in (p.stdout + p.stderr)
                    if p.returncode != 0 and not shown:
                        bad.append([src, ws, fmt, "exit %d without any error diagnostic" % p.returncode])
        finally:
            shutil.rmtree(d, ignore_errors=True)
        return dict(jobs=None, experiment="real CLI with the identifier of an error switched off by -Wno-...", observed=bad[:3], reproduced=bool(bad))
    if (o.get("cfg") or {}).get("kind") == "emit_files":
        return cli_c.replay_emit_files(o, tree)
    if o.get("unit", "").startswith("main_cli["):
        r = cli_c.replay_cli(o, tree)
        if r is not None and r["reproduced"]:
            return r
    old = os.environ.get("PDPY11_SRC")
    os.environ["PDPY11_SRC"] = tree
    try:
        rr = unit_rac(None, "thorough")["obligations"][0]
    finally:
        if old is None:
            os.environ.pop("PDPY11_SRC", None)
        else:
            os.environ["PDPY11_SRC"] = old
    return dict(jobs=None, experiment="real CLI on 10 planted faults x 2 report formats x 4 -W selections", observed=rr["detail"][:600], reproduced=rr["status"] == "failed")


def witness_D47(tree):
    import subprocess
    import tempfile
    import shutil
    d = tempfile.mkdtemp(prefix="pyvc-d47-")
    try:
        open(os.path.join(d, "p.mac"), "w").write(".byte\n.byte 2\n")
        outs = []
        for ws in ([], ["-Wno-all"]):
            p = subprocess.run(["/venv/bin/python", "-c", "import sys; sys.path.insert(0, %r); sys.argv = ['pdpy11'] + sys.argv[1:]; from pdpy11._cli import main_cli; main_cli()" % tree,
                                "p.mac", "--report-format", "bare", "-o", "-"] + ws, cwd=d, capture_output=True, timeout=120)
            outs.append(p.stdout)
        return outs[0] != outs[1], "standard output with the default warnings: %d bytes, with -Wno-all: %d bytes (the image has 2)" % (len(outs[0]), len(outs[1]))
    finally:
        shutil.rmtree(d, ignore_errors=True)


def witness_D12(tree):
    r = _d12(tree)
    return r["reproduced"], "exit status and files: %s" % (r["observed"],)


def witness_D8(tree):
    from contracts import c13
    return c13.witness_D8(tree)


FINDING_WITNESS = {"D12": witness_D12, "D8": witness_D8, "D47": witness_D47}
