"""Contracts on pdpy11/deferred.py itself (interpreted for real: eng.real_deferred = True).  They justify the Lazy abstraction
the kernel contracts use (DESIGN section 4) and are shared by C02 (lengths), C03 (settle once), C05/C09/C12 (LinearPolynomial
view, Promise), C08 (cycles) and C18 (balanced module state)."""
import itertools
import z3
from contracts.common import *  # noqa
from contracts import common
from pyvc.engine import BUILTINS, Path


def pick(eng, options, name):
    for o in options[:-1]:
        if eng.branch(eng.fresh_bool("%s_is_%s" % (name, o))):
            return o
    return options[-1]

INT = BUILTINS["int"]
BYT = BUILTINS["bytes"]


def dcls(eng, name):
    return eng.resolve_global(eng.load_module("deferred"), name)


def counter_fn(eng, value, log, raises=None):
    """a deferred body returning `value`; every call is logged; optionally calls the real not_ready() / raises first"""
    def fn(eng_):
        log.append("call")
        if raises == "not_ready":
            eng_.call(dcls(eng_, "not_ready"), [], {})
        elif raises is not None:
            raise PyRaise(Exc(raises))
        return value
    return Builtin("deferred-body", fn)


def new_deferred(eng, typ, fn, sized=None):
    if sized is not None:
        return eng.call(dcls(eng, "SizedDeferred"), [typ, sized, fn], {})
    return eng.call(dcls(eng, "Deferred"), [typ, fn], {})


def module_state(eng):
    """(try_compute.depth, len(awaiting_stack)) - the module-level state of deferred.py"""
    tc = eng.resolve_global(eng.load_module("deferred"), "try_compute")
    depth = eng.getattr(tc, "depth")
    stack = dcls(eng, "Awaiting").ns["awaiting_stack"]
    return depth, len(stack)


def real(eng):
    eng.real_deferred = True
    eng.I = {}


# ------------------------------------------------------------------ wait / Deferred._wait / construct / cycles
def unit_wait(eng):
    out = []

    def run_plain(eng):
        real(eng)
        v = int_input(eng, "v")
        eng.I["v"] = v
        return eng.call(dcls(eng, "wait"), [v], {})
    out.append(verify(eng, "wait[int]", run_plain, lambda eng, o: eng.prove("wait-of-a-plain-value-is-the-value", o[0] == "return" and o[1] is eng.I["v"]), func="deferred.wait"))

    def run_obj(eng):
        real(eng)
        v = int_input(eng, "v")
        log = []
        d = new_deferred(eng, INT, counter_fn(eng, v, log))
        eng.I.update(v=v, log=log, d=d)
        r1 = eng.call(dcls(eng, "wait"), [d], {})
        st1 = (d.attrs["settled"], d.attrs["is_awaiting"], module_state(eng))
        r2 = eng.call(dcls(eng, "wait"), [d], {})
        return r1, r2, st1

    def post_obj(eng, o):
        eng.prove("no-exception", o[0] == "return")
        if o[0] != "return":
            return
        r1, r2, st1 = o[1]
        eng.prove("wait-yields-the-body's-value-both-times", z3.And(r1 == eng.I["v"], r2 == eng.I["v"]))
        eng.prove("body-evaluated-exactly-once(settles once)", eng.I["log"] == ["call"])
        eng.prove("settled-and-not-awaiting-afterwards-module-state-restored", st1 == (True, False, (0, 0)) and module_state(eng) == (0, 0))
    out.append(verify(eng, "wait[Deferred]", run_obj, post_obj, func="deferred.Deferred._wait"))

    def run_chain(eng):
        real(eng)
        v = int_input(eng, "v")
        inner = new_deferred(eng, INT, counter_fn(eng, v, []))
        outer = new_deferred(eng, INT, counter_fn(eng, inner, []))
        eng.I["v"] = v
        return eng.call(dcls(eng, "wait"), [outer], {})
    out.append(verify(eng, "wait[Deferred->Deferred]", run_chain, lambda eng, o: eng.prove("wait-follows-chains-to-the-final-value", o[0] == "return" and o[1] is eng.I["v"]),
                      func="deferred.wait"))
    return out


def unit_construct(eng, mode, sized):
    """Deferred[T](fn) / SizedDeferred[T](n, fn): mode in value | not_ready | RecoverableError"""
    name = "%s.construct[%s]" % ("SizedDeferred" if sized else "Deferred", mode)

    def run(eng):
        real(eng)
        v = int_input(eng, "v")
        log = []
        fn = counter_fn(eng, v, log, None if mode == "value" else mode)
        eng.I.update(v=v, log=log)
        cls = dcls(eng, "SizedDeferred" if sized else "Deferred")
        ctor = eng.call(eng.getattr(type_of(eng, cls), "__getitem__"), [cls, INT], {}) if False else None
        # Deferred[int](fn): BaseDeferredMetaclass.__getitem__ -> lambda *args: cls.construct(typ, *args)
        sub = eng.e_Subscript  # noqa
        c = cls.lookup("construct")
        args = [cls, INT] + ([2] if sized else []) + [fn]
        return eng.call(c, args, {})

    def post(eng, o):
        kind, val = o
        I = eng.I
        if mode == "value":
            eng.prove("computable-body:construct-returns-the-value-itself", kind == "return" and val is I["v"])
            eng.prove("body-evaluated-once", I["log"] == ["call"])
        elif mode == "not_ready":
            ok = kind == "return" and isinstance(val, Obj) and val.cls is dcls(eng, "SizedDeferred" if sized else "Deferred")
            eng.prove("not-ready-body:construct-returns-the-unsettled-object", ok and val.attrs["settled"] is False and val.attrs["is_awaiting"] is False)
            if ok and sized:
                eng.prove("sized-object-announces-its-size", eng.call(eng.getattr(val, "length"), [], {}) == 2 and eng.call(BUILTINS["len"], [val], {}) == 2)
        else:
            eng.prove("other-exceptions-propagate", kind == "raise" and val.cls == mode)
        eng.prove("module-state-restored-on-every-exit(depth 0, awaiting stack empty)", module_state(eng) == (0, 0))
    return verify(eng, name, run, post, func="deferred.%s.construct" % ("SizedDeferred" if sized else "Deferred"))


def type_of(eng, cls):
    return cls


def unit_not_ready(eng):
    out = []
    for depth in (0, 1, 2):
        def run(eng, depth=depth):
            real(eng)
            tc = eng.resolve_global(eng.load_module("deferred"), "try_compute")
            for _ in range(depth):
                eng.call(eng.getattr(tc, "__enter__"), [], {})
            return eng.call(dcls(eng, "not_ready"), [], {})
        out.append(verify(eng, "not_ready[depth=%d]" % depth, run,
                          lambda eng, o, depth=depth: eng.prove("raises-NotReadyError-iff-inside-try_compute", (o[0] == "raise" and o[1].cls == "NotReadyError") if depth else o == ("return", None)),
                          func="deferred.not_ready"))
    return out


def unit_trycompute(eng):
    out = []
    for exc in (None, "NotReadyError", "RecoverableError", "DeferredCycle"):
        def run(eng, exc=exc):
            real(eng)
            tc = eng.resolve_global(eng.load_module("deferred"), "try_compute")
            d0 = eng.getattr(tc, "depth")
            eng.call(eng.getattr(tc, "__enter__"), [], {})
            d1 = eng.getattr(tc, "depth")
            cls = None if exc is None else eng.exc_class_value(Exc(exc))
            sw = eng.call(eng.getattr(tc, "__exit__"), [cls, None, None], {})
            return d0, d1, eng.getattr(tc, "depth"), sw

        def post(eng, o, exc=exc):
            eng.prove("no-exception", o[0] == "return")
            if o[0] == "return":
                d0, d1, d2, sw = o[1]
                eng.prove("depth+1-inside-and-restored-on-exit-whatever-the-exception", (d0, d1, d2) == (0, 1, 0))
                eng.prove("swallows-exactly-NotReadyError", bool(sw) == (exc == "NotReadyError"))
        out.append(verify(eng, "TryCompute[exit with %s]" % exc, run, post, func="deferred.TryCompute.__exit__"))
    return out


def unit_awaiting(eng):
    out = []

    def run_bal(eng):
        real(eng)
        d = new_deferred(eng, INT, counter_fn(eng, 1, []))
        aw = eng.call(dcls(eng, "Awaiting"), [d], {})
        eng.call(eng.getattr(aw, "__enter__"), [], {})
        mid = (d.attrs["is_awaiting"], module_state(eng)[1])
        eng.call(eng.getattr(aw, "__exit__"), [None, None, None], {})
        return mid, (d.attrs["is_awaiting"], module_state(eng)[1])
    out.append(verify(eng, "Awaiting[enter/exit]", run_bal, lambda eng, o: eng.prove("marks-and-pushes-then-pops-the-same-object-and-clears-the-mark", o == ("return", ((True, 1), (False, 0)))),
                      func="deferred.Awaiting"))

    def run_cycle(eng):
        real(eng)
        holder = {}

        def body(eng_):
            return eng_.call(dcls(eng_, "wait"), [holder["d"]], {})
        d = new_deferred(eng, INT, Builtin("self-waiting-body", body))
        holder["d"] = d
        eng.I["d"] = d
        return eng.call(dcls(eng, "wait"), [d], {})

    def post_cycle(eng, o):
        eng.prove("a-deferred-awaiting-itself-raises-DeferredCycle", o[0] == "raise" and o[1].cls == "DeferredCycle")
        eng.prove("state-restored-after-the-cycle-error", module_state(eng) == (0, 0) and eng.I["d"].attrs["is_awaiting"] is False and eng.I["d"].attrs["settled"] is False)
    out.append(verify(eng, "Awaiting[cycle]", run_cycle, post_cycle, func="deferred.Awaiting.__enter__"))

    def run_cycle2(eng):
        real(eng)
        h = {}
        a = new_deferred(eng, INT, Builtin("a", lambda e: e.call(dcls(e, "wait"), [h["b"]], {})))
        b = new_deferred(eng, INT, Builtin("b", lambda e: e.call(dcls(e, "wait"), [h["a"]], {})))
        h.update(a=a, b=b)
        return eng.call(dcls(eng, "wait"), [a], {})
    def run_spec(eng):
        # a value that is being computed is needed again while something is only tried out (try_compute): "not yet", not a cycle - the
        # attempt is abandoned with NotReadyError and nothing is reported; asked for in earnest, the same situation is DeferredCycle
        real(eng)
        d = new_deferred(eng, INT, counter_fn(eng, 1, []))
        aw = eng.call(dcls(eng, "Awaiting"), [d], {})
        eng.call(eng.getattr(aw, "__enter__"), [], {})
        tc = eng.resolve_global(eng.load_module("deferred"), "try_compute")
        eng.call(eng.getattr(tc, "__enter__"), [], {})
        try:
            try:
                eng.call(eng.getattr(eng.call(dcls(eng, "Awaiting"), [d], {}), "__enter__"), [], {})
                inner = "entered"
            except PyRaise as pr:
                inner = pr.exc.cls
        finally:
            eng.call(eng.getattr(tc, "__exit__"), [None, None, None], {})
        try:
            eng.call(eng.getattr(eng.call(dcls(eng, "Awaiting"), [d], {}), "__enter__"), [], {})
            outer = "entered"
        except PyRaise as pr:
            outer = pr.exc.cls
        eng.call(eng.getattr(aw, "__exit__"), [None, None, None], {})
        return inner, outer, module_state(eng)
    out.append(verify(eng, "Awaiting[busy value while speculating]", run_spec, lambda eng, o: eng.prove(
        "a-busy-value-needed-while-speculating-is-NotReadyError(no premature recursive-definition)-and-DeferredCycle-when-asked-in-earnest",
        o == ("return", ("NotReadyError", "DeferredCycle", (0, 0)))), func="deferred.Awaiting.__enter__"))
    out.append(verify(eng, "Awaiting[2-cycle]", run_cycle2, lambda eng, o: eng.prove("mutual-dependency-raises-DeferredCycle-and-restores-state",
                      o[0] == "raise" and o[1].cls == "DeferredCycle" and module_state(eng) == (0, 0)), func="deferred.Awaiting.__enter__"))
    return out


# ------------------------------------------------------------------ lengths and concatenation (C02)
def sym_chunk(eng, kind, name):
    """a chunk of the given kind with final bytes B: 'b' ready bytes, 'S' SizedDeferred of exactly its size, 'D' unsized Deferred, 'DS' Deferred whose value is a SizedDeferred"""
    B = abstract_seq(name)
    if kind == "b":
        return B, B, slen(B)
    if kind == "S":
        n = slen(B)
        return new_deferred(eng, BYT, counter_fn(eng, B, []), sized=n), B, n
    if kind == "D":
        return new_deferred(eng, BYT, counter_fn(eng, B, [])), B, slen(B)
    if kind == "A":
        # ready bytes that are a bytearray, not bytes ('.ascii' / '.asciz' build one): a Concatenator keeps such an element apart from its neighbours
        from pyvc.engine import ByteBuf
        return ByteBuf(B), B, slen(B)
    if kind == "N":
        # an unsized chunk that cannot be computed yet while anything is speculative (its body calls not_ready()): its length() stays pending
        # when it is asked for, so the sum of lengths is built with int + pending
        return new_deferred(eng, BYT, counter_fn(eng, B, [], raises="not_ready")), B, slen(B)
    inner = new_deferred(eng, BYT, counter_fn(eng, B, []), sized=slen(B))
    return new_deferred(eng, BYT, counter_fn(eng, inner, [])), B, slen(B)


def final_bytes(eng, v):
    return eng.call(dcls(eng, "wait"), [v], {})


def unit_length(eng, kind):
    def run(eng):
        real(eng)
        c, B, n = sym_chunk(eng, kind, "B")
        eng.I.update(B=B, n=n)
        ln = eng.call(eng.getattr(c, "length"), [], {})
        return eng.call(dcls(eng, "wait"), [ln], {})
    return verify(eng, "length[%s]" % kind, run, lambda eng, o: eng.prove("length()-denotes-the-length-of-the-final-bytes", z3.And(o[0] == "return", o[1] == eng.I["n"])),
                  func="deferred.%s.length" % {"S": "SizedDeferred", "D": "Deferred", "DS": "Deferred"}[kind])


def unit_concat(eng, kinds, assoc="left"):
    """a + b (+ c (+ d)) in every association the compiler produces - ((a+b)+c), a+(b+c) (a statement's chunk prepended to a block's
    concatenation), (a+b)+(c+d): F(result) == F(a) ++ F(b) ++ ... in order and length() == sum of the parts' lengths, through the real
    __add__/__radd__/Concatenator"""
    name = "concat[%s%s]" % ("+".join(kinds), "" if assoc == "left" else "," + assoc)

    def run(eng):
        real(eng)
        parts = [sym_chunk(eng, k, "B%d" % i) for i, k in enumerate(kinds)]
        eng.I["parts"] = parts
        A = ast.Add()
        if assoc == "right":
            acc = parts[-1][0]
            for p in reversed(parts[:-1]):
                acc = eng.binop(A, p[0], acc)
        elif assoc == "pairs":
            left = eng.binop(A, parts[0][0], parts[1][0])
            right = parts[2][0] if len(parts) == 3 else eng.binop(A, parts[2][0], parts[3][0])
            acc = eng.binop(A, left, right)
        else:
            acc = parts[0][0]
        for p in (parts[1:] if assoc == "left" else []):
            acc = eng.binop(ast.Add(), acc, p[0])
        eng.I["acc"] = acc
        ln = eng.call(eng.getattr(acc, "length"), [], {}) if isinstance(acc, Obj) else slen(acc)
        return final_bytes(eng, acc), eng.call(dcls(eng, "wait"), [ln], {})

    def post(eng, o):
        eng.prove("no-exception", o[0] == "return")
        if o[0] != "return":
            return
        fb, ln = o[1]
        parts = eng.I["parts"]
        want = parts[0][1] if len(parts) == 1 else z3.Concat(*[p[1] for p in parts])
        eng.prove("final-bytes-are-the-parts-in-order", zbytes(fb) == want)
        eng.prove("length()-is-the-sum-of-the-parts'-lengths", ln == sum([p[2] for p in parts[1:]], parts[0][2]))
    r = verify(eng, name, run, post, func="deferred.Concatenator / BaseDeferred.__add__")
    for o_ in r["obligations"]:
        o_["cfg"] = dict(kind="concat", kinds=list(kinds), assoc=assoc)
    return r


def replay_concat(cfg, tree):
    """the same association on the real deferred.py with concrete parts"""
    from pyvc import driver
    code = """
from pdpy11.deferred import Deferred, SizedDeferred, wait
kinds, assoc = %r, %r
vals = [bytes([65 + i]) * (i + 1) for i in range(len(kinds))]
def mk(k, v):
    if k == "b": return v
    if k == "S": return SizedDeferred(bytes, len(v), lambda v=v: v)
    if k == "A": return bytearray(v)
    if k == "N":
        from pdpy11.deferred import not_ready
        def body(v=v):
            not_ready()
            return v
        return Deferred(bytes, body)
    return Deferred(bytes, lambda v=v: v)
parts = [mk(k, v) for k, v in zip(kinds, vals)]
if assoc == "right":
    acc = parts[-1]
    for p in reversed(parts[:-1]): acc = p + acc
elif assoc == "pairs":
    acc = (parts[0] + parts[1]) + (parts[2] if len(parts) == 3 else parts[2] + parts[3])
else:
    acc = parts[0]
    for p in parts[1:]: acc = acc + p
pending_length = acc.length() if hasattr(acc, "length") else len(acc)      # asked for while the parts are still pending, as the compiler does
got = wait(acc)
ln = wait(pending_length)
result = dict(want=b"".join(vals).hex(), got=got.hex(), length=ln, ok=(got == b"".join(vals) and ln == len(b"".join(vals))))
""" % (list(cfg["kinds"]), cfg["assoc"])
    jobs = [dict(kind="py", code=code)]
    r = driver.native(jobs, tree)[0]
    r = r.get("result") or r
    return dict(jobs=jobs, observed=r, reproduced=isinstance(r, dict) and r.get("ok") is False)


def unit_empty_add(eng):
    """b'' + lazy and lazy + b'' return the same object (so len() of a SizedDeferred survives)"""
    def run(eng):
        real(eng)
        c, B, n = sym_chunk(eng, "S", "B")
        return eng.binop(ast.Add(), b"", c) is c, eng.binop(ast.Add(), c, b"") is c
    return verify(eng, "concat[empty]", run, lambda eng, o: eng.prove("adding-empty-bytes-returns-the-same-object", o == ("return", (True, True))), func="deferred.BaseDeferred.__add__")


# ------------------------------------------------------------------ LinearPolynomial (C05, C09, C12)
def poly_var(eng, name, settled=None):
    """a polynomial variable: an unsettled Promise (the link base) or Deferred with ghost final value sigma"""
    sig = int_input(eng, "sigma_" + name)
    p = eng.call(dcls(eng, "Promise"), [INT, name], {})
    p.attrs["_sigma"] = sig
    return p, sig


def poly_value(eng, v):
    """abstract view V(v)(sigma): ints are themselves; LinearPolynomial: constant + sum coeff*sigma(key) (structural, no waiting)"""
    if isinstance(v, Obj) and v.cls is dcls(eng, "LinearPolynomial"):
        tot = v.attrs["constant_term"]
        for k, c in v.attrs["coeffs"].items():
            tot = tot + c * k.attrs["_sigma"]
        return tot
    if isinstance(v, Obj) and "_sigma" in v.attrs:
        return v.attrs["_sigma"]
    if isinstance(v, Obj):
        raise Unsupported("poly_value of %r" % v)
    return v


def rep_inv(eng, v, label="result"):
    if isinstance(v, Obj) and v.cls is dcls(eng, "LinearPolynomial"):
        cs = v.attrs["coeffs"]
        eng.prove("representation-invariant:%s-has-no-zero-coefficient-and-no-polynomial-key" % label,
                  z3.And([c != 0 for c in cs.values()] + [z3.BoolVal(not (isinstance(k, Obj) and k.cls is dcls(eng, "LinearPolynomial"))) for k in cs]) if cs else True)


def mk_poly(eng, keys, tag):
    """LinearPolynomial with symbolic non-zero coefficients on the given variables and a symbolic constant"""
    coeffs = {}
    for i, k in enumerate(keys):
        c = int_input(eng, "%s_c%d" % (tag, i))
        eng.assume(c != 0)
        coeffs[k] = c
    const = int_input(eng, "%s_k" % tag)
    return eng.call(dcls(eng, "LinearPolynomial"), [INT, coeffs, const], {})


POLY_SHAPES = [((0,), (0,)), ((0,), (1,)), ((0, 1), (1, 2)), ((), (0,)), ((0,), ()), ((0, 1), (0, 1))]


def unit_poly_binop(eng, opname, shape):
    """p (+|-) q on polynomials with overlapping/disjoint variable sets"""
    name = "LinearPolynomial[%s,%s]" % (opname, shape)

    def run(eng):
        real(eng)
        vs = [poly_var(eng, "x%d" % i)[0] for i in range(3)]
        p = mk_poly(eng, [vs[i] for i in shape[0]], "p")
        q = mk_poly(eng, [vs[i] for i in shape[1]], "q")
        eng.I.update(p=poly_value(eng, p), q=poly_value(eng, q))
        return eng.binop(ast.Add() if opname == "add" else ast.Sub(), p, q)

    def post(eng, o):
        eng.prove("no-exception", o[0] == "return")
        if o[0] != "return":
            return
        want = eng.I["p"] + eng.I["q"] if opname == "add" else eng.I["p"] - eng.I["q"]
        eng.prove("view-preserved:V(p%sq)==V(p)%sV(q)-for-every-valuation" % (("+", "+") if opname == "add" else ("-", "-")), poly_value(eng, o[1]) == want)
        rep_inv(eng, o[1])
    r = verify(eng, name, run, post, func="deferred.LinearPolynomial.__add__")
    for ob in r["obligations"]:
        ob["cfg"] = dict(kind="poly-binop", opname=opname, shape=[list(shape[0]), list(shape[1])])
    return r


def replay_poly_binop(cfg, w, tree):
    """p (+|-) q on the real deferred.py with the witness's coefficients, constants and valuation (and a fixed second set), evaluated after the variables are settled"""
    from pyvc import driver

    def num(key, dflt):
        v = str((w or {}).get(key, dflt))
        return int(v) if v.lstrip("-").isdigit() else dflt
    sets = []
    for alt in (False, True):
        pc = [num("p_c%d" % i, 2 + i) if not alt else 2 + i for i in range(len(cfg["shape"][0]))]
        qc = [num("q_c%d" % i, 1 + i) if not alt else 1 + i for i in range(len(cfg["shape"][1]))]
        sets.append(dict(pc=[c or 1 for c in pc], qc=[c or 1 for c in qc], pk=num("p_k", 3) if not alt else 3, qk=num("q_k", 5) if not alt else 5,
                         sig=[num("sigma_x%d" % i, 7 + 2 * i) if not alt else 7 + 4 * i for i in range(3)]))
    code = """
from pdpy11.deferred import Promise, LinearPolynomial, wait
opname, shape = %r, %r
results = []
for st in %r:
    xs = [Promise[int]("x%%d" %% i) for i in range(3)]
    p = LinearPolynomial[int]({xs[i]: c for i, c in zip(shape[0], st["pc"])}, st["pk"])
    q = LinearPolynomial[int]({xs[i]: c for i, c in zip(shape[1], st["qc"])}, st["qk"])
    pv = st["pk"] + sum(c * st["sig"][i] for i, c in zip(shape[0], st["pc"]))
    qv = st["qk"] + sum(c * st["sig"][i] for i, c in zip(shape[1], st["qc"]))
    r = p + q if opname == "add" else p - q
    for v, s_ in zip(xs, st["sig"]):
        v.settle(s_)
    got = wait(r)
    want = pv + qv if opname == "add" else pv - qv
    results.append(dict(st=st, want=want, got=got, ok=(got == want)))
bad = [r_ for r_ in results if not r_["ok"]]
result = dict(failing=bad[:3], ok=not bad)
""" % (cfg["opname"], cfg["shape"], sets)
    jobs = [dict(kind="py", code=code)]
    r = driver.native(jobs, tree)[0]
    r = r.get("result") or r
    return dict(jobs=jobs, observed=r, reproduced=isinstance(r, dict) and r.get("ok") is False)


def unit_poly_scalar(eng, which, shape, settled_first=False):
    """p + n, n + p, p - n, n - p, p * n, n * p, -p with an integer n; var + n, var - var (BaseDeferred operators building polynomials); with
    settled_first the polynomial's variables have become known between its construction and the operation (a definition evaluated in between)"""
    name = "LinearPolynomial[%s,%s%s]" % (which, shape, ",variables-known-by-now" if settled_first else "")

    def run(eng):
        real(eng)
        vs = [poly_var(eng, "x%d" % i)[0] for i in range(3)]
        p = mk_poly(eng, [vs[i] for i in shape], "p")
        if settled_first:
            for i in shape:
                eng.call(eng.getattr(vs[i], "settle"), [vs[i].attrs["_sigma"]], {})
        n = int_input(eng, "n")
        pv = poly_value(eng, p)
        A, S, M = ast.Add(), ast.Sub(), ast.Mult()
        table = {"p+n": (lambda: eng.binop(A, p, n), pv + n), "n+p": (lambda: eng.binop(A, n, p), n + pv), "p-n": (lambda: eng.binop(S, p, n), pv - n),
                 "n-p": (lambda: eng.binop(S, n, p), n - pv), "p*n": (lambda: eng.binop(M, p, n), pv * n), "n*p": (lambda: eng.binop(M, n, p), n * pv),
                 "-p": (lambda: eng.call(eng.getattr(p, "__neg__"), [], {}), -pv),
                 "x+n": (lambda: eng.binop(A, vs[0], n), vs[0].attrs["_sigma"] + n), "n+x": (lambda: eng.binop(A, n, vs[0]), n + vs[0].attrs["_sigma"]),
                 "x-y": (lambda: eng.binop(S, vs[0], vs[1]), vs[0].attrs["_sigma"] - vs[1].attrs["_sigma"]),
                 "x-x": (lambda: eng.binop(S, vs[0], vs[0]), z3.IntVal(0)),
                 "x+x": (lambda: eng.binop(A, vs[0], vs[0]), 2 * vs[0].attrs["_sigma"]), "x+y": (lambda: eng.binop(A, vs[0], vs[1]), vs[0].attrs["_sigma"] + vs[1].attrs["_sigma"]),
                 "p+x": (lambda: eng.binop(A, p, vs[0]), pv + vs[0].attrs["_sigma"]), "x+x+x": (lambda: eng.binop(A, eng.binop(A, vs[0], vs[0]), vs[0]), 3 * vs[0].attrs["_sigma"]),
                 "x-p": (lambda: eng.binop(S, vs[0], p), vs[0].attrs["_sigma"] - pv), "-x": (lambda: eng.call(eng.getattr(vs[0], "__neg__"), [], {}), -vs[0].attrs["_sigma"]),
                 "n*x": (lambda: eng.binop(M, n, vs[0]), n * vs[0].attrs["_sigma"]), "x+p": (lambda: eng.binop(A, vs[0], p), vs[0].attrs["_sigma"] + pv),
                 "n-x": (lambda: eng.binop(S, n, vs[0]), n - vs[0].attrs["_sigma"])}
        f, want = table[which]
        eng.I["want"] = want
        return f()

    def post(eng, o):
        eng.prove("no-exception", o[0] == "return")
        if o[0] != "return":
            return
        eng.prove("view-preserved", poly_value(eng, o[1]) == eng.I["want"])
        rep_inv(eng, o[1])
        if which == "x-x":
            r = o[1]
            eng.prove("a-cancelled-dependency-leaves-no-variable(base cancels in end - start)", isinstance(r, Obj) and r.attrs["coeffs"] == {})
    r = verify(eng, name, run, post, func="deferred.LinearPolynomial / BaseDeferred arithmetic")
    for o_ in r["obligations"]:
        o_["cfg"] = dict(kind="poly-scalar", which=which, shape=list(shape), settled_first=settled_first)
    return r


def replay_promise_pending(tree):
    from pyvc import driver
    code = """
from pdpy11.deferred import Deferred, Promise, wait
log = []
p = Promise[int]("LA")
d = Deferred(int, lambda: log.append(1) or 1234)
p.settle(d)
w1 = p.wait()
n1 = len(log)
w = wait(p)
result = dict(one_step_returns_the_pending_value=(w1 is d), inner_body_runs_during_one_step=n1, full=w, ok=(w1 is d and n1 == 0 and w == 1234 and len(log) == 1))
"""
    jobs = [dict(kind="py", code=code)]
    r = driver.native(jobs, tree)[0]
    r = r.get("result") or r
    # and the user-visible consequence: a cancelling link expression at offset 0
    progs = ["start: .link 2000 + end - start\n.word 1\nend: .word 2\n", "start: . = 2000 + end - start\n.word 1\nend: .word 2\n"]
    res = driver.native([{"kind": "asm", "sources": [s_]} for s_ in progs], tree)
    obs = [[x["status"], x.get("base"), [d_[1] for d_ in x.get("diags", [])][:1]] for x in res]
    return dict(jobs=jobs, observed=dict(promise=r, link_programs=obs), reproduced=(isinstance(r, dict) and r.get("ok") is False) or any(x[0] != "ok" or x[1] != 0o2002 for x in obs))


def replay_poly_scalar(cfg, tree, witness=None):
    """the same expression on the real deferred.py with concrete coefficients and values, evaluated after the variables are settled; the scalar n
    takes the witness's value and 0, 1, -1, 5"""
    from pyvc import driver
    wn = str((witness or {}).get("n", 5))
    ns = sorted(set([int(wn) if wn.lstrip("-").isdigit() else 5, 5, 0, 1, -1]))
    code = """
from pdpy11.deferred import Promise, LinearPolynomial, wait
which, shape = %r, %r
settled_first = %r
sig = [7, 11, 13]
results = []
for n in %r:
    xs = [Promise[int]("x%%d" %% i) for i in range(3)]
    p = LinearPolynomial[int]({xs[i]: 2 + i for i in shape}, 3)
    pv = 3 + sum((2 + i) * sig[i] for i in shape)
    x, y = xs[0], xs[1]
    table = {"p+n": (lambda: p + n, pv + n), "n+p": (lambda: n + p, n + pv), "p-n": (lambda: p - n, pv - n), "n-p": (lambda: n - p, n - pv), "p*n": (lambda: p * n, pv * n),
             "n*p": (lambda: n * p, n * pv), "-p": (lambda: -p, -pv), "x+n": (lambda: x + n, sig[0] + n), "n+x": (lambda: n + x, n + sig[0]), "x-y": (lambda: x - y, sig[0] - sig[1]),
             "x-x": (lambda: x - x, 0), "-x": (lambda: -x, -sig[0]), "n*x": (lambda: n * x, n * sig[0]), "x+p": (lambda: x + p, sig[0] + pv), "n-x": (lambda: n - x, n - sig[0]),
             "x+x": (lambda: x + x, 2 * sig[0]), "x+y": (lambda: x + y, sig[0] + sig[1]), "p+x": (lambda: p + x, pv + sig[0]), "x+x+x": (lambda: x + x + x, 3 * sig[0]),
             "x-p": (lambda: x - p, sig[0] - pv)}
    f, want = table[which]
    if settled_first:
        for i in shape: xs[i].settle(sig[i])
    r = f()
    for v, s_ in zip(xs, sig):
        if not v.settled: v.settle(s_)
    got = wait(r)
    results.append(dict(n=n, want=want, got=got, ok=(got == want)))
bad = [r_ for r_ in results if not r_["ok"]]
result = dict(failing=bad[:3], ok=not bad)
""" % (cfg["which"], list(cfg["shape"]), bool(cfg.get("settled_first")), ns)
    jobs = [dict(kind="py", code=code)]
    r = driver.native(jobs, tree)[0]
    r = r.get("result") or r
    return dict(jobs=jobs, observed=r, reproduced=isinstance(r, dict) and r.get("ok") is False)


def unit_poly_wait(eng, shape, settled):
    """LinearPolynomial._wait: awaits exactly the variables with a non-zero coefficient; returns V(p)(final values); a variable that is not
    yet settled makes it raise NotReadyError (inside try_compute) - never a wrong value"""
    name = "LinearPolynomial._wait[%s,settled=%s]" % (shape, settled)

    def run(eng):
        real(eng)
        vs = [poly_var(eng, "x%d" % i)[0] for i in range(3)]
        for i, v in enumerate(vs):
            if i in settled:
                eng.call(eng.getattr(v, "settle"), [v.attrs["_sigma"]], {})
        p = mk_poly(eng, [vs[i] for i in shape], "p")
        eng.I.update(pv=poly_value(eng, p), p=p)
        tc = eng.resolve_global(eng.load_module("deferred"), "try_compute")
        eng.call(eng.getattr(tc, "__enter__"), [], {})
        try:
            return eng.call(eng.getattr(p, "wait"), [], {})
        finally:
            eng.call(eng.getattr(tc, "__exit__"), [None, None, None], {})

    def post(eng, o):
        allset = all(i in settled for i in shape)
        if allset:
            eng.prove("all-variables-known:wait-returns-the-polynomial's-value", z3.And(o[0] == "return", o[1] == eng.I["pv"]) if o[0] == "return" else False)
        else:
            eng.prove("an-unknown-variable-with-non-zero-coefficient:not-ready(never a wrong value)", o[0] == "raise" and o[1].cls == "NotReadyError")
        eng.prove("module-state-restored", module_state(eng) == (0, 0))
    return verify(eng, name, run, post, func="deferred.LinearPolynomial._wait")


NESTED_SHAPES = {
    # name: (variables of q1, variables of q2, direct promise keys of p)   - d1, d2 are Deferreds whose bodies yield the polynomials q1, q2
    "diamond": ((0,), (0,), ()),            # c = a - b with a, b both over x  (the coefficients of x must ADD UP)
    "diamond+direct": ((0, 1), (0,), (0,)),
    "disjoint": ((0,), (1,), ()),
    "chain": ((0, 1), (), (2,)),
    "constant-body": ((), (), (0,)),
}


def unit_poly_wait_nested(eng, shape, settled):
    """LinearPolynomial._wait on keys that are Deferreds whose value is itself a polynomial (symbols defined through other forward symbols):
    the re-simplification must preserve the view - coefficients of a variable reached along two routes add up - and the result must keep the
    representation invariant; with every variable known the value is V(p)(final)."""
    name = "LinearPolynomial._wait[nested:%s,settled=%s]" % (shape, settled)
    q1v, q2v, direct = NESTED_SHAPES[shape]

    def run(eng):
        real(eng)
        vs = [poly_var(eng, "x%d" % i)[0] for i in range(3)]
        ds = []
        for j, qv in enumerate((q1v, q2v)):
            q = mk_poly(eng, [vs[i] for i in qv], "q%d" % (j + 1))
            d = new_deferred(eng, INT, counter_fn(eng, q, []))
            d.attrs["_sigma"] = poly_value(eng, q)
            ds.append(d)
        p = mk_poly(eng, ds + [vs[i] for i in direct], "p")
        eng.I.update(pv=poly_value(eng, p), p=p)
        if settled:
            for v in vs:
                eng.call(eng.getattr(v, "settle"), [v.attrs["_sigma"]], {})
        tc = eng.resolve_global(eng.load_module("deferred"), "try_compute")
        eng.call(eng.getattr(tc, "__enter__"), [], {})
        try:
            return eng.call(eng.getattr(p, "wait"), [], {})
        finally:
            eng.call(eng.getattr(tc, "__exit__"), [None, None, None], {})

    def post(eng, o):
        p = eng.I["p"]
        used = set(q1v) | set(q2v) | set(direct)
        if settled or not used:
            eng.prove("all-variables-known:wait-returns-the-polynomial's-value(coefficients reached along two routes add up)",
                      z3.And(o[0] == "return", o[1] == eng.I["pv"]) if o[0] == "return" else False)
        else:
            # a variable may cancel (coefficient sum 0): then the value is known and returning it is right; otherwise not-ready
            if o[0] == "return":
                eng.prove("returned-early-only-with-the-right-value", o[1] == eng.I["pv"])
            else:
                eng.prove("an-unknown-variable:not-ready(never a wrong value)", o[0] == "raise" and o[1].cls == "NotReadyError")
            eng.prove("re-simplification-preserves-the-view:V(p)-unchanged-for-every-valuation", poly_value(eng, p) == eng.I["pv"])
            rep_inv(eng, p, "simplified-polynomial")
        eng.prove("module-state-restored", module_state(eng) == (0, 0))
    r = verify(eng, name, run, post, func="deferred.LinearPolynomial._wait")
    for o_ in r["obligations"]:
        o_["cfg"] = dict(kind="poly-nested", shape=shape, settled=settled)
    return r


SELFREF_SHAPES = {
    # name: (does the alias body q mention v, is v itself a direct key of p)
    "alias-and-self": (True, True),      # .link K + x - s   with x = e defined before e:  (v = the base being computed)
    "alias-only": (True, False),
    "self-only": (False, True),
    # the alias cannot be evaluated speculatively (its body calls not_ready(): a symbol exported by ANOTHER file is committed to only when
    # everything is known), and an alias of such an alias: '.link K + x - s' / 'x = e' with 'e::' in a later file
    "late-alias-and-self": (True, True),
    "late-alias-chain-and-self": (True, True),
    "late-alias-only": (True, False),
}


def unit_poly_wait_selfref(eng, shape):
    """the link-base situation: a Deferred v whose own body waits for a polynomial p that mentions v - directly and/or through a forward alias d
    whose value is a polynomial over v.  C12: when the dependence on v cancels the value is the arithmetic value of the expression; when it
    genuinely remains, DeferredCycle (reported by the caller as recursive-definition) - never some arbitrary value."""
    name = "LinearPolynomial._wait[self-reference:%s]" % shape
    q_has_v, direct = SELFREF_SHAPES[shape]

    def run(eng):
        real(eng)
        cell = {}
        v = new_deferred(eng, INT, Builtin("base-expression-body", lambda e: e.call(dcls(e, "wait"), [cell["p"]], {})))
        sig = int_input(eng, "sigma_v")
        v.attrs["_sigma"] = sig
        other = poly_var(eng, "x1")[0]
        eng.call(eng.getattr(other, "settle"), [other.attrs["_sigma"]], {})
        q = mk_poly(eng, ([v] if q_has_v else []) + [other], "q")
        d = new_deferred(eng, INT, counter_fn(eng, q, [], raises="not_ready" if shape.startswith("late") else None))
        d.attrs["_sigma"] = poly_value(eng, q)
        if "chain" in shape:
            d0 = d
            d = new_deferred(eng, INT, counter_fn(eng, d0, [], raises="not_ready"))
            d.attrs["_sigma"] = d0.attrs["_sigma"]
        p = mk_poly(eng, [d] + ([v] if direct else []), "p")
        cell["p"] = p
        a = q.attrs["coeffs"].get(v, 0)
        net = p.attrs["coeffs"][d] * a + (p.attrs["coeffs"].get(v, 0))
        # the value with the v-terms removed (what the expression equals when they cancel)
        rest = poly_value(eng, p) - net * sig
        eng.I.update(net=net, rest=rest)
        return eng.call(eng.getattr(v, "wait"), [], {})

    def post(eng, o):
        net, rest = eng.I["net"], eng.I["rest"]
        cancels = eng.branch(net == 0) if is_sym(net) else net == 0
        if cancels:
            eng.prove("self-dependence-cancels:the-value-is-the-arithmetic-value-of-the-expression(no error)", z3.And(o[0] == "return", o[1] == rest) if o[0] == "return" else False)
        else:
            eng.prove("genuine-self-dependence:DeferredCycle(reported as recursive-definition)-never-a-value", o[0] == "raise" and o[1].cls == "DeferredCycle")
        eng.prove("module-state-restored", module_state(eng) == (0, 0))
    r = verify(eng, name, run, post, func="deferred.LinearPolynomial._wait")
    for o_ in r["obligations"]:
        o_["cfg"] = dict(kind="poly-selfref", shape=shape)
    return r


def replay_poly_selfref(cfg, witness, tree):
    from pyvc import driver
    q_has_v, direct = SELFREF_SHAPES[cfg["shape"]]
    w = {k: int(v) for k, v in (witness or {}).items() if isinstance(v, (int, str)) and str(v).lstrip("-").isdigit()}
    code = """
from pdpy11.deferred import Deferred, Promise, LinearPolynomial, wait, DeferredCycle
w = %r
g = lambda k, d=1: w.get(k, d)
cell = {}
v = Deferred(int, lambda: wait(cell["p"]))
other = Promise[int]("x1"); other.settle(g("sigma_x1", 5))
qc = {}
keys = ([v] if %r else []) + [other]
for n, k in enumerate(keys):
    qc[k] = g("q_c%%d" %% n)
q = LinearPolynomial[int](qc, g("q_k", 0))
from pdpy11.deferred import not_ready
late, chain = %r, %r
def body():
    if late:
        not_ready()
    return q
d = Deferred(int, body)
if chain:
    d0 = d
    def body2():
        not_ready()
        return d0
    d = Deferred(int, body2)
pk = [d] + ([v] if %r else [])
p = LinearPolynomial[int]({k: g("p_c%%d" %% n) for n, k in enumerate(pk)}, g("p_k", 0))
cell["p"] = p
a = qc.get(v, 0)
net = g("p_c0") * a + (g("p_c1") if %r else 0)
rest = g("p_k", 0) + g("p_c0") * (g("q_k", 0) + qc[other] * g("sigma_x1", 5))
try:
    got = ("return", v.wait())
except DeferredCycle:
    got = ("DeferredCycle", None)
want = ("return", rest) if net == 0 else ("DeferredCycle", None)
result = dict(net_coefficient_of_v=net, want=want, got=got, ok=(tuple(got) == tuple(want)))
""" % (w, q_has_v, cfg["shape"].startswith("late"), "chain" in cfg["shape"], direct, direct)
    jobs = [dict(kind="py", code=code)]
    res = driver.native(jobs, tree)
    r = res[0].get("result") or res[0]
    return dict(jobs=jobs, observed=r, reproduced=isinstance(r, dict) and r.get("ok") is False)


def replay_poly_nested(cfg, witness, tree):
    """the same call on the real deferred.py with the witness's coefficients: p.wait() speculatively, then settle and wait for real"""
    from pyvc import driver
    q1v, q2v, direct = NESTED_SHAPES[cfg["shape"]]
    w = {k: int(v) for k, v in (witness or {}).items() if isinstance(v, (int, str)) and str(v).lstrip("-").isdigit()}
    code = """
from pdpy11.deferred import Deferred, Promise, LinearPolynomial, try_compute, wait, NotReadyError
w = %r
g = lambda k, d=1: w.get(k, d)
xs = [Promise[int]("x%%d" %% i) for i in range(3)]
sig = [g("sigma_x%%d" %% i, 7 + i) for i in range(3)]
qs, ds = [], []
for j, qv in enumerate(%r):
    q = LinearPolynomial[int]({xs[i]: g("q%%d_c%%d" %% (j + 1, n)) for n, i in enumerate(qv)}, g("q%%d_k" %% (j + 1), 0))
    qs.append(q)
    d = Deferred(int, (lambda q=q: q)); ds.append(d)
keys = ds + [xs[i] for i in %r]
p = LinearPolynomial[int]({k: g("p_c%%d" %% n) for n, k in enumerate(keys)}, g("p_k", 0))
def val(q):
    return q.constant_term + sum(c * sig[xs.index(k)] for k, c in q.coeffs.items())
want = g("p_k", 0) + sum(g("p_c%%d" %% n) * (val(qs[n]) if n < 2 else sig[xs.index(k)]) for n, k in enumerate(keys))
early = None
if not %r:
    with try_compute:
        early = p.wait()
for x, s in zip(xs, sig):
    if not x.settled:
        x.settle(s)
got = wait(p)
result = dict(want=want, got=got, early=repr(early), ok=(got == want and (early is None or early == want)))
""" % (w, (q1v, q2v), direct, bool(cfg["settled"]))
    jobs = [dict(kind="py", code=code)]
    res = driver.native(jobs, tree)
    r = res[0].get("result") or res[0]
    return dict(jobs=jobs, observed=r, reproduced=isinstance(r, dict) and r.get("ok") is False)


def unit_poly_mul_deferred(eng, which, shape):
    """a polynomial times a value that is still pending (p * y, y * p, y * z): the product is awaited later; once every variable is known it is
    V(p) * sigma(y) - the polynomial's variables are not dropped, whichever factor is known first"""
    name = "LinearPolynomial[%s,%s]" % (which, shape)

    def run(eng):
        real(eng)
        vs = [poly_var(eng, "x%d" % i)[0] for i in range(3)]
        y, sy = poly_var(eng, "y")
        p = mk_poly(eng, [vs[i] for i in shape], "p")
        pv = poly_value(eng, p)
        M = ast.Mult()
        if which == "p*y":
            r, want = eng.binop(M, p, y), pv * sy
        elif which == "y*p":
            r, want = eng.binop(M, y, p), sy * pv
        else:
            r, want = eng.binop(M, y, vs[0]), sy * vs[0].attrs["_sigma"]
        order = pick(eng, ["poly-variables-first", "y-first"], "settle_order")
        todo = ([y] + vs) if order == "y-first" else (vs + [y])
        for v in todo:
            eng.call(eng.getattr(v, "settle"), [v.attrs["_sigma"]], {})
        eng.I["want"] = want
        return eng.call(dcls(eng, "wait"), [r], {})

    def post(eng, o):
        eng.prove("no-exception", o[0] == "return")
        if o[0] == "return":
            eng.prove("product-of-the-final-values:V(p)*sigma(y)(no variable of the polynomial is dropped)", o[1] == eng.I["want"])
        eng.prove("module-state-restored", module_state(eng) == (0, 0))
    r = verify(eng, name, run, post, func="deferred.LinearPolynomial.__mul__ / BaseDeferred.__mul__")
    for o_ in r["obligations"]:
        o_["cfg"] = dict(kind="poly-mul", which=which, shape=list(shape))
    return r


def replay_poly_mul(cfg, witness, tree):
    from pyvc import driver
    w = {k: int(v) for k, v in (witness or {}).items() if isinstance(v, (int, str)) and str(v).lstrip("-").isdigit()}
    code = """
from pdpy11.deferred import Promise, LinearPolynomial, wait
w = %r
g = lambda k, d=2: w.get(k, d)
xs = [Promise[int]("x%%d" %% i) for i in range(3)]
y = Promise[int]("y")
shape = %r
p = LinearPolynomial[int]({xs[i]: (g("p_c%%d" %% n) or 1) for n, i in enumerate(shape)}, g("p_k", 1))
sig = [g("sigma_x%%d" %% i, 3 + i) for i in range(3)]
sy = g("sigma_y", 5)
pv = p.constant_term + sum(c * sig[xs.index(k)] for k, c in p.coeffs.items())
which = %r
r = p * y if which == "p*y" else y * p if which == "y*p" else y * xs[0]
want = pv * sy if which != "y*z" else sy * sig[0]
for x, s in zip(xs, sig): x.settle(s)
y.settle(sy)
got = wait(r)
result = dict(want=want, got=got, ok=(got == want))
""" % (w, list(cfg["shape"]), cfg["which"])
    jobs = [dict(kind="py", code=code)]
    r = driver.native(jobs, tree)[0]
    r = r.get("result") or r
    return dict(jobs=jobs, observed=r, reproduced=isinstance(r, dict) and r.get("ok") is False)


def unit_wait_chain(eng):
    """deferred.wait over a chain of pending values of ARBITRARY length n (a definition chain: each value, once awaited, yields the next
    pending value): the loop of wait() follows the whole chain and returns the final value - for every n, so also for the chains of depth
    300 the property names (loop contract: 'the current value is link i of the chain, 0 <= i <= n')"""
    from pyvc.engine import LoopSpec

    def run(eng):
        real(eng)
        n = int_input(eng, "n")
        eng.assume(n >= 0)
        v = int_input(eng, "final")
        base = dcls(eng, "BaseDeferred")

        def link(i):
            o = Obj(base, dict(typ=INT, is_awaiting=False, _idx=i), name="link")
            o.attrs["wait"] = Builtin("link.wait", lambda e, _i=i: v if e.branch(_i + 1 >= n) else link(_i + 1))
            return o
        eng.I.update(n=n, v=v)

        def inv(eng_, env):
            d = env.lookup("deferred")
            if isinstance(d, Obj) and "_idx" in d.attrs:
                return [("the-current-value-is-a-link-of-the-chain", z3.And(d.attrs["_idx"] >= 0, d.attrs["_idx"] < n))]
            return [("or-the-final-value", d is v)]

        def havoc(eng_, env):
            if eng_.branch(eng_.fresh_bool("still_in_the_chain")):
                i = eng_.fresh_int("i")
                env.assign("deferred", link(i))
            else:
                env.assign("deferred", v)
        eng.loop_specs[("wait", 0)] = LoopSpec(inv, havoc)
        start = link(z3.IntVal(0)) if eng.branch(n >= 1) else v
        return eng.call(dcls(eng, "wait"), [start], {})

    def post(eng, o):
        eng.prove("no-exception-however-long-the-chain(no depth limit mistaken for a cycle)", o[0] == "return")
        if o[0] == "return":
            eng.prove("the-final-value-of-the-chain", o[1] is eng.I["v"])
    r = verify(eng, "wait[chain of arbitrary length]", run, post, func="deferred.wait")
    for o_ in r["obligations"]:
        o_["cfg"] = dict(kind="wait-chain")
    return r


def replay_wait_chain(tree):
    from pyvc import driver
    code = """
from pdpy11.deferred import Deferred, wait
bad = []
for n in (1, 50, 99, 100, 101, 150, 200, 299, 300, 400):
    cur = 7
    for k in range(n):
        cur = Deferred(int, (lambda c=cur: c))
    try:
        got = wait(cur)
    except Exception as e:
        got = "raised " + type(e).__name__
    if got != 7: bad.append([n, got])
result = dict(bad=bad, ok=not bad)
"""
    progs = ["".join("a%d = a%d + 1\n" % (i, i + 1) for i in range(d_)) + "a%d = 5\n.word a0\n" % d_ for d_ in (150, 250, 300)]
    jobs = [dict(kind="py", code=code)] + [{"kind": "asm", "sources": [p_]} for p_ in progs]
    res = driver.native(jobs, tree, timeout=300)
    r = res[0].get("result") or res[0]
    obs = [[x["status"], x.get("code_hex")] for x in res[1:]]
    return dict(jobs=jobs[:1], observed=dict(chains=r, definition_chains_of_depth_150_250_300=obs), reproduced=(isinstance(r, dict) and r.get("ok") is False) or any(x[0] != "ok" for x in obs))


def unit_promise(eng):
    out = []

    def run(eng):
        real(eng)
        p, sig = poly_var(eng, "LA")
        e0 = eng.call(eng.getattr(p, "get_current_best_estimate"), [], {})
        eng.call(eng.getattr(p, "settle"), [sig], {})
        e1 = eng.call(eng.getattr(p, "get_current_best_estimate"), [], {})
        w = eng.call(dcls(eng, "wait"), [p], {})
        eng.I.update(p=p, sig=sig)
        return e0, e1, w

    def post(eng, o):
        eng.prove("no-exception", o[0] == "return")
        if o[0] == "return":
            e0, e1, w = o[1]
            eng.prove("unsettled-estimate-is-the-promise-itself-settled-estimate-and-wait-are-the-value", e0 is eng.I["p"] and e1 is eng.I["sig"] and w is eng.I["sig"])
    out.append(verify(eng, "Promise[settle,wait]", run, post, func="deferred.Promise"))

    def run2(eng):
        real(eng)
        p, sig = poly_var(eng, "LA")
        eng.call(eng.getattr(p, "settle"), [sig], {})
        return eng.call(eng.getattr(p, "settle"), [sig + 1], {})
    out.append(verify(eng, "Promise[settle twice]", run2, lambda eng, o: eng.prove("single-assignment:second-settle-violates-the-assert(call-site obligation)",
                      o[0] == "raise" and o[1].cls == "AssertionError"), func="deferred.Promise.settle"))

    def run3(eng):
        real(eng)
        p, sig = poly_var(eng, "LA")
        tc = eng.resolve_global(eng.load_module("deferred"), "try_compute")
        eng.call(eng.getattr(tc, "__enter__"), [], {})
        try:
            return eng.call(dcls(eng, "wait"), [p], {})
        finally:
            eng.call(eng.getattr(tc, "__exit__"), [None, None, None], {})
    def run4(eng):
        real(eng)
        p, sig = poly_var(eng, "LA")
        log = []
        d = new_deferred(eng, INT, counter_fn(eng, sig, log))
        eng.call(eng.getattr(p, "settle"), [d], {})
        e1 = eng.call(eng.getattr(p, "get_current_best_estimate"), [], {})
        w1 = eng.call(eng.getattr(p, "wait"), [], {})
        n1 = len(log)
        w = eng.call(dcls(eng, "wait"), [p], {})
        eng.I.update(d=d, sig=sig, log=log)
        return e1, w1, n1, w

    def post4(eng, o):
        eng.prove("no-exception", o[0] == "return")
        if o[0] == "return":
            e1, w1, n1, w = o[1]
            eng.prove("a-promise-settled-with-a-pending-value(the link base expression)-hands-that-value-over-AS-IT-IS:one-step-of-wait-does-not-evaluate-it",
                      e1 is eng.I["d"] and w1 is eng.I["d"] and n1 == 0)
            eng.prove("the-full-wait-yields-the-final-value-evaluating-the-inner-body-once", w is eng.I["sig"] and len(eng.I["log"]) == 1)
    r4 = verify(eng, "Promise[settled with a pending value]", run4, post4, func="deferred.Promise._wait")
    for o_ in r4["obligations"]:
        o_["cfg"] = dict(kind="promise-pending")
    out.append(r4)
    out.append(verify(eng, "Promise[wait unsettled]", run3, lambda eng, o: eng.prove("waiting-on-an-unsettled-promise-is-not-ready(speculative)", o[0] == "raise" and o[1].cls == "NotReadyError"),
                      func="deferred.Promise._wait"))
    return out


def all_units():
    us = [("wait", "unit_wait", {}), ("wait-chain", "unit_wait_chain", {}), ("not_ready", "unit_not_ready", {}), ("trycompute", "unit_trycompute", {}), ("awaiting", "unit_awaiting", {}),
          ("promise", "unit_promise", {}), ("concat[empty]", "unit_empty_add", {})]
    for mode in ("value", "not_ready", "RecoverableError", "DeferredCycle"):
        for sized in (False, True):
            us.append(("construct[%s,%s]" % (mode, sized), "unit_construct", dict(mode=mode, sized=sized)))
    for k in ("S", "D", "DS"):
        us.append(("length[%s]" % k, "unit_length", dict(kind=k)))
    for n in (2, 3):
        for kinds in itertools.product(("b", "S", "D"), repeat=n):
            us.append(("concat[%s]" % "".join(kinds), "unit_concat", dict(kinds=kinds)))
    for kinds in itertools.product(("b", "S", "D"), repeat=3):
        us.append(("concat[%s,right]" % "".join(kinds), "unit_concat", dict(kinds=kinds, assoc="right")))
        us.append(("concat[%s,pairs]" % "".join(kinds), "unit_concat", dict(kinds=kinds, assoc="pairs")))
    for kinds in (("b", "N"), ("N", "b"), ("S", "N"), ("N", "N"), ("b", "N", "b"), ("b", "S", "N"), ("S", "N", "S"), ("N", "b", "N"),
                  ("N", "A"), ("S", "A"), ("A", "N"), ("N", "A", "b"), ("S", "A", "N"), ("N", "A", "A")):
        for assoc in ("left", "right"):
            us.append(("concat[%s,%s]" % ("".join(kinds), assoc), "unit_concat", dict(kinds=kinds, assoc=assoc)))
    for kinds in (("b", "S", "b", "S"), ("S", "b", "b", "D"), ("b", "b", "S", "S"), ("S", "S", "b", "b"), ("b", "D", "b", "D")):
        for assoc in ("right", "pairs"):
            us.append(("concat[%s,%s]" % ("".join(kinds), assoc), "unit_concat", dict(kinds=kinds, assoc=assoc)))
    for opn in ("add", "sub"):
        for sh in POLY_SHAPES:
            us.append(("poly[%s,%s]" % (opn, sh), "unit_poly_binop", dict(opname=opn, shape=sh)))
    for w in ("p+n", "n+p", "p-n", "n-p", "p*n", "n*p", "-p", "x+n", "n+x", "x-y", "x-x", "-x", "n*x", "x+p", "n-x", "x+x", "x+y", "p+x", "x+x+x", "x-p"):
        for sh in ((), (0,), (0, 1)):
            us.append(("poly[%s,%s]" % (w, sh), "unit_poly_scalar", dict(which=w, shape=sh)))
    for w in ("p+n", "n+p", "p-n", "n-p", "p*n", "n*p", "-p", "x-p", "x+p", "p+x"):
        for sh in ((0,), (0, 1), (1, 2)):
            us.append(("poly[%s,%s,known]" % (w, sh), "unit_poly_scalar", dict(which=w, shape=sh, settled_first=True)))
    for sh, st in (((), ()), ((0,), (0,)), ((0,), ()), ((0, 1), (0, 1)), ((0, 1), (0,)), ((0,), (1,))):
        us.append(("poly-wait[%s,%s]" % (sh, st), "unit_poly_wait", dict(shape=sh, settled=st)))
    for sh in NESTED_SHAPES:
        for st in (False, True):
            us.append(("poly-wait-nested[%s,%s]" % (sh, st), "unit_poly_wait_nested", dict(shape=sh, settled=st)))
    for sh in SELFREF_SHAPES:
        us.append(("poly-wait-selfref[%s]" % sh, "unit_poly_wait_selfref", dict(shape=sh)))
    for w_ in ("p*y", "y*p", "y*z"):
        for sh in ((), (0,), (0, 1)):
            us.append(("poly[%s,%s]" % (w_, sh), "unit_poly_mul_deferred", dict(which=w_, shape=sh)))
    return us
