"""C12 - The link base is what the source says, or an error.

vc: Compiler.set_link_address (single assignment, address-conflict, recursive-definition, 16-bit value); '.link' hands it the raw expression;
    compile_and_link_files default 0o1000 iff nothing set the base; compile_include default = the include address;
    compile_block '. = X': with the base set -> zero fill up to X (mod 2^16) or an error, no late binding; before any base -> sets the base;
    Promise single assignment; LinearPolynomial: a dependence on the base that cancels leaves no variable, one that does not makes waiting
    not-ready / cyclic (never a wrong value)
rac: link expressions K + sum k_i*(L_i - L_j), through intermediate symbols, assembled by the real assembler (testing, separate)
"""
import itertools
import os
import z3
from contracts.common import *  # noqa
from contracts import structure
from contracts.structure import *  # noqa
from contracts import common, deferred_c, compiler_c, meta_c
from contracts.deferred_c import *  # noqa
from contracts.compiler_c import *  # noqa
from contracts.meta_c import run_meta
from pyvc import driver

ID = "C12"
EXPLANATION = "base value, skip targets and addresses symbolic over Z; statement lists of arbitrary length (loop contract of compile_block)"
TRUSTED = ["pyvc engine semantics (A1)", "z3 (A7)", "callee contract get_as_int (C06)"]
ASSUMPTIONS = ["a non-leading '. = X' with no prior .link sets the link base (the code's branch condition; the property speaks of a leading '. =') - recorded observation",
               "comparison with the reference assembler is outside (none installed)"]


def unit_link_directive(eng):
    def run(eng):
        eng.I = {}
        comp = compiler_obj(eng, output_charset="CHARSET")
        calls = []
        comp.attrs["set_link_address"] = Builtin("set_link_address(contract)", lambda e, address, state: calls.append((address, state)))
        tok = value_token(eng, int_input(eng, "v"), "address")
        eng.I.update(calls=calls, tok=tok)
        return run_meta(eng, ".link", [tok], comp=comp)

    def post(eng, o):
        eng.prove("'.link e' hands the unevaluated expression and the statement's state to set_link_address and emits nothing",
                  o[0] == "return" and len(eng.I["calls"]) == 1 and eng.I["calls"][0][0] is eng.I["tok"] and eng.I["calls"][0][1] is eng.I["state"] and slen(zbytes(o[1])) == 0)
    return verify(eng, ".link", run, post, func="metacommands.link")


def unit_rac(eng):
    progs = [
        (".link 2000\na: nop\n", 0o2000), ("a: nop\n", 0o1000), (". = 3000\na: nop\n", 0o3000),
        (".link 1000 + e - s\ns: nop\nnop\ne: nop\n", 0o1004), (".link k\nk = 400 + <e - s> * 2\ns: .blkb 10\ne: nop\n", 0o420),
        (".link <e - s> _ 3\ns: .blkw 4\ne: nop\n", 0o100), (".link 4000 + <e-s>/2\ns: .blkb 20\ne:\n", 0o4010),
        # via intermediate symbols defined BEFORE the labels (forward aliases), alone and mixed with direct labels (D22), coefficients other than 1
        ("x = e\ny = s\n.link 1000 + x - y\nnop\ns: nop\nnop\ne: nop\n", 0o1004), ("x = e\n.link 1000 + x - s\nnop\ns: nop\nnop\ne: nop\n", 0o1004),
        ("x = e\n.link 1000 + s - x\nnop\ns: nop\nnop\ne: nop\n", 0o774), ("x = e\ny = s\n.link 1000 + 3*x - 3*y\nnop\ns: nop\nnop\ne: nop\n", 0o1014),
        ("x = e\ny = s + 2\n.link 2000 - x + y\nnop\ns: nop\nnop\ne: nop\n", 0o1776),
        # the directive at offset 0 behind a label at offset 0 (the label's address is the bare base promise)
        ("start: .link 2000 + end - start\n.word 1\nend: .word 2\n", 0o2002), ("start: . = 2000 + 2*<end - start>\n.word 1\nend: .word 2\n", 0o2004),
        # an alias that applies '/' or '>>' to a label difference, defined above every label, one label before the directive and one after it
        ("half = (fin - beg) / 2\nbeg:\n.link 2000 + half\n.word 1, 2\nfin:\n", 0o2002), ("q = <fin - beg> >> 1\nbeg:\n.link 3000 + 3*q\n.word 1, 2\nfin:\n", 0o3006),
        ("h = (fin - beg) / 2\nbeg:\n. = 2000 + h\n.word 1, 2, 3, 4\nfin:\n", 0o2004),
        # ... and a statement that uses the alias (tried out while it is compiled, before the base is asked for in earnest)
        ("x = (end - start)/2\nstart:\n.link 1000 + x\nnop\nnop\nend:\n.word x\n", 0o1002), ("x = <end - start> >> 1\nstart:\n.link 3000 + x\n.byte x, 0\nnop\nend:\nmov #x, r0\n", 0o3002),
        # division and shifts of NEGATIVE differences (the quotient is the floor; shifts of negative values are arithmetic)
        ("la: nop\nnop\nnop\nnop\nlb:\n.link 1000 + 2*<<la - lb>/3>\n", 0o772), ("q = <la - lb>/3\nla: .blkb 10\nlb:\n.link 2000 + q\n", 0o1775), ("la: .blkb 7\nlb:\n.link 1000 + <<la - lb> >> 1>\n", 0o774),
        ("la: .blkb 7\nlb:\n.link 1000 + <<la - lb> % 4>\n", 0o1001),
        # a label name shared with an EARLIER file that exports it: the file's own label, defined below the directive, takes precedence
        (("tail:: nop\nnop\nnop\n", "head: nop\nnop\n.link 2000 + tail - head\nnop\ntail: nop\n"), 0o2006),
        (("tail:: nop\n", "head: nop\nq = tail - head\n.link 3000 + 2*q\nnop\nnop\ntail: nop\n"), 0o3014),
        # labels in other files, directly and through aliases (D50), aliases of aliases, the directive in the second file
        ((".link 2000 + e - s\ns: .word 1\n", ".word 2\ne::\n"), 0o2004), ((".link 2000 + x - s\ns: .word 1\nx = e\n", ".word 2\ne::\n"), 0o2004),
        ((".link 2000 + x - s\ns: .word 1\nx = y\ny = e\n", ".word 2\ne::\n"), 0o2004), (("x = e\n.link 2000 + x - s\ns: .word 1\n", ".word 2\ne::\n"), 0o2004),
        (("s:: .word 1\n", ".word 2\n", "x = e\n.link 3000 + 2*x - 2*s\n.word 3\ne:\n"), 0o3014), (("x == e\ns: nop\n", "nop\n.link 1000 + x - t\nt:: nop\n", "nop\ne::\n"), 0o1004),
    ]
    bad_progs = [".link 1000\nnop\n.link 1000\n", ".link 1000+e-.\nnop\n.link 1000+e-.\ne: nop\n", "x = e\n.link 1000 + x + s\nnop\ns: nop\ne: nop\n", "x = e\n.link x\nnop\ne: nop\n", ".link a\na: nop\n", ".link 100\n.link 200\nnop\n", ".link s + 2\ns: nop\n", ".link 1000\n.blkb 10\n. = 1004\nnop\n"]
    # a '. =' skip between the labels of a cancelling link expression (finding D39: reported as recursive-definition)
    D39_PROGS = [(".link 1000+b-a\na: nop\n. = .+10\nb: nop\n", 0o1012)]
    d39_active = "D39" in common.ACTIVE_FINDINGS
    if not d39_active:
        progs += D39_PROGS
    jobs = [{"kind": "asm", "sources": [p] if isinstance(p, str) else list(p)} for p, _ in progs] + [{"kind": "asm", "sources": [p]} for p in bad_progs]
    res = driver.native(jobs, driver.tree_root())
    bad = []
    for (p, base), r in zip(progs, res):
        if r["status"] != "ok" or r["base"] != base:
            bad.append((p, oct(base), r["status"], r.get("base")))
    for p, r in zip(bad_progs, res[len(progs):]):
        if r["status"] != "fail" or not any(d[0] == "E" for d in r["diags"]):
            bad.append((p, "must be an error", r["status"], r.get("base"), r.get("exc")))
    # forward skips of every size 0..64 zero-fill exactly
    jobs2 = [{"kind": "asm", "sources": [".link 1000\n.byte 1\n. = %o\n.byte 2\n" % (0o1001 + k)]} for k in range(0, 65)]
    res2 = driver.native(jobs2, driver.tree_root())
    for k, r in enumerate(res2):
        if r["status"] != "ok" or bytes.fromhex(r["code_hex"]) != b"\x01" + b"\0" * k + b"\x02":
            bad.append(("skip", k, r["status"]))
    ob = dict(label="link-expressions-defaults-conflicts-and-forward-skips-0..64-on-the-real-assembler", kind="rac", status=("known-region" if d39_active else "proved") if not bad else "failed", secs=0.0, path=[],
              witness=None, detail=str(bad[:4]), events=[], smt2=None, backend="cpython-native", unit="link-rac", func="Compiler (run-time check)",
              cases=len(jobs) + len(jobs2), cfg=dict(kind="rac"))
    return dict(unit="link-rac", func="Compiler (run-time check)", paths=len(jobs) + len(jobs2), obligations=[ob], wall=0.0)


def unit_symbol_resolve(eng, speculative, digit_name):
    """which definition a name in the link expression denotes (Symbol._resolve, contracts/symbols_c.py; shared with C03 / C04 / C11)"""
    from contracts import c03
    return c03.unit_resolve(eng, speculative=speculative, digit_name=digit_name)


def units(tier):
    us = [("rac", "unit_rac", {}), ("include-rac", "unit_include_probes", {}), (".link", "unit_link_directive", {})]
    for settled in (False, True):
        for hw in (False, True):
            for lz in (False, True):
                us.append(("set_link_address[%s,%s,%s]" % (settled, hw, lz), "unit_set_link_address", dict(settled=settled, had_where=hw, lazy=lz)))
    for lz in (False, True):
        us.append(("set_link_address[True,same-text,%s]" % lz, "unit_set_link_address", dict(settled=True, had_where="same-text", lazy=lz)))
    for n in (1, 2, 3):
        for kinds in itertools.product(("ready", "lazy"), repeat=n):
            for s in [None] + list(range(n)):
                us.append(("link[%d,%s,%s]" % (n, "".join(k[0] for k in kinds), s), "unit_link_files", dict(nfiles=n, kinds=kinds, settle_in=s)))
    for s in (False, True):
        for k in ("ready", "lazy", "raise"):
            us.append(("compile_include[%s,%s]" % (s, k), "unit_include", dict(settles=s, kind=k)))
    for bs in (False, True):
        for sk in ("promise", "poly", "lazy"):
            us.append(("compile_block[file,%s,%s]" % (bs, sk), "unit_compile_block", dict(context="file", base_settled=bs, start_kind=sk)))
    for name, fn, kw in deferred_c.all_units():
        if name.startswith("promise") or name.startswith("poly-wait") or "x-x" in name or "x-y" in name or name.startswith("poly[sub") or name.startswith("awaiting"):
            us.append((name, fn, kw))
    us += structure.expr_units()
    for sp in (False, True):
        us.append(("symbol-resolve[%s]" % sp, "unit_symbol_resolve", dict(speculative=sp, digit_name=False)))
    return us


def witness_D39(tree):
    r = driver.native([{"kind": "asm", "sources": [".link 1000+b-a\na: nop\n. = .+10\nb: nop\n"]}], tree)[0]
    return not (r["status"] == "ok" and r.get("base") == 0o1012), "'.link 1000+b-a / a: nop / . = .+10 / b: nop' -> %s %s" % (r["status"], [d[1] for d in r.get("diags", [])][:2])


def unit_include_probes(eng=None):
    """the statement's last sentence inside an INCLUDED file ('once the base is set, '. = X' moves forward zero-filling the gap', 'a second .link is an error'):
    the include probes of C02 (every label followed by '.word <itself>'), restated.  Finding D38: an included file has a link-base record of its own."""
    from contracts import c02
    r = c02.unit_include_probes(eng)
    for ob in r["obligations"]:
        ob["label"] = "in-an-included-file-too:'. = X'-after-the-base-is-set-zero-fills-and-a-second-'.link'-is-refused(labels-lie-where-their-bytes-are)"
    return r


def witness_D38(tree):
    from contracts import c02
    return c02.witness_D38(tree)


FINDING_WITNESS = {"D39": witness_D39, "D38": witness_D38}


def canary(eng):
    def run(eng):
        eng.I = {}
        return None
    return verify(eng, "canary", run, lambda eng, o: eng.prove("canary-default-base-is-0o2000", z3.IntVal(0o1000) == 0o2000), func="canary")


def replay(o, tree):
    r_ = None if o.get("_shared_replay") else structure.replay(dict(o, _shared_replay=True), tree)
    if r_ is not None and r_.get("reproduced"):
        return r_
    label = o.get("label", "")
    unit = o.get("unit", "")
    if (o.get("cfg") or {}).get("kind") == "include-rac":
        from contracts import c02
        return c02.replay(o, tree)
    if (o.get("cfg") or {}).get("kind") == "poly-nested":
        return deferred_c.replay_poly_nested(o["cfg"], o.get("witness") or {}, tree)
    if (o.get("cfg") or {}).get("kind") == "poly-selfref":
        return deferred_c.replay_poly_selfref(o["cfg"], o.get("witness") or {}, tree)
    if (o.get("cfg") or {}).get("kind") == "wait-chain":
        return deferred_c.replay_wait_chain(tree)
    if (o.get("cfg") or {}).get("kind") == "promise-pending":
        return deferred_c.replay_promise_pending(tree)
    if (o.get("cfg") or {}).get("kind") == "poly-scalar":
        return deferred_c.replay_poly_scalar(o["cfg"], tree, o.get("witness"))
    if (o.get("cfg") or {}).get("kind") == "poly-mul":
        return deferred_c.replay_poly_mul(o["cfg"], o.get("witness") or {}, tree)
    if (o.get("cfg") or {}).get("kind") in ("linkfiles", "rac"):
        # the link corpus on that tree: the failing programs are the input
        old = os.environ.get("PDPY11_SRC")
        os.environ["PDPY11_SRC"] = tree
        try:
            ob_ = unit_rac(None)["obligations"][0]
        finally:
            if old is None:
                os.environ.pop("PDPY11_SRC", None)
            else:
                os.environ["PDPY11_SRC"] = old
        if ob_["status"] == "failed":
            return dict(jobs=None, experiment="C12 link corpus (contracts/c12.py unit_rac)", observed=ob_["detail"][:700], reproduced=True)
        if (o.get("cfg") or {}).get("kind") == "linkfiles":
            from contracts import c02
            return c02.replay(o, tree)
        return None
    if "late binding" in label:
        from contracts import c02
        return c02.replay(o, tree)
    probes = [("nop\n", 0o1000), (".link 2000\nnop\n", 0o2000), (".link 100\n.link 200\nnop\n", None), (".link 1000\nnop\n.link 1000\n", None), (".link 1000+e-.\nnop\n.link 1000+e-.\ne: nop\n", None), (".link a\na: nop\n", None), (".link 1000\n.byte 1\n. = 1005\n.byte 2\n", 0o1000),
              (".link 1000\n.blkb 10\n. = 1004\nnop\n", None), (".link 200000\nnop\n", None), (".link -2\nnop\n", 0o177776)]
    jobs = [{"kind": "asm", "sources": [p]} for p, _ in probes]
    res = driver.native(jobs, tree)
    obs = [r.get("base") if r["status"] == "ok" else r["status"] for r in res]
    exp = [b if b is not None else "fail" for _, b in probes]
    k_skip = [i for i, (p_, _) in enumerate(probes) if ". = 1005" in p_][0]
    extra = bytes.fromhex(res[k_skip]["code_hex"]) == b"\x01\0\0\0\0\x02" if res[k_skip]["status"] == "ok" else False
    return dict(jobs=jobs, expected=exp, observed=obs, skip_zero_filled=extra, reproduced=obs != exp or not extra)
