"""C04 - Branches and PC-relative operands hit their target or are rejected.

vc: OffsetOperandStub.encode + fn + fixup_label (8-bit signed branches, 6-bit SOB) per operand skeleton, ready and lazy;
    the relative / relative-deferred lambdas of RegisterModeOperandStub.encode;
    Instruction.compile_insn: rel_address of operand k == emit + 2 + bytes of the extension words before it.
"""
import z3
from contracts.common import *  # noqa
from contracts import common, insn, c01
from contracts.insn import *  # noqa
from pyvc import driver

ID = "C04"
EXPLANATION = ("target, address and offset are symbolic over Z (no bound: every distance, every address incl. wrap-around modulo 2^16); "
               "operand skeletons (label, label+-k, '.', local labels, parenthesised) are enumerated")
TRUSTED = ["pyvc engine semantics of the Python subset (A1)", "z3 (A7)", "struct.pack('<H') model",
           "PDP-11 semantics used as the statement: branch PC' = (address after the branch word) + 2*sext8(field); SOB PC' = that - 2*field; "
           "mode 6/7 on PC: EA = (address of extension word) + 2 + word (mod 2^16)"]
ASSUMPTIONS = ["A2: the parser produces the branch-operand skeletons enumerated in contracts/insn.py (branch_operand)",
               "A3: Deferred construct contract", "assumed callee contract: Symbol._resolve returns (definition, value) with an arbitrary integer value, ready or lazy",
               "the textual test '\"(\" not in operand.text()' is modelled by the skeleton's own text facts (parenthesised shapes contain '(')"]

REPRESENTATIVES = ["mov", "cmp", "jsr", "xor", "mul", "sob", "br", "bne", "ldf", "stf", "stexp", "ldexp", "cmpf", "clr", "tst", "push", "pop", "call", "clrf", "jmp"]


def units(tier):
    us = []
    for bits, uns in [(8, False), (6, True)]:
        for sh in insn.BRANCH_SHAPES + insn.D5_SHAPES:
            for lazy in (False, True):
                us.append(("offset[%d,%s,%s,%s]" % (bits, uns, sh, lazy), "unit_offset_encode", dict(bits=bits, unsigned=uns, shape=sh, lazy=lazy)))
    for sh in ("e", "@e"):
        for lazy in (False, True):
            us.append(("relative[%s,%s]" % (sh, lazy), "unit_rm_encode", dict(shape=sh, lazy=lazy)))
            us.append(("relative-fp[%s,%s]" % (sh, lazy), "unit_rm_encode", dict(shape=sh, lazy=lazy, fp=True)))
    for m in REPRESENTATIVES:
        for lazy in (False, True):
            us.append(("insn[%s,%s]" % (m, lazy), "unit_compile_insn", dict(mnemonic=m, lazy=lazy)))
    return us


def canary(eng):
    def run(eng):
        eng.I = {}
        return None

    def post(eng, outcome):
        off = z3.Int("off")
        eng.prove("canary-reach-is-+256", z3.Implies(z3.And(off <= 256, off >= -256, off % 2 == 0), off / 2 < 128))
    return verify(eng, "canary", run, post, func="canary")


def replay(o, tree):
    cfg = o.get("cfg") or {}
    w = o.get("witness") or {}
    if cfg.get("kind") == "offset":
        return replay_offset(cfg, w, tree)
    if cfg.get("kind") == "rm":
        return c01.replay_rm(cfg, w, tree)
    if cfg.get("kind") == "insn":
        r = c01.replay(o, tree)
        if r and not r["reproduced"]:
            # rel_address failures show only with an extension word before a PC-relative operand
            src = "x: mov 123(r1), x\n cmp #1, x\n"
            job = {"kind": "asm", "sources": [src]}
            res = driver.native([job], tree)[0]
            # mov 123(r1), x  at 1000: words 016167 000123 <x-1006>; x=1000 -> 177772 ; cmp #1, x at 1006: 022767 000001 <1000-1014=177764>
            exp = ["ok", bytes.fromhex("7711" + "5300" + "faff" + "d725" + "0100" + "f4ff").hex()]
            obs = [res["status"]] + ([res["code_hex"]] if res["status"] == "ok" else [])
            return dict(jobs=[job], source=src, expected=exp, observed=obs, reproduced=obs != exp)
        return r
    return None


def replay_offset(cfg, w, tree):
    shape = cfg["shape"]
    unsigned = cfg["unsigned"]
    bits = cfg["bits"]
    if shape in insn.D5_SHAPES:
        op = {"100.": "100.", "'x": "'x", "<e>": "<a>", "sym+k.": "a+2.", ".+k.": ".+4.", ".-k.": ".-2.", "1+k.": "1+2."}[shape]
        src = "a: 1: %s %s\n" % ("sob r0," if unsigned else "br", op)
        job = {"kind": "asm", "sources": [src]}
        res = driver.native([job], tree)[0]
        return dict(jobs=[job], source=src, expected=["ok-or-fail (a result or a reported error)"], observed=[res["status"], res.get("exc")], reproduced=res["status"] == "crash")
    if shape in ("1+k", "k+sym"):
        # a compound operand whose first leaf is a bare number: that number is the local label of that name (label-fixup), the rest is arithmetic
        progs = [(".link 1000\n1: nop\n%s 1 + 2\n", 0o1002), (".link 1000\n1: nop\nnop\n%s 4 - 2 + 1\n4: nop\n", None), (".link 1000\n2: nop\n%s 2 - 0\n", 0o1000)] if shape == "1+k" else \
                [(".link 1000\nlab: nop\n%s 2 + lab\n", 0o1002)]
        jobs, exps = [], []
        for tmpl, target in progs:
            if target is None:
                continue
            src = tmpl % ("sob r1," if unsigned else "br")
            n_before = src.count("nop")
            here = 0o1000 + 2 * n_before
            off = target - (here + 2)
            word = (0o077100 + (-off // 2)) if unsigned else (0o000400 + (off // 2) % 256)
            jobs.append({"kind": "asm", "sources": [src]})
            exps.append(["ok", (b"\xa0\x00" * n_before + word.to_bytes(2, "little")).hex()])
        res = driver.native(jobs, tree)
        obs = [[r["status"]] + ([r["code_hex"]] if r["status"] == "ok" else []) for r in res]
        return dict(jobs=jobs, expected=exps, observed=obs, reproduced=obs != exps)
    # distance from the word after the branch
    keys = [k for k in ("target", "target_base", "label_value", "k") if k in w]
    rel = w.get("rel", 0)
    if shape in ("sym", ".", "(e)"):
        t = w.get("target", w.get("target_base", 0))
    elif shape in ("1", "1:"):
        t = w.get("label_value", 0)
    elif shape == "k+sym":
        t = w.get("label_value", 0) + w.get("target_base", 0)
    elif shape == "1+k":
        t = w.get("label_value", 0) + w.get("k", 0)
    elif shape == ".-k":
        t = w.get("target_base", 0) - w.get("k", 0)
    else:
        t = w.get("target_base", 0) + w.get("k", 0)
    off = t - rel
    d = off + 2            # relative to '.', the address of the branch word itself
    opnd = ".+%o" % d if d >= 0 else ".-%o" % -d
    src = "%s %s\n" % ("sob r1," if unsigned else "br", opnd)
    if unsigned:
        reach = -(2 ** (bits + 1)) + 2 <= off <= 0 and off % 2 == 0
        word = 0o077100 + ((-off // 2) if reach else 0)
    else:
        reach = -(2 ** bits) <= off <= 2 ** bits - 2 and off % 2 == 0
        word = 0o000400 + (((off // 2) % 256) if reach else 0)
    exp = ["ok", word.to_bytes(2, "little").hex()] if reach else ["fail"]
    job = {"kind": "asm", "sources": [src]}
    res = driver.native([job], tree)[0]
    obs = [res["status"]] + ([res["code_hex"]] if res["status"] == "ok" else [])
    return dict(jobs=[job], source=src, offset=off, expected=exp, observed=obs, diags=res.get("diags"), reproduced=obs != exp)


def witness_D5(tree):
    r = replay_offset(dict(shape=".+k.", unsigned=False, bits=8), {}, tree)
    return r["reproduced"], "br .+4. -> %s" % (r["observed"],)


FINDING_WITNESS = {"D5": witness_D5}
