"""C04 - Branches and PC-relative operands hit their target or are rejected.

vc: OffsetOperandStub.encode + fn + fixup_label (8-bit signed branches, 6-bit SOB) per operand skeleton, ready and lazy;
    the relative / relative-deferred lambdas of RegisterModeOperandStub.encode;
    Instruction.compile_insn: rel_address of operand k == emit + 2 + bytes of the extension words before it.
"""
import z3
from contracts.common import *  # noqa
from contracts import structure
from contracts.structure import *  # noqa
from contracts import common, insn, c01
from contracts.insn import *  # noqa
from pyvc import driver
from contracts import deferred_c
from contracts.deferred_c import *  # noqa

ID = "C04"
EXPLANATION = ("target, address and offset are symbolic over Z (no bound: every distance, every address incl. wrap-around modulo 2^16); "
               "operand skeletons (label, label+-k, '.', local labels, parenthesised) are enumerated")
TRUSTED = ["pyvc engine semantics of the Python subset (A1)", "z3 (A7)", "struct.pack('<H') model",
           "PDP-11 semantics used as the statement: branch PC' = (address after the branch word) + 2*sext8(field); SOB PC' = that - 2*field; "
           "mode 6/7 on PC: EA = (address of extension word) + 2 + word (mod 2^16)"]
ASSUMPTIONS = ["A2: the parser produces the branch-operand skeletons enumerated in contracts/insn.py (branch_operand)",
               "A3: Deferred construct contract", "assumed callee contract: Symbol._resolve returns (definition, value) with an arbitrary integer value, ready or lazy",
               "the textual test '\"(\" not in operand.text()' is modelled by the skeleton's own text facts (parenthesised shapes contain '(')"]

REPRESENTATIVES = ["mov", "cmp", "jsr", "xor", "mul", "sob", "br", "bne", "ldf", "stf", "stexp", "ldexp", "cmpf", "clr", "tst", "push", "pop", "call", "clrf", "jmp"]


def units(tier):
    us = []
    for bits, uns in [(8, False), (6, True)]:
        for sh in insn.BRANCH_SHAPES + insn.D5_SHAPES:
            for lazy in (False, True):
                us.append(("offset[%d,%s,%s,%s]" % (bits, uns, sh, lazy), "unit_offset_encode", dict(bits=bits, unsigned=uns, shape=sh, lazy=lazy)))
    for sh in ("e", "@e"):
        for lazy in (False, True):
            us.append(("relative[%s,%s]" % (sh, lazy), "unit_rm_encode", dict(shape=sh, lazy=lazy)))
            us.append(("relative-fp[%s,%s]" % (sh, lazy), "unit_rm_encode", dict(shape=sh, lazy=lazy, fp=True)))
    for m in REPRESENTATIVES:
        for lazy in (False, True):
            us.append(("insn[%s,%s]" % (m, lazy), "unit_compile_insn", dict(mnemonic=m, lazy=lazy)))
    us.append(("rac", "unit_rac", {}))
    # the address a branch names is what Symbol._resolve binds the name to (contracts/symbols_c.py, shared with C03 / C11)
    for sp in (False, True):
        for dn in (False, True):
            us.append(("symbol-resolve[%s,%s]" % (sp, dn), "unit_symbol_resolve", dict(speculative=sp, digit_name=dn)))
    # a displacement inside a '.repeat' body is right only if every copy is compiled at its own address (loop contract shared with C16 / C02 / C06)
    us.append(("repeat", "unit_repeat", {}))
    # the displacement 'target - rel_address' of a lazy target is LinearPolynomial arithmetic, awaited when the word is written: the polynomial's
    # value is preserved by every operation and by the re-simplification in _wait (contracts/deferred_c.py, shared with C03)
    for name, fn, kw in deferred_c.all_units():
        if name.startswith("poly"):
            us.append((name, fn, kw))
    # whole programs: the statement holds wherever a statement stands (repeat body, included / linked file, any block) - contracts/structure.py
    us += structure.units()
    us += structure.expr_units()
    return us


# ---- run-time check: real programs, the displacement decoded the way a PDP-11 does and compared with the address the source names ----------
# item forms: ("L", name) label / ("G", name) global label 'name::' / ("I", file) .include / (text, size, [(kind, word offset, target), ...])
# kinds: br (8-bit signed field), sob (6-bit field), rel (extension word at the given byte offset of the instruction)
def _t(*its):
    return list(its)


NOP = ("nop", 2, [])
INC_BODY = [("br T", 2, [("br", 0, "T")]), ("jmp T", 4, [("rel", 2, "T")]), ("mov #1, T", 6, [("rel", 4, "T")]), ("mov @T, r0", 4, [("rel", 2, "T")]),
            ("mov T, T", 6, [("rel", 2, "T"), ("rel", 4, "T")]), ("cmp 10(r1), T", 6, [("rel", 4, "T")]), ("sob r1, T", 2, [("sob", 0, "T")]), ("rts pc", 2, [])]
FWD_BODY = [("br F", 2, [("br", 0, "F")]), ("jmp F", 4, [("rel", 2, "F")]), ("mov #1, @F", 6, [("rel", 4, "F")]), ("bne F", 2, [("br", 0, "F")])]
RAC_PROGS = [
    # an included file, placed at a non-zero offset from the link base, refers to a global label of the including file
    dict(main="m.mac", files={"m.mac": [NOP, NOP, ("G", "T"), NOP, ("I", "inc.mac"), NOP], "inc.mac": INC_BODY}),
    dict(main="m.mac", link=0o20000, files={"m.mac": [NOP] * 5 + [("G", "T"), NOP, ("I", "inc.mac"), NOP], "inc.mac": INC_BODY}),
    # forward: the global label lies behind the include
    dict(main="m.mac", files={"m.mac": [NOP, NOP, NOP, ("I", "inc.mac"), NOP, ("G", "F"), NOP], "inc.mac": FWD_BODY}),
    # the including file refers to global labels of the included file
    dict(main="m.mac", files={"m.mac": [NOP] + FWD_BODY + [("I", "inc.mac")], "inc.mac": [NOP, NOP, ("G", "F"), NOP]}),
    # nested includes, both directions
    dict(main="m.mac", files={"m.mac": [NOP, ("G", "T"), NOP, NOP, ("I", "a.mac"), ("G", "F"), NOP], "a.mac": [NOP] + FWD_BODY + [("I", "b.mac")], "b.mac": [NOP, NOP, NOP] + INC_BODY + FWD_BODY}),
    # one file: labels, label+-k, '.', local labels, decimal offsets; aliases assigned before their labels; coefficients other than 1
    dict(main="m.mac", files={"m.mac": [("L", "T"), NOP, ("L", "1"), NOP, ("br T", 2, [("br", 0, "T")]), ("br T+2", 2, [("br", 0, "T+2")]), ("jmp T+10.", 4, [("rel", 2, "T+10")]),
                                        ("br .+4", 2, [("br", 0, ".+4")]), NOP, ("jmp .-2", 4, [("rel", 2, ".-2")]), ("br 1", 2, [("br", 0, "1")]), ("sob r2, 1", 2, [("sob", 0, "1")]),
                                        ("mov T-2, @F+4", 6, [("rel", 2, "T-2"), ("rel", 4, "F+4")]), ("L", "F"), NOP]}),
    dict(main="m.mac", files={"m.mac": [("k = tbl + 2", 0, []), NOP, ("jmp end-k+tbl", 4, [("rel", 2, "end-2")]), ("br end-k+tbl", 2, [("br", 0, "end-2")]), NOP, ("L", "tbl"), NOP, NOP, ("L", "end"), NOP]}),
    dict(main="m.mac", files={"m.mac": [("k = end", 0, []), ("j = tbl", 0, []), NOP, ("jmp 2*k-j-j+tbl-end+tbl", 4, [("rel", 2, "end")]), ("mov @3*k-2*end-j+tbl, r0", 4, [("rel", 2, "end")]), ("L", "tbl"), NOP, NOP, ("L", "end"), NOP]}),
    # '.repeat' bodies: every copy is assembled at its own address (targets outside the body: backward label, forward label, constant; base known or not)
    dict(main="m.mac", files={"m.mac": [("L", "T"), NOP, (".repeat 3 { br T }", 6, [("br", 0, "T"), ("br", 2, "T"), ("br", 4, "T")]), (".repeat 2 { sob r1, T }", 4, [("sob", 0, "T"), ("sob", 2, "T")]),
                                        (".repeat 2 { add #2, T }", 12, [("rel", 4, "T"), ("rel", 10, "T")]), (".repeat 2 { jmp @F }", 8, [("rel", 2, "F"), ("rel", 6, "F")]), NOP, ("L", "F"), NOP]}),
    dict(main="m.mac", link=0o4000, files={"m.mac": [("L", "T"), NOP, (".repeat 4 { br T }", 8, [("br", 0, "T"), ("br", 2, "T"), ("br", 4, "T"), ("br", 6, "T")]), (".repeat 3 { mov T, 100 }", 18, [("rel", 2, "T"), ("rel", 4, "=64"), ("rel", 8, "T"), ("rel", 10, "=64"), ("rel", 14, "T"), ("rel", 16, "=64")]),
                                                     (".repeat 2 { .repeat 2 { bne T } }", 8, [("br", 0, "T"), ("br", 2, "T"), ("br", 4, "T"), ("br", 6, "T")])]}),
    # both spellings of a local label in one block ('3:' and '3$:' are different labels): a forward reference finds its own spelling
    dict(main="m.mac", files={"m.mac": [("L", "T"), ("L", "3"), ("L", "4"), NOP, ("br 3$", 2, [("br", 0, "3$")]), ("jmp 3$", 4, [("rel", 2, "3$")]), ("mov #1, 4$", 6, [("rel", 4, "4$")]), NOP, ("L", "4$"), NOP, ("L", "3$"), NOP,
                                        ("sob r1, 3$", 2, [("sob", 0, "3$")]), ("br 3", 2, [("br", 0, "3")]), ("mov @4, r0", 4, [("rel", 2, "=4")])]}),
    # wrap-around: absolute targets far from the code, high link address
    dict(main="m.mac", link=0o177700, files={"m.mac": [NOP, ("mov 10, r0", 4, [("rel", 2, "=8")]), ("jmp 177776", 4, [("rel", 2, "=65534")]), ("mov #1, 100", 6, [("rel", 4, "=64")])]}),
    dict(main="m.mac", link=0o10, files={"m.mac": [NOP, ("mov 177770, r0", 4, [("rel", 2, "=65528")]), ("clr @0", 4, [("rel", 2, "=0")])]}),
]


def _rac_layout(prog):
    base = prog.get("link", 0o1000)
    labels, checks, texts = {}, [], {}
    addr = [base]

    def walk(fname):
        out = []
        for it in prog["files"][fname]:
            if it[0] == "L":
                labels[it[1]] = addr[0]
                out.append("%s:" % it[1])
            elif it[0] == "G":
                labels[it[1]] = addr[0]
                out.append("%s::" % it[1])
            elif it[0] == "I":
                out.append('.include "%s"' % it[1])
                walk(it[1])
            else:
                text, size, cs = it
                for kind, off, target in cs:
                    checks.append((fname, text, kind, addr[0], off, target))
                out.append("        " + text)
                addr[0] += size
        texts[fname] = ("" if fname != prog["main"] or "link" not in prog else ".link %o\n" % base) + "\n".join(out) + "\n"
    walk(prog["main"])
    return base, labels, checks, texts


def _rac_target(expr, labels, here):
    if expr.startswith("="):
        return int(expr[1:])
    import re
    m = re.fullmatch(r"([A-Za-z0-9.$]+)([+-]\d+)?", expr)
    b = here if m.group(1) == "." else labels[m.group(1)]
    return (b + int(m.group(2) or 0)) % 65536


def unit_rac(eng=None, tree=None):
    import json
    tree = tree or driver.tree_root()
    jobs, metas = [], []
    for prog in RAC_PROGS:
        base, labels, checks, texts = _rac_layout(prog)
        code = """
import os, tempfile, shutil
from pdpy11 import reports
from pdpy11.parser import parse
from pdpy11.compiler import Compiler
d = tempfile.mkdtemp(prefix="pyvc-c04-")
try:
    texts = %r
    for n, t in texts.items():
        open(os.path.join(d, n), "w").write(t)
    diags = []
    try:
        with reports.handle_reports(lambda p, i, *l: diags.append(i)):
            b, c = Compiler().compile_and_link_files([parse(os.path.join(d, %r), texts[%r])])
        result = ["ok", b, c.hex(), diags]
    except reports.UnrecoverableError:
        result = ["fail", diags]
finally:
    shutil.rmtree(d, ignore_errors=True)
""" % (texts, prog["main"], prog["main"])
        jobs.append(dict(kind="py", code=code))
        metas.append((base, labels, checks, texts))
    res = driver.native(jobs, tree)
    bad, n = [], 0
    for (base, labels, checks, texts), r in zip(metas, res):
        r = r.get("result") or [r.get("status"), r.get("exc"), r.get("msg")]
        if r[0] != "ok" or r[3]:
            bad.append(dict(sources=texts, expected="assembles without diagnostics (every target is in reach)", observed=r[:1] + r[3:] if r[0] == "ok" else r))
            continue
        if r[1] != base:
            bad.append(dict(sources=texts, expected="base %o" % base, observed=r[1]))
            continue
        img = bytes.fromhex(r[2])
        for fname, text, kind, at, off, target in checks:
            n += 1
            want = _rac_target(target, labels, at)
            w = img[at - base + off] | (img[at - base + off + 1] << 8)
            if kind == "br":
                d = w & 0xFF
                ea = (at + off + 2 + 2 * (d - 256 if d & 0x80 else d)) % 65536
            elif kind == "sob":
                ea = (at + off + 2 - 2 * (w & 0o77)) % 65536
            else:
                ea = (at + off + 2 + w) % 65536
            if ea != want:
                bad.append(dict(sources=texts, statement="%s (in %s at %o)" % (text, fname, at), expected="effective address %o" % want, observed="%o" % ea))
    ob = dict(label="effective-address-decoded-from-the-image==address-named-in-the-source(includes at an offset, nested includes, aliases, wrap-around)", kind="rac",
              status="proved" if not bad else "failed", secs=0.0, path=[], witness=None, detail=json.dumps(bad[:3])[:1500], events=[], smt2=None, backend="cpython-native", unit="pcrel-rac",
              func="Compiler (run-time check)", cases=n, cfg=dict(kind="rac"))
    return dict(unit="pcrel-rac", func="Compiler (run-time check)", paths=n, obligations=[ob], wall=0.0, bad=bad)


def unit_repeat(eng):
    from contracts import meta_c
    return meta_c.unit_repeat(eng)


def unit_symbol_resolve(eng, speculative, digit_name):
    from contracts import c03
    return c03.unit_resolve(eng, speculative=speculative, digit_name=digit_name)


def canary(eng):
    def run(eng):
        eng.I = {}
        return None

    def post(eng, outcome):
        off = z3.Int("off")
        eng.prove("canary-reach-is-+256", z3.Implies(z3.And(off <= 256, off >= -256, off % 2 == 0), off / 2 < 128))
    return verify(eng, "canary", run, post, func="canary")


def replay(o, tree):
    r_ = None if o.get("_shared_replay") else structure.replay(dict(o, _shared_replay=True), tree)
    if r_ is not None and r_.get("reproduced"):
        return r_
    cfg = o.get("cfg") or {}
    w = o.get("witness") or {}
    if str(cfg.get("kind", "")).startswith("poly") or cfg.get("kind") in ("rac", "repeat") or o.get("unit", "").startswith((".repeat", "Symbol._resolve")):
        # program level first: the include / alias programs go through the same arithmetic
        r = unit_rac(None, tree)
        if r["bad"]:
            return dict(jobs=None, experiment="C04 run-time corpus (contracts/c04.py RAC_PROGS)", **{k: v for k, v in r["bad"][0].items()}, reproduced=True)
        from contracts import c03
        return c03.replay(o, tree)
    if cfg.get("kind") == "offset":
        return replay_offset(cfg, w, tree)
    if cfg.get("kind") == "rm":
        return c01.replay_rm(cfg, w, tree)
    if cfg.get("kind") == "insn":
        r = c01.replay(o, tree)
        if r and not r["reproduced"]:
            # rel_address failures show only with an extension word before a PC-relative operand
            src = "x: mov 123(r1), x\n cmp #1, x\n"
            job = {"kind": "asm", "sources": [src]}
            res = driver.native([job], tree)[0]
            # mov 123(r1), x  at 1000: words 016167 000123 <x-1006>; x=1000 -> 177772 ; cmp #1, x at 1006: 022767 000001 <1000-1014=177764>
            exp = ["ok", bytes.fromhex("7711" + "5300" + "faff" + "d725" + "0100" + "f4ff").hex()]
            obs = [res["status"]] + ([res["code_hex"]] if res["status"] == "ok" else [])
            return dict(jobs=[job], source=src, expected=exp, observed=obs, reproduced=obs != exp)
        return r
    return None


def replay_offset(cfg, w, tree):
    shape = cfg["shape"]
    unsigned = cfg["unsigned"]
    bits = cfg["bits"]
    if shape in insn.D5_SHAPES:
        op = {"100.": "100.", "'x": "'x", "<e>": "<a>", "sym+k.": "a+2.", ".+k.": ".+4.", ".-k.": ".-2.", "1+k.": "1+2."}[shape]
        src = "a: 1: %s %s\n" % ("sob r0," if unsigned else "br", op)
        job = {"kind": "asm", "sources": [src]}
        res = driver.native([job], tree)[0]
        return dict(jobs=[job], source=src, expected=["ok-or-fail (a result or a reported error)"], observed=[res["status"], res.get("exc")], reproduced=res["status"] == "crash")
    if shape in ("1+k", "k+sym"):
        # a compound operand whose first leaf is a bare number: that number is the local label of that name (label-fixup), the rest is arithmetic
        progs = [(".link 1000\n1: nop\n%s 1 + 2\n", 0o1002), (".link 1000\n1: nop\nnop\n%s 4 - 2 + 1\n4: nop\n", None), (".link 1000\n2: nop\n%s 2 - 0\n", 0o1000)] if shape == "1+k" else \
                [(".link 1000\nlab: nop\n%s 2 + lab\n", 0o1002)]
        jobs, exps = [], []
        for tmpl, target in progs:
            if target is None:
                continue
            src = tmpl % ("sob r1," if unsigned else "br")
            n_before = src.count("nop")
            here = 0o1000 + 2 * n_before
            off = target - (here + 2)
            word = (0o077100 + (-off // 2)) if unsigned else (0o000400 + (off // 2) % 256)
            jobs.append({"kind": "asm", "sources": [src]})
            exps.append(["ok", (b"\xa0\x00" * n_before + word.to_bytes(2, "little")).hex()])
        res = driver.native(jobs, tree)
        obs = [[r["status"]] + ([r["code_hex"]] if r["status"] == "ok" else []) for r in res]
        return dict(jobs=jobs, expected=exps, observed=obs, reproduced=obs != exps)
    # distance from the word after the branch
    keys = [k for k in ("target", "target_base", "label_value", "k") if k in w]
    rel = w.get("rel", 0)
    if shape in ("sym", ".", "(e)"):
        t = w.get("target", w.get("target_base", 0))
    elif shape in ("1", "1:"):
        t = w.get("label_value", 0)
    elif shape == "k+sym":
        t = w.get("label_value", 0) + w.get("target_base", 0)
    elif shape == "1+k":
        t = w.get("label_value", 0) + w.get("k", 0)
    elif shape == ".-k":
        t = w.get("target_base", 0) - w.get("k", 0)
    else:
        t = w.get("target_base", 0) + w.get("k", 0)
    off = t - rel
    d = off + 2            # relative to '.', the address of the branch word itself
    opnd = ".+%o" % d if d >= 0 else ".-%o" % -d
    # the parity of the instruction's own address is part of the witness: a branch behind an odd number of data bytes sits at an odd address
    odd = rel % 2 == 1
    src = "%s%s %s\n" % (".byte 0\n" if odd else "", "sob r1," if unsigned else "br", opnd)
    if unsigned:
        reach = -(2 ** (bits + 1)) + 2 <= off <= 0 and off % 2 == 0
        word = 0o077100 + ((-off // 2) if reach else 0)
    else:
        reach = -(2 ** bits) <= off <= 2 ** bits - 2 and off % 2 == 0
        word = 0o000400 + (((off // 2) % 256) if reach else 0)
    exp = ["ok", ("00" if odd else "") + word.to_bytes(2, "little").hex()] if reach else ["fail"]
    job = {"kind": "asm", "sources": [src]}
    res = driver.native([job], tree)[0]
    obs = [res["status"]] + ([res["code_hex"]] if res["status"] == "ok" else [])
    return dict(jobs=[job], source=src, offset=off, expected=exp, observed=obs, diags=res.get("diags"), reproduced=obs != exp)


def witness_D5(tree):
    r = replay_offset(dict(shape=".+k.", unsigned=False, bits=8), {}, tree)
    return r["reproduced"], "br .+4. -> %s" % (r["observed"],)


FINDING_WITNESS = {"D5": witness_D5}
