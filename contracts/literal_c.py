"""Contracts on the character-literal scanner of parser.py (real function bodies, re-read on every run; the @Parser decorator is dropped by the
extraction - the combinator wrapper only saves/restores the position and turns a failure into backtracking):

  string_escape(ctx)            returns at most ONE character on every path, raises nothing (errors are reported)
  single_quoted_literal(ctx)    } given 'string_char yields at most one character' (the contract above, and `character` = the one-character regex):
  double_quoted_literal(ctx)    } ends in a literal, a parse failure (backtracking) or a reported critical error - never an internal exception
                                  (in particular the excess-quote message is picked from a list by len(value): the index stays inside the list)

Assumed (and listed in the evidence): the `re` semantics of the two patterns ([\\s\\S] = exactly one character, [0-9a-f]{2} = two hexadecimal digits),
checked syntactically to be the patterns in the source; str.lower() facts discharged by enumeration over all code points (closed obligation)."""
import ast
import z3
from contracts.common import *  # noqa
from pyvc.engine import strlower
from pyvc import driver

ESC_SET = "\\\"'/"


def unit_string_escape(eng):
    def run(eng):
        eng.I = {}
        pm = eng.load_module("parser")
        env = pm["env"]
        ch, has, hexs, hashex = z3.String("ch"), z3.Bool("has_char"), z3.String("hex2"), z3.Bool("has_hex")
        eng.inputs.update(ch=ch, has_char=has, hex2=hexs, has_hex=hashex)
        hexdig = z3.StringVal("0123456789abcdefABCDEF")

        def character(eng_, ctx, report=None):
            if eng_.branch(has):
                eng_.assume(z3.Length(ch) == 1)
                # str.lower() of one character: if the result lies within the set of self-escaping characters it is one character (closed obligation lower-facts)
                eng_.assume(z3.Implies(z3.Contains(z3.StringVal(ESC_SET), strlower(ch)), z3.Length(strlower(ch)) == 1))
                return ch
            return None

        def regex(eng_, pat, skip_whitespace_before=True):
            eng_.prove("hex-escape-pattern-is-two-hexadecimal-digits", pat == r"[0-9a-f]{2}")

            def p(eng__, ctx, report=None):
                if eng__.branch(hashex):
                    eng__.assume(z3.And(z3.Length(hexs) == 2, z3.Contains(hexdig, z3.SubString(hexs, 0, 1)), z3.Contains(hexdig, z3.SubString(hexs, 1, 1))))
                    return hexs
                return None
            return Builtin("regexparser", p)
        env.vars["character"] = Builtin("character", character)
        env.vars["string_backslash"] = Builtin("string_backslash", lambda eng_, ctx: "\\")
        env.vars["Parser"] = Obj("ParserCls", {"regex": Builtin("Parser.regex", regex)}, name="Parser")
        ccls = eng.resolve_global(eng.load_module("context"), "Context")
        ctx = Obj(ccls, dict(filename="f.mac", code=Opaque("code"), pos=0), name="ctx")
        return eng.call(env.vars["string_escape"], [ctx], {})

    def post(eng, o):
        eng.prove("no-exception(errors-are-reported)", o[0] == "return")
        if o[0] == "return":
            v = o[1]
            eng.prove("an-escape-yields-at-most-one-character", (len(v) if isinstance(v, str) else z3.Length(v)) <= 1)
    r = verify(eng, "string_escape", run, post, func="parser.string_escape")
    for ob in r["obligations"]:
        ob["cfg"] = dict(kind="literal")
    return r


def unit_quoted_literal(eng, which):
    def run(eng):
        eng.I = {}
        pm = eng.load_module("parser")
        env = pm["env"]
        code, pos = z3.String("code"), z3.Int("pos")
        eng.inputs.update(code=code, pos=pos)
        eng.assume(z3.And(pos >= 0, pos <= z3.Length(code)))
        ccls = eng.resolve_global(eng.load_module("context"), "Context")
        ctx = Obj(ccls, dict(filename="f.mac", code=code, pos=pos), name="ctx")
        cnt = [0]

        def skip_ws(eng_):
            cnt[0] += 1
            k = z3.Int("ws%d" % cnt[0])
            eng_.assume(z3.And(k >= ctx.attrs["pos"], k <= z3.Length(code)))
            ctx.attrs["pos"] = k
        ctx.attrs["skip_whitespace"] = Builtin("skip_whitespace", skip_ws)
        ctx.attrs["save"] = Builtin("save", lambda eng_: Obj(ccls, dict(filename="f.mac", code=code, pos=ctx.attrs["pos"]), name="ctx.saved"))
        q = "'" if which == "single" else '"'

        def quote(eng_, c):
            p = c.attrs["pos"]
            if eng_.branch(z3.And(p < z3.Length(code), z3.SubString(code, p, 1) == q)):
                c.attrs["pos"] = p + 1
                return q
            raise PyRaise(Exc("ParserFailure"))

        def string_char(eng_, c):
            cnt[0] += 1
            r, adv = z3.String("sc%d" % cnt[0]), z3.Int("adv%d" % cnt[0])
            eng_.inputs["sc%d" % cnt[0]] = r
            eng_.assume(z3.Length(r) <= 1)        # contract of string_escape (own unit) and of `character` (one-character pattern)
            eng_.assume(z3.And(adv >= 1, c.attrs["pos"] + adv <= z3.Length(code)))
            c.attrs["pos"] = c.attrs["pos"] + adv
            return r
        env.vars["single_quote"] = Builtin("single_quote", quote)
        env.vars["double_quote"] = Builtin("double_quote", quote)
        env.vars["string_char"] = Builtin("string_char", string_char)
        return eng.call(env.vars["%s_quoted_literal" % which], [ctx], {})

    def post(eng, o):
        if o[0] == "raise":
            nm = str(getattr(o[1], "cls", o[1]))
            eng.prove("only-a-parse-failure-or-a-reported-critical-error-leaves-the-scanner(raised:%s)" % nm, nm in ("ParserFailure", "UnrecoverableError"))
            if nm == "UnrecoverableError":
                eng.prove("a-critical-error-was-reported-first", any(e[0] == "critical" for e in eng.path.events))
        else:
            eng.prove("returns-a-literal-token", isinstance(o[1], Obj))
    r = verify(eng, "%s_quoted_literal" % which, run, post, func="parser.%s_quoted_literal" % which)
    for ob in r["obligations"]:
        ob["cfg"] = dict(kind="literal")
    return r


def unit_literal_closed(eng=None):
    """closed obligations: (1) the source defines string_char = string_escape | character and character = Parser.regex('[\\s\\S]', ...);
    (2) for every code point c: chr(c).lower() within the self-escaping set => it is one character (enumerated on the interpreter that runs pdpy11)"""
    import os
    tree = ast.parse(open(os.path.join(driver.tree_root(), "pdpy11", "parser.py")).read())
    found = {}
    for node in tree.body:
        if isinstance(node, ast.Assign) and len(node.targets) == 1 and isinstance(node.targets[0], ast.Name) and node.targets[0].id in ("string_char", "character"):
            found[node.targets[0].id] = ast.unparse(node.value)
    ok1 = found.get("string_char") == "string_escape | character" and found.get("character", "").startswith("Parser.regex('[\\\\s\\\\S]'")
    code = "s = %r\nbad = [c for c in range(0x110000) if chr(c).lower() in s and len(chr(c).lower()) != 1]\nresult = bad[:5]\n" % ESC_SET
    r = driver.native([{"kind": "py", "code": code}], driver.tree_root(), timeout=300)[0]
    ok2 = r.get("status") == "ok" and r.get("result") == []
    obs = []
    for label, ok, det, n in (("string_char-is-string_escape|character-and-character-is-the-one-character-pattern", ok1, str(found), 2),
                              ("lower-facts:lower(c)-within-the-self-escaping-set-implies-one-character-for-all-1114112-code-points", ok2, str(r)[:200], 0x110000)):
        obs.append(dict(label=label, kind="closed", status="proved" if ok else "failed", secs=0.0, path=[], witness=None, detail=det, events=[], smt2=None, backend="cpython-native",
                        unit="literal-closed", func="parser.string_char", cases=n, cfg=dict(kind="literal")))
    return dict(unit="literal-closed", func="parser.string_char", paths=2, obligations=obs, wall=0.0)


def all_units():
    return [("literal:string_escape", "unit_string_escape", {}), ("literal:single_quoted_literal", "unit_quoted_literal", dict(which="single")),
            ("literal:double_quoted_literal", "unit_quoted_literal", dict(which="double")), ("literal:closed", "unit_literal_closed", {})]
