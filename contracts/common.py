"""Shared helpers for the sidecar contracts: symbolic token/state builders, callee contracts
(assumed at call sites, proved in the unit that owns the callee), spec functions."""
import ast
import z3
from pyvc.engine import (Engine, Obj, Builtin, Bound, Func, ClassV, Dyn, Lazy, Opaque, Exc, PyRaise, Unsupported,
                         find_func, verify, b_wait, pow2, fmod, fdiv, is_sym, is_symbytes, to_z3bytes, BYTES, slen, abstract_seq, announced_len)

ACTIVE_FINDINGS = set()


# ---------------------------------------------------------------- spec functions (dual use: z3 terms or ints)
def le16(w):
    """little-endian 16-bit word as a z3 byte sequence"""
    w = z3.IntVal(w) if isinstance(w, int) else w
    return z3.Concat(z3.Unit(w % 256), z3.Unit(w / 256))


def seq_of(items):
    """z3 Seq(Int) from a list of int terms"""
    items = [z3.Unit(z3.IntVal(i) if isinstance(i, int) else i) for i in items]
    if not items:
        return z3.Empty(BYTES)
    return items[0] if len(items) == 1 else z3.Concat(*items)


def zbytes(v):
    """any bytes-like engine value as a z3 Seq(Int)"""
    if isinstance(v, Lazy):
        v = v.final
    if hasattr(v, "v"):  # ByteBuf
        v = v.v
    return to_z3bytes(v)


def final(v):
    return v.final if isinstance(v, Lazy) else v


def errors(eng):
    return [e for e in eng.path.events if e[0] == "error"]


def warnings(eng):
    return [e for e in eng.path.events if e[0] == "warning"]


# ---------------------------------------------------------------- tokens and state
def mk_token(eng, clsname, module="types", **attrs):
    cls = eng.resolve_global(eng.load_module(module), clsname)
    o = Obj(cls, name=clsname.lower())
    o.attrs.update(attrs)
    ccls = eng.resolve_global(eng.load_module("context"), "Context")
    o.attrs.setdefault("ctx_start", Obj(ccls, dict(filename="f.mac", code=Opaque("code"), pos=0), name=clsname.lower() + ".ctx_start"))
    o.attrs.setdefault("ctx_end", Obj(ccls, dict(filename="f.mac", code=Opaque("code"), pos=0), name=clsname.lower() + ".ctx_end"))
    return o


def value_token(eng, value, name="arg"):
    """an ExpressionToken of no particular subclass whose resolve(state) yields `value`
    (an int term, a Dyn, or a Lazy of either) - the assumed contract of expression evaluation"""
    t = mk_token(eng, "ExpressionToken")
    t.name = name
    t.attrs["resolve"] = Builtin("resolve", lambda eng_, state, _v=value: _v)
    t.attrs["text"] = Builtin("text", lambda eng_: Opaque("text"))
    return t


def dyn_input(eng, name):
    """a dynamically typed operand value: an arbitrary integer or a non-integer"""
    v = z3.Int(name)
    isint = z3.Bool(name + "_isint")
    eng.inputs[name] = v
    eng.inputs[name + "_isint"] = isint
    return Dyn(isint, v), v, isint


def int_input(eng, name):
    v = z3.Int(name)
    eng.inputs[name] = v
    return v


def insn_token(eng, mnemonic="insn", operands=()):
    name = mk_token(eng, "Symbol", name=mnemonic, is_necessarily_label=False)
    return mk_token(eng, "Instruction", name=name, operands=list(operands))


# ---------------------------------------------------------------- callee contract: metacommand_impl.get_as_int (Appendix A.1)
def contract_get_as_int(eng, state, what, token, arg_token, bitness, unsigned, default=None, cycle_is_reported=True):
    """Assumed at call sites; proved against the real body in contracts/c06.py unit get_as_int[*]."""
    eng.assumptions.add("callee contract assumed: metacommand_impl.get_as_int (A.1) - discharged by C06 unit get_as_int")
    v = eng.call(eng.getattr(arg_token, "resolve"), [state], {})
    v = contract_wait(eng, v)
    if isinstance(v, Dyn):
        if not eng.branch(v.is_int):
            eng.path.events.append(("error", "type-mismatch"))
            raise PyRaise(Exc("RecoverableError"))
        v = v.ival
    elif not (isinstance(v, int) or is_sym(v)):
        eng.path.events.append(("error", "type-mismatch"))
        raise PyRaise(Exc("RecoverableError"))

    def refuse():
        eng.path.events.append(("error", "value-out-of-bounds"))
        if default is None:
            raise PyRaise(Exc("RecoverableError"))
        return default
    if unsigned and eng.truth(v < 0):
        return refuse()
    if bitness is None:
        return v
    P = 2 ** bitness if isinstance(bitness, int) else pow2(bitness)
    if eng.truth(v <= -P):
        return refuse()
    if eng.truth(v >= P):
        return refuse()
    if isinstance(v, int) and isinstance(P, int):
        return v % P
    r = z3.Int("gai!%d" % eng.fresh_n)
    eng.fresh_n += 1
    eng.assume(r == fmod(v, P))
    eng.assume(r >= 0)
    eng.assume(r < P)
    return r


def contract_wait(eng, v):
    """deferred.wait in hybrid mode: the abstraction's Lazy yields its final value; real BaseDeferred objects (Promise, LinearPolynomial,
    Concatenator) are awaited through their real wait() - the loop of the real function"""
    for _ in range(64):
        if isinstance(v, Lazy):
            v = v.final
        elif isinstance(v, Obj) and isinstance(v.cls, ClassV) and any(k.name == "BaseDeferred" for k in v.cls.mro()):
            v = eng.call(eng.getattr(v, "wait"), [], {})
        else:
            return v
    raise Unsupported("wait() did not terminate in 64 steps")


def use_callee_contracts(eng, *names):
    table = {"get_as_int": contract_get_as_int, "wait": contract_wait}
    for n in names:
        eng.contracts[n] = table[n]


# ---------------------------------------------------------------- closed facts from the real, imported package
_FACTS = {}


def native_facts(tree):
    """facts that the package derives by reflection at import time (typing hints, decorator
    registries), read from the real imported package under the tests' interpreter"""
    if tree in _FACTS:
        return _FACTS[tree]
    from pyvc import driver
    code = r'''
from pdpy11 import builtins as _b
from pdpy11.metacommand_impl import metacommands
from pdpy11.types import CodeBlock
from pdpy11.insns import instructions
from pdpy11 import operators
mc = {}
for name, cmd in metacommands.items():
    mc[name] = dict(fn=cmd.fn.__name__, name=cmd.name, raw=cmd.raw, literal=cmd.literal_string_operand,
        size=("callable" if callable(cmd.size) else cmd.size), min=cmd.min_operands,
        max=(None if cmd.max_operands == float("+inf") else cmd.max_operands), takes_code_block=cmd.takes_code_block,
        operand_info=[dict(type=("CodeBlock" if oi["type"] is CodeBlock else oi["type"].__name__), hint=getattr(oi["hint"], "__name__", str(oi["hint"])), name=oi["name"]) for oi in cmd.operand_info])
ins = {}
for key, (name, insn) in instructions.container.items():
    ins[name] = dict(pattern=insn.opcode_pattern, operands=[dict(cls=type(s).__name__, char=s.pattern_char, bits=list(s.bit_indexes), unsigned=getattr(s, "unsigned", None)) for s in insn.operands])
ops = {}
for kind, table in operators.operators.items():
    for key, (char, cls) in table.container.items():
        ops[kind.__name__ + ":" + char] = dict(name=cls.__name__, precedence=cls.precedence, associativity=cls.associativity, awaited=cls.awaited, pure=cls.pure, token=cls.token,
                                               return_type=getattr(cls.return_type, "__name__", None))
result = dict(metacommands=mc, instructions=ins, operators=ops)
'''
    res = driver.native([{"kind": "py", "code": code}], tree)[0]
    if res["status"] != "ok":
        raise RuntimeError("native facts failed: %s" % res)
    _FACTS[tree] = res["result"]
    return res["result"]


# ---------------------------------------------------------------- abstract view of (possibly lazy) values
def view(eng, v):
    """final value F(v): ints/bytes are themselves; Lazy -> final; ghost-annotated real objects -> their ghost; LinearPolynomial and
    Concatenator structurally (justified by the deferred.py units: wait(x) == view(x))"""
    if isinstance(v, Lazy):
        return view(eng, v.final)
    if isinstance(v, Obj) and isinstance(v.cls, ClassV):
        if "_final" in v.attrs:
            return v.attrs["_final"]
        if "_sigma" in v.attrs:
            return v.attrs["_sigma"]
        n = v.cls.name
        if n == "LinearPolynomial":
            tot = v.attrs["constant_term"]
            for k, c in v.attrs["coeffs"].items():
                tot = tot + c * view(eng, k)
            return tot
        if n == "Concatenator":
            parts = [zbytes(view(eng, p)) for p in v.attrs["lst"]]
            return parts[0] if len(parts) == 1 else z3.Concat(*parts)
        if n in ("Deferred", "SizedDeferred", "Promise") and v.attrs.get("settled") is True:
            return view(eng, v.attrs["value"])
        raise Unsupported("view of %r" % (v,))
    if hasattr(v, "v"):
        return v.v
    return v


def announced(eng, c):
    """what the address accounting adds for chunk c: len(c) for ready bytes, view(c.length()) for deferred ones"""
    if isinstance(c, (Lazy,)) or (isinstance(c, Obj) and isinstance(c.cls, ClassV)):
        return view(eng, eng.call(eng.getattr(c, "length"), [], {}))
    return slen(c)


def sym_error_marker(eng, ident="error"):
    """ghost: 'at least one error was reported in the iterations abstracted by a loop cut'"""
    e = eng.fresh_bool("loop_err")
    eng.path.events.append(("sym-error", ident, e))
    return e


def err_cond(eng):
    """z3 condition 'an error-severity report was issued on this path' (concrete events and loop-abstracted markers)"""
    conc = any(e[0] == "error" for e in eng.path.events)
    syms = [e[2] for e in eng.path.events if e[0] == "sym-error"]
    return z3.Or([z3.BoolVal(conc)] + syms)
