"""C01 - Machine-code fidelity of every instruction form.

closed:  insns.init() table == spec/pdp11_isa.py (independent), synonyms identical
lemma:   pdp11_decode(spec encoding) recovers operation, fields, order (exhaustive); bit recomposition steps
vc:      try_as_register, try_accumulator_from_symbol, the five operand stubs per operand shape,
         Instruction.compile_insn + get_opcode for each of the 252 mnemonics (ready and lazy operands)
"""
import z3
from contracts.common import *  # noqa
from contracts import structure
from contracts.structure import *  # noqa
from contracts.deferred_c import *  # noqa
from contracts import common, insn
from contracts.insn import *  # noqa  (unit functions are looked up in this module by the driver)
from pyvc import driver

ID = "C01"
EXPLANATION = ("Register numbers, operand values, inline field values, addresses are symbolic over Z; mnemonics (252) and operand shapes "
               "(the parser's skeletons, A2) are finite and enumerated completely. compile_insn is verified against the stubs' contracts, "
               "each stub against its own body.")
TRUSTED = ["pyvc engine semantics of the Python subset (A1)", "z3 (A7)",
           "spec/pdp11_isa.py + spec/pdp11_decode.py are the statement of the property (A6); rows without an independent source: "
           "medlsi, u3000, mns, msn, mpp, mrs (internal consistency only)",
           "closed facts (instruction table after init()) read from the imported real package under /venv/bin/python",
           "struct.pack('<H') model"]
ASSUMPTIONS = ["A2: the parser produces only the operand skeletons enumerated in contracts/insn.py (shape_build), one per source spelling",
               "A3: Deferred/SizedDeferred construct contract (DESIGN section 4)",
               "expression leaves: resolve(state) returns an arbitrary integer, ready or lazy (assumed contract; C03/C05 own evaluation)",
               "a register number written '%e' whose value is not yet known (lazy) is excluded here by precondition; owned by C08 (finding D7)"]

REG_SHAPES = ["Rn", "%e", "(Rn)", "e", "#e"]


def units(tier):
    from spec import pdp11_isa as isa
    us = [("init-table", "unit_init_closed", {}), ("decode-lemma", "unit_decode_lemma", {}), ("bit-lemmas", "unit_bit_lemmas", {}),
          ("try_as_register", "unit_try_as_register", {}), ("try_accumulator", "unit_try_accumulator", {})]
    for sh in insn.CPU_SHAPES:
        for lazy in (False, True):
            us.append(("rm[%s,%s]" % (sh, lazy), "unit_rm_encode", dict(shape=sh, lazy=lazy)))
            if sh not in ("Rn", "%e"):
                us.append(("frm[%s,%s]" % (sh, lazy), "unit_rm_encode", dict(shape=sh, lazy=lazy, fp=True)))
    for sh in insn.PCT_SHAPES:        # the register written %e inside every addressing form, also behind an index expression
        for rl in (False, True):
            us.append(("rm-pct[%s,%s]" % (sh, rl), "unit_rm_pct", dict(shape=sh, reg_lazy=rl)))
    for sh in REG_SHAPES:
        us.append(("reg[%s]" % sh, "unit_reg_encode", dict(shape=sh)))
    for which in ("rm", "ac"):
        for sh in ["acN", "Rn", "%e"] + (["(Rn)", "e"] if which == "ac" else []):
            us.append(("fp-%s[%s]" % (which, sh), "unit_fp_encode", dict(which=which, shape=sh)))
    for bits, uns in [(3, True), (6, True), (8, False)]:
        for hashed in (False, True):
            for lazy in (False, True):
                us.append(("imm[%d,%s,%s,%s]" % (bits, uns, hashed, lazy), "unit_imm_encode", dict(bits=bits, unsigned=uns, hashed=hashed, lazy=lazy)))
    for m in sorted(isa.ISA):
        for lazy in (False, True):
            us.append(("insn[%s,%s]" % (m, lazy), "unit_compile_insn", dict(mnemonic=m, lazy=lazy)))
    # "every branch displacement": the 8-bit signed and the 6-bit SOB displacement field over all integers (units shared with C04)
    for bits, uns in [(8, False), (6, True)]:
        for sh in insn.BRANCH_SHAPES:
            for lazy in (False, True):
                us.append(("offset[%d,%s,%s,%s]" % (bits, uns, sh, lazy), "unit_offset_encode", dict(bits=bits, unsigned=uns, shape=sh, lazy=lazy)))
    for m in ("halt", "clr", "mov", "ldf"):
        for d in (-1, 1):
            if m == "halt" and d == -1:
                continue
            us.append(("insn-arity[%s,%+d]" % (m, d), "unit_compile_insn", dict(mnemonic=m, lazy=False, arity_delta=d)))
    # whole programs: the statement holds wherever a statement stands (repeat body, included / linked file, any block) - contracts/structure.py
    us += structure.units()
    us += structure.expr_units()
    us += structure.kernel_units()
    return us


def canary(eng):
    """must fail: claims mov's source field sits at bits 5..0"""
    def run(eng):
        eng.I = {}
        return None

    def post(eng, outcome):
        f = z3.Int("f")
        eng.assume(z3.And(f >= 0, f < 64))
        eng.prove("canary-wrong-field-position", 0o010000 + f * 64 == 0o010000 + f)
    return verify(eng, "canary", run, post, func="canary")


# ------------------------------------------------------------------ replay
def oct_lit(v):
    return ("-%o" % -v) if v < 0 else ("%o" % v)


RM_SPELL = {0: "r%d", 1: "(r%d)", 2: "(r%d)+", 3: "@(r%d)+", 4: "-(r%d)", 5: "@-(r%d)", 6: "123(r%d)", 7: "@123(r%d)"}


def spell_field(kind, v):
    """source spelling whose inline field is v (and, for mode 6/7, the extension word 000123)"""
    if kind == "reg":
        return "r%d" % v
    if kind in ("rm", "frm"):
        mode, reg = v >> 3, v & 7
        if kind == "frm" and mode == 0:
            return "ac%d" % reg
        return RM_SPELL[mode] % reg
    if kind == "ac":
        return "ac%d" % v
    if kind == "off8":
        s = v - 256 if v >= 128 else v
        return ".+" + oct_lit(2 + 2 * s) if 2 + 2 * s >= 0 else ".-" + oct_lit(-(2 + 2 * s))
    if kind == "off6u":
        d = 2 - 2 * v
        return ".+" + oct_lit(d) if d >= 0 else ".-" + oct_lit(-d)
    return oct_lit(v)


def replay_insn(mnemonic, fvals, tree):
    from spec import pdp11_isa as isa, pdp11_decode as dec
    base, fmt, _ = isa.ISA[mnemonic]
    fs = isa.FORMATS[fmt]
    fvals = [v % (1 << w) for v, (_, _, w) in zip(fvals, fs)]
    src = mnemonic + " " + ", ".join(spell_field(k, v) for (k, _, _), v in zip(fs, fvals)) + "\n"
    job = {"kind": "asm", "sources": [src]}
    res = driver.native([job], tree)[0]
    canon = dec.CANON.get(mnemonic, mnemonic)
    exp = (canon, list(fvals))
    if canon in dec.MACROS:
        opn, fn = dec.MACROS[canon]
        exp = (opn, fn(list(fvals)))
    n_ext = sum(dec.ext_words(v) for (k, _, _), v in zip(fs, fvals) if k in ("rm", "frm"))
    legal = all(not (k in ("frm",) and (v >> 3) == 0 and (v & 7) > 5) for (k, _, _), v in zip(fs, fvals))
    obs = None
    ok = False
    if res["status"] == "ok":
        code = bytes.fromhex(res["code_hex"])
        if len(code) >= 2:
            w = code[0] | code[1] << 8
            obs = [list(dec.decode(w)), len(code)]
            ok = dec.decode(w) == (exp[0], exp[1]) and len(code) == 2 + 2 * n_ext
    else:
        obs = [res["status"], res.get("diags")]
        ok = not legal
    return dict(jobs=[job], source=src, expected=[exp[0], exp[1], 2 + 2 * n_ext], observed=obs, reproduced=not ok)


def replay_accumulator_name(o, tree):
    """a symbol spelled like the unit's name as FP11 operand: an accumulator name encodes that accumulator, anything else is an ordinary
    symbol (defined here) - never an internal exception"""
    name = o["unit"].split("[", 1)[1].rstrip("]")
    if not name.replace("_", "a").isalnum():
        return None
    srcs = ["%s: ldf %s, ac1\n" % ("lab" if name.lower()[:2] == "ac" and name[2:] in list("012345") else name, name), "ldf (r0), %s\n" % name]
    jobs = [{"kind": "asm", "sources": [s_]} for s_ in srcs]
    res = driver.native(jobs, tree)
    acc = name.lower()[:2] == "ac" and name[2:] in list("012345")
    exp0 = ["ok", (0o172400 + 0o100 + int(name[2:])).to_bytes(2, "little").hex()] if acc else ["ok", None]
    obs = [[r["status"], r.get("code_hex") or r.get("exc")] for r in res]
    bad = any(r["status"] == "crash" for r in res) or (acc and obs[0] != exp0) or (not acc and res[0]["status"] != "ok")
    return dict(jobs=jobs, expected="accumulator names encode the accumulator; other names are ordinary symbols; never a crash", observed=obs, reproduced=bad)


def replay_rel(mnemonic, tree):
    """every rm/frm operand spelled as a forward-referenced PC-relative label (evaluated late): each extension word must be
    target - (address of that word + 2), i.e. every operand must see ITS OWN rel_address when its closure finally runs"""
    from spec import pdp11_isa as isa
    fs = isa.FORMATS[isa.ISA[mnemonic][1]]
    n_ext = sum(1 for k, _, _ in fs if k in ("rm", "frm"))
    if not n_ext:
        return None
    ops, i = [], 0
    for k, _, wd in fs:
        if k in ("rm", "frm"):
            ops.append("t%d" % i)
            i += 1
        else:
            ops.append(spell_field(k, {"reg": 1, "ac": 1}.get(k, 1) % (1 << wd)))
    src = ".link 1000\n%s %s\n" % (mnemonic, ", ".join(ops)) + "".join("t%d: .word 0\n" % j for j in range(n_ext))
    job = {"kind": "asm", "sources": [src]}
    res = driver.native([job], tree)[0]
    exp = []
    for j in range(n_ext):
        ext_addr = 0o1000 + 2 + 2 * j
        target = 0o1000 + 2 + 2 * n_ext + 2 * j
        exp.append((target - (ext_addr + 2)) % 65536)
    obs = None
    if res["status"] == "ok":
        code = bytes.fromhex(res["code_hex"])
        obs = [code[2 + 2 * j] | code[3 + 2 * j] << 8 for j in range(n_ext)] if len(code) >= 2 + 2 * n_ext else ["short image", res["code_hex"]]
    else:
        obs = [res["status"], res.get("diags")]
    return dict(jobs=[job], source=src, expected_extension_words=exp, observed=obs, reproduced=obs != exp)


def replay(o, tree):
    r_ = None if o.get("_shared_replay") else structure.replay(dict(o, _shared_replay=True), tree)
    if r_ is not None and r_.get("reproduced"):
        return r_
    cfg = o.get("cfg") or {}
    w = o.get("witness") or {}
    from spec import pdp11_isa as isa
    if o.get("unit", "").startswith("try_accumulator_from_symbol["):
        return replay_accumulator_name(o, tree)
    if cfg.get("kind") == "pct":
        from contracts import c10
        return c10.replay(o, tree)
    if cfg.get("kind") == "offset":
        from contracts import c04
        return c04.replay_offset(cfg, w, tree)
    if cfg.get("kind") == "insn" and (o.get("label", "").startswith("rel-address-operand") or o.get("label", "").startswith("state-otherwise-unchanged")):
        r = replay_rel(cfg["mnemonic"], tree)
        if r is not None and r["reproduced"]:
            return r
    if cfg.get("kind") == "insn":
        fs = isa.FORMATS[isa.ISA[cfg["mnemonic"]][1]]
        return replay_insn(cfg["mnemonic"], [w.get("f%d" % i, 0) for i in range(len(fs))], tree)
    if cfg.get("kind") == "closed":
        lab = cfg.get("label", "")
        if "[" in lab:
            m = lab.split("[")[1].split("]")[0].split("=")[0]
            if m in isa.ISA:
                fs = isa.FORMATS[isa.ISA[m][1]]
                # a distinctive value per field so that swapped or shifted fields show
                vals = [{"reg": 6, "rm": 0o23, "frm": 0o34, "ac": 2, "off8": 0o175, "off6u": 0o13, "immu": 5, "imms": 0o105}[k] % (1 << wd) for k, _, wd in fs]
                return replay_insn(m, vals, tree)
        return None
    if cfg.get("kind") == "fp" and cfg.get("shape") == "acN":
        n = w.get("acn", 0)
        if cfg["which"] == "ac":
            return replay_insn("ldf", [0o11, n], tree) if n < 4 else _replay_acc_truncation(n, tree)
        return replay_insn("clrf", [n], tree)
    if cfg.get("kind") == "rm":
        return replay_rm(cfg, w, tree)
    if cfg.get("kind") == "imm":
        return replay_imm(cfg, w, tree)
    return None


def _replay_acc_truncation(n, tree):
    """the 2-bit accumulator field cannot hold ac4/ac5: the spec demands an error"""
    src = "ldf (r1), ac%d\n" % n
    job = {"kind": "asm", "sources": [src]}
    res = driver.native([job], tree)[0]
    return dict(jobs=[job], source=src, expected=["fail"], observed=[res["status"], res.get("code_hex")], reproduced=res["status"] == "ok")


SHAPE_SPELL = {"Rn": "r{r}", "%e": "%{n}", "(Rn)": "(r{r})", "@Rn": "@r{r}", "(Rn)+": "(r{r})+", "@(Rn)+": "@(r{r})+", "-(Rn)": "-(r{r})",
               "@-(Rn)": "@-(r{r})", "e(Rn)": "{e}(r{r})", "@e(Rn)": "@{e}(r{r})", "@(Rn)": "@(r{r})", "#e": "#{e}", "@#e": "@#{e}", "@e": "@{e}", "e": "{e}",
               "a+b(Rn)": "{a}+{b}(r{r})", "a-b(Rn)": "{a}-{b}(r{r})", "@a+b(Rn)": "@{a}+{b}(r{r})", "-a(Rn)": "-{a}(r{r})"}
SHAPE_MODE = {"Rn": 0, "%e": 0, "(Rn)": 1, "@Rn": 1, "(Rn)+": 2, "@(Rn)+": 3, "-(Rn)": 4, "@-(Rn)": 5, "e(Rn)": 6, "@e(Rn)": 7, "@(Rn)": 7,
              "#e": 0o27, "@#e": 0o37, "@e": 0o77, "e": 0o67, "a+b(Rn)": 6, "a-b(Rn)": 6, "@a+b(Rn)": 7, "-a(Rn)": 6}


def replay_rm(cfg, w, tree):
    shape = cfg["shape"]
    r = w.get("r", 0) % 8
    vals = {k: w.get(k, 0) for k in ("e", "a", "b", "n")}
    def num(v):
        return ("<-%o>" % -v) if v < 0 else "%o" % v
    text = SHAPE_SPELL[shape].format(r=r, e=num(vals["e"]), a=num(vals["a"]), b=num(vals["b"]), n=num(vals["n"]))
    rel = w.get("rel", 0o1002)
    base = rel - 2 if 0 <= rel - 2 < 65536 and rel % 2 == 0 else 0o1000
    fp = bool(cfg.get("fp"))
    # the floating-point form of the same field: 'tstf <operand>' (170500 + field) instead of 'clr <operand>' (005000 + field)
    src = ".link %o\n%s %s\n" % (base, "tstf" if fp else "clr", text)
    job = {"kind": "asm", "sources": [src]}
    res = driver.native([job], tree)[0]
    mode = SHAPE_MODE[shape]
    if shape == "%e":
        ok_in = 0 <= vals["n"] < 8
        field, ext = vals["n"], None
    else:
        field = mode if mode > 7 else mode * 8 + r
        ev = {"e(Rn)": vals["e"], "@e(Rn)": vals["e"], "#e": vals["e"], "@#e": vals["e"], "a+b(Rn)": vals["a"] + vals["b"], "a-b(Rn)": vals["a"] - vals["b"],
              "@a+b(Rn)": vals["a"] + vals["b"], "-a(Rn)": -vals["a"]}.get(shape)
        ok_in = True
        ext = None
        if shape == "@(Rn)":
            ext = 0
        elif ev is not None:
            ok_in = -65536 < ev < 65536
            ext = ev % 65536
        elif shape in ("e", "@e"):
            ext = (vals["e"] - (base + 2) - 2) % 65536
    if ok_in:
        code = ((0o170500 if fp else 0o005000) + field).to_bytes(2, "little") + (b"" if ext is None else ext.to_bytes(2, "little"))
        exp = ["ok", code.hex()]
    else:
        exp = ["fail"]
    obs = [res["status"]] + ([res["code_hex"]] if res["status"] == "ok" else [])
    return dict(jobs=[job], source=src, expected=exp, observed=obs, diags=res.get("diags"), reproduced=obs != exp)


def replay_imm(cfg, w, tree):
    v = w.get("e", 0)
    m = {3: "spl", 6: "mark", 8: "emt"}[cfg["bits"]]
    base = {3: 0o000230, 6: 0o006400, 8: 0o104000}[cfg["bits"]]
    src = "%s %s%s\n" % (m, "#" if cfg["hashed"] else "", ("<-%o>" % -v) if v < 0 else "%o" % v)
    P = 2 ** cfg["bits"]
    ok_in = (0 <= v < P) if cfg["unsigned"] else (-P < v < P)
    exp = ["ok", (base + v % P).to_bytes(2, "little").hex()] if ok_in else ["fail"]
    job = {"kind": "asm", "sources": [src]}
    res = driver.native([job], tree)[0]
    obs = [res["status"]] + ([res["code_hex"]] if res["status"] == "ok" else [])
    return dict(jobs=[job], source=src, expected=exp, observed=obs, reproduced=obs != exp)


def witness_D13(tree):
    r = _replay_acc_truncation(4, tree)
    return r["reproduced"], "ldf (r1), ac4 -> %s" % (r["observed"],)


FINDING_WITNESS = {"D13": witness_D13}
