"""C03 - Symbol values do not depend on definition order.

vc with a prophecy predicate (defined_later):  Symbol._resolve returns a binding only if it is the binding in the FINAL tables, else it is
  not-ready (speculatively) - so a reference yields the same value whether the definition precedes or follows it;
  compile_assignment binds the value to the expression evaluated in the DEFINITION-site state, lazily (no late-bound captured variable);
  Deferred._wait settles once (the real deferred.py); operator resolve() denotes fn(values) whether computed now or deferred (C05 units);
  tables only grow and never overwrite (compile_label / compile_assignment / declare_external_symbol: duplicate => no change)
lemma: with these, the value of a reference is a function of the final tables and the definition-site expressions only
rac:   programs and their reordered variants on the real assembler, chains of depth 300 (testing, separate)
"""
import z3
from contracts.common import *  # noqa
from contracts import structure
from contracts.structure import *  # noqa
from contracts import common, symbols_c, deferred_c, c05
from contracts.symbols_c import *  # noqa
from contracts.deferred_c import *  # noqa
from contracts.c05 import unit_resolve as unit_operator_resolve  # noqa
from pyvc import driver

ID = "C03"
EXPLANATION = "the order quantifier is turned into a prophecy postcondition on one call: 'the binding returned now is the binding of the final table'"
TRUSTED = ["pyvc engine semantics incl. SymMap (A1)", "z3 (A7)"]
ASSUMPTIONS = ["A3: a deferred body aborted by NotReadyError and re-run later has no effect other than diagnostics",
               "Symbol._resolve runs non-speculatively only in the final waits, after every definition has been made",
               "A2: name classes (numeric local labels vs ordinary names)", "Python's recursion limit: chains of depth 300 are a resource question (run-time check only)",
               "equality of the success/failure outcome under reordering is covered only by the run-time check (diagnostic multiplicity is not reasoned about)"]


def unit_lemma(eng):
    def run(eng):
        eng.I = {}
        return None

    def post(eng, o):
        # value(ref) = F(final_table[key]) ; a speculative attempt either returns that or is not ready: two histories with the same final table agree
        v1, v2, fin = z3.Ints("returned_early returned_late final_value")
        early_ready = z3.Bool("early_ready")
        eng.prove("a-reference-resolved-early-equals-the-same-reference-resolved-after-all-definitions",
                  z3.Implies(z3.And(z3.Implies(early_ready, v1 == fin), v2 == fin), z3.Implies(early_ready, v1 == v2)))
    r = verify(eng, "order-independence-lemma", run, post, func="lemma: order independence from the _resolve contract")
    for o_ in r["obligations"]:
        o_["kind"] = "lemma"
    return r


def unit_rac(eng, tier="quick"):
    import itertools
    import random
    import os
    rnd = random.Random(int(os.environ.get("VERIF_SEED", "0") or 0))
    defs = ["a = 10", "b = a + 2", "c = b * 3", "d = <c - a> / 2", "e = d _ 2", "f = e & 377", "g = lab + a", "h = g - lab"]
    body = ["lab: mov #f, r0", ".word a, b, c, d, e, f, h", ".byte a", "mov h(r1), @#g", ".blkb d", ".even", "end: .word end - lab"]
    variants = []
    base_prog = defs + body
    variants.append(base_prog)
    variants.append(body + defs)
    variants.append(list(reversed(defs)) + body)
    for _ in range(6 if tier == "quick" else 60):
        p = defs[:]
        rnd.shuffle(p)
        lines = body[:]
        for d in p:
            lines.insert(rnd.randrange(len(lines) + 1), d)
        variants.append(lines)
    N = 300
    chain_f = ["x0 = 1"] + ["x%d = x%d + 1" % (i, i - 1) for i in range(1, N + 1)] + [".word x%d" % N]
    chain_b = [".word x%d" % N] + ["x%d = x%d + 1" % (i, i - 1) for i in range(N, 0, -1)] + ["x0 = 1"]
    M = 30
    chain_nf = ["y0 = 3"] + ["y%d = <y%d * 3> %% 1777" % (i, i - 1) for i in range(1, M + 1)] + [".word y%d" % M]
    chain_nb = list(reversed(chain_nf))
    jobs = [{"kind": "asm", "sources": ["\n".join(v) + "\n"]} for v in variants + [chain_f, chain_b, chain_nf, chain_nb]]
    res = driver.native(jobs, driver.tree_root(), timeout=900)
    bad = []
    ref = res[0]
    if ref["status"] != "ok":
        bad.append(("reference program", ref["status"], ref.get("diags")))
    for v, r in zip(variants[1:], res[1:len(variants)]):
        if (r["status"], r.get("code_hex")) != (ref["status"], ref.get("code_hex")):
            bad.append((v[:4], r["status"], r.get("exc")))
    cf, cb, nf, nb = res[len(variants):]
    if (cf["status"], cf.get("code_hex")) != ("ok", (N + 1).to_bytes(2, "little").hex()) or (cb["status"], cb.get("code_hex")) != (cf["status"], cf.get("code_hex")):
        bad.append(("additive chain 300", cf["status"], cb["status"], cb.get("exc")))
    if nf["status"] != "ok" or (nb["status"], nb.get("code_hex")) != (nf["status"], nf.get("code_hex")):
        bad.append(("non-linear chain 30", nf["status"], nb["status"]))
    ob = dict(label="reordered-definitions-give-the-same-image-and-outcome;chains-of-depth-300/30", kind="rac", status="proved" if not bad else "failed", secs=0.0, path=[], witness=None,
              detail=str(bad[:3]), events=[], smt2=None, backend="cpython-native", unit="reorder-rac", func="Compiler (run-time check)", cases=len(jobs), cfg=dict(kind="rac"))
    return dict(unit="reorder-rac", func="Compiler (run-time check)", paths=len(jobs), obligations=[ob], wall=0.0)


def unit_use_positions(eng):
    """run-time check of the 'uses in every operand and directive position' clause: one constant used in each kind of position, its definition
    placed before and after the use - same bytes and same outcome.  Finding D44: a statement that is just the symbol (implicit .word)."""
    uses = [".word x", ".byte x", "mov #x, r0", "mov x(r1), r0", "mov @#x, r0", "mov x, r0", ".blkb x", ".repeat x { nop }", ".rad50 <x>", ".ascii <x>", "emt x", "mov %x, r0", ".dword x",
            "br .+x", "y = x + 1\n.word y", ".word x / 2", ".word x _ 1", "1, x", ".align x", ". = . + x"]
    bare = ["x", "x, 1"]
    jobs = []
    for u in uses + bare:
        jobs.append({"kind": "asm", "sources": ["x = 4\n%s\n" % u]})
        jobs.append({"kind": "asm", "sources": ["%s\nx = 4\n" % u]})
    res = driver.native(jobs, driver.tree_root())
    bad, known = [], []
    for i, u in enumerate(uses + bare):
        a, b = res[2 * i], res[2 * i + 1]
        if (a["status"], a.get("code_hex")) != (b["status"], b.get("code_hex")):
            (known if u in bare and "D44" in common.ACTIVE_FINDINGS else bad).append((u, [a["status"], a.get("code_hex")], [b["status"], b.get("code_hex"), [d[1] for d in b.get("diags", [])][:1]]))
    # the same with a second linked file and '.extern all': every placement of the definition in its file gives the same outcome (duplicate-symbol where the
    # other file exports the name, the same bytes where it does not)
    for first in ("k == 1\n.word k\n", "j == 1\n.word j\n", "k:: .word k\n"):
        places = ["k = 2\n.extern all\n.word k\n", ".extern all\nk = 2\n.word k\n", ".extern all\n.word k\nk = 2\n", "k = 2\n.word k\n.extern all\n"]
        rs = driver.native([{"kind": "asm", "sources": [first, p_]} for p_ in places] + [{"kind": "asm", "sources": [p_, first]} for p_ in places], driver.tree_root())
        for half in (rs[:len(places)], rs[len(places):]):
            outs = [(r_["status"], r_.get("code_hex")) for r_ in half]
            if len(set(outs)) != 1:
                bad.append((first, "placements of 'k = 2' around '.extern all' differ", outs))
    status = "failed" if bad else ("known-region" if known else "proved")
    ob = dict(label="a-constant-used-in-each-kind-of-position-gives-the-same-bytes-and-outcome-defined-before-or-after-the-use", kind="rac", status=status, secs=0.0, path=[], witness=None,
              detail=str(dict(new=bad[:4], known_D44=known[:2])), events=[], smt2=None, backend="cpython-native", unit="use-positions-rac", func="Compiler (run-time check)", cases=len(jobs),
              cfg=dict(kind="rac"))
    return dict(unit="use-positions-rac", func="Compiler (run-time check)", paths=len(jobs), obligations=[ob], wall=0.0)


def witness_D44(tree):
    res = driver.native([{"kind": "asm", "sources": ["x = 4\nx\n"]}, {"kind": "asm", "sources": ["x\nx = 4\n"]}], tree)
    return (res[0]["status"], res[0].get("code_hex")) != (res[1]["status"], res[1].get("code_hex")), "'x = 4 / x' -> %s, 'x / x = 4' -> %s" % (res[0]["status"], res[1]["status"])


FINDING_WITNESS = dict(globals().get("FINDING_WITNESS", {}), D44=witness_D44)


def units(tier):
    import itertools
    us = [("rac", "unit_rac", dict(tier=tier)), ("use-positions", "unit_use_positions", {}), ("lemma", "unit_lemma", {}), ("declare_external", "unit_declare_external", {}), ("wait", "unit_wait", {})]
    for sp in (False, True):
        for dn in (False, True):
            us.append(("resolve[%s,%s]" % (sp, dn), "unit_resolve", dict(speculative=sp, digit_name=dn)))
    for what in ("label", "assignment"):
        for local in ((False, True) if what == "label" else (False,)):
            us.append(("define[%s,%s]" % (what, local), "unit_define", dict(what=what, local=local, is_extern=False, extern_all=False)))
    # '.extern all' exports what the file has defined so far: whether a definition stands above or below it must not change the outcome
    for sh in [("sym",), ("all",), ("sym", "all"), ("all", "sym")]:
        us.append((".extern[%s]" % ",".join(sh), "unit_extern", dict(shape=sh)))
    for mode in ("value", "not_ready", "RecoverableError"):
        us.append(("construct[%s]" % mode, "unit_construct", dict(mode=mode, sized=False)))
    for n in ("add", "sub", "mul", "div", "lshift", "and_"):
        for lz in itertools.product((False, True), repeat=2):
            us.append(("operator-resolve[%s,%s]" % (n, lz), "unit_operator_resolve", dict(name=n, lz=lz)))
    # the arithmetic a forward reference goes through while its operands are still unknown: LinearPolynomial's view is preserved by every
    # operation and by the re-simplification in _wait (so the early, structural value and the final value agree whatever the order)
    for name, fn, kw in deferred_c.all_units():
        if name.startswith("poly") or name in ("wait-chain", "promise"):
            us.append((name, fn, kw))
    # whole programs: the statement holds wherever a statement stands (repeat body, included / linked file, any block) - contracts/structure.py
    us += structure.units()
    return us


def canary(eng):
    def run(eng):
        eng.I = {}
        return None
    return verify(eng, "canary", run, lambda eng, o: eng.prove("canary-early-value-always-final", z3.Int("early") == z3.Int("final")), func="canary")


def replay(o, tree):
    r_ = None if o.get("_shared_replay") else structure.replay(dict(o, _shared_replay=True), tree)
    if r_ is not None and r_.get("reproduced"):
        return r_
    import os
    if "late binding" in o.get("label", ""):
        from contracts import c02
        return c02.replay(o, tree)
    if o.get("unit") == "use-positions-rac":
        return None          # evaluated on the real assembler already: the failing use is in the obligation's detail
    if (o.get("cfg") or {}).get("kind") == "poly-nested":
        return deferred_c.replay_poly_nested(o["cfg"], o.get("witness") or {}, tree)
    if (o.get("cfg") or {}).get("kind") == "poly-selfref":
        return deferred_c.replay_poly_selfref(o["cfg"], o.get("witness") or {}, tree)
    if (o.get("cfg") or {}).get("kind") == "wait-chain":
        return deferred_c.replay_wait_chain(tree)
    if (o.get("cfg") or {}).get("kind") == "promise-pending":
        return deferred_c.replay_promise_pending(tree)
    if (o.get("cfg") or {}).get("kind") == "poly-scalar":
        return deferred_c.replay_poly_scalar(o["cfg"], tree, o.get("witness"))
    if (o.get("cfg") or {}).get("kind") == "poly-mul":
        return deferred_c.replay_poly_mul(o["cfg"], o.get("witness") or {}, tree)
    old = os.environ.get("PDPY11_SRC")
    os.environ["PDPY11_SRC"] = tree
    try:
        rr = unit_rac(None, "thorough")["obligations"][0]
        jobs = [{"kind": "asm", "sources": ["X == 5\n", ".byte X\nX = 7\n"]}, {"kind": "asm", "sources": ["X == 5\n", "X = 7\n.byte X\n"]}]
        res = driver.native(jobs, tree)
    finally:
        if old is None:
            os.environ.pop("PDPY11_SRC", None)
        else:
            os.environ["PDPY11_SRC"] = old
    two = [r.get("code_hex") for r in res]
    return dict(jobs=jobs, experiment="definition after/before use across two files + reordering corpus", observed=[two, rr["detail"][:500]], reproduced=two[0] != two[1] or rr["status"] == "failed")
