"""C06 - Data directives store exactly the stated value or refuse.

Functions under contract (real ASTs, re-read every run):
  metacommand_impl.get_as_int                      Appendix A.1, all (bitness, unsigned, default) incl. symbolic bitness
  metacommand_impl.Metacommand.compile_insn (+fn)  operand cooking from annotations, size choice
  metacommands.byte/word/dword/blkb/blkw/even/odd/align/ascii_impl/ascii_/asciz
  compiler.Compiler.compile_word_list (+fn)
"""
import os
import z3
from contracts.common import *  # noqa
from contracts import structure
from contracts.structure import *  # noqa
from contracts.deferred_c import *  # noqa
from contracts import common
from pyvc import driver
from contracts import tokens_c
from contracts.tokens_c import unit_quoted_string, unit_instruction_pointer, unit_angle_char, unit_get_as_str, unit_string_concat  # noqa
from contracts.c14 import unit_closed as unit_bk_tables, unit_encode as unit_bk_encode, unit_charliteral as unit_bk_charliteral  # noqa

ID = "C06"
EXPLANATION = ("Every path of the real function bodies is executed symbolically (values in Z, no bound); operand counts 0..8 are "
               "enumerated (the property's stated quantifier), everything else is symbolic.")
TRUSTED = ["pyvc engine semantics of the Python subset (A1)", "z3 4.x/5.x soundness (A7)",
           "struct.pack model for '<B', '<H' (differentially tested in thorough tier)",
           "str.encode(charset) for stdlib codecs is external: modelled as 'returns some bytes or raises UnicodeEncodeError'",
           "closed facts (operand typing derived by typing/inspect reflection) are read from the imported real package"]
ASSUMPTIONS = ["A2: the directive bodies receive already-parsed operand tokens; escape expansion in quoted strings happens in the parser (outside)",
               "A3: Deferred/SizedDeferred construct contract (DESIGN section 4): fn evaluated once; value or lazy wrapper of it",
               "'.align 0' is an error (value-out-of-bounds) since the fix of finding D6"]

NMAX = 8


# ------------------------------------------------------------------ A.1 get_as_int against its real body
def spec_get_as_int(v, isint, bitness, unsigned, default):
    """python-level spec used by replay: ('raise',) | ('return', value, n_errors)"""
    if not isint:
        return ("raise",)
    bad = (unsigned and v < 0) or (bitness is not None and (v <= -2 ** bitness or v >= 2 ** bitness))
    if bad:
        return ("raise",) if default is None else ("return", default, 1)
    return ("return", v if bitness is None else v % 2 ** bitness, 0)


def unit_get_as_int(eng, bitness, unsigned, default):
    name = "get_as_int[bitness=%s,unsigned=%s,default=%s]" % (bitness, unsigned, default)

    def run(eng):
        use_callee_contracts(eng, "wait")
        f = find_func(eng, "metacommand_impl", ["get_as_int"])
        dyn, v, isint = dyn_input(eng, "v")
        if bitness == "sym":
            bit = int_input(eng, "bitness")
            eng.assume(bit >= 0)
        else:
            bit = bitness
        eng.I = dict(v=v, isint=isint, bit=bit)
        return eng.call(f, [Obj("State", name="state"), "what", value_token(eng, None, "token"), value_token(eng, dyn), bit, unsigned, default], {})

    def post(eng, outcome):
        v, isint, bit = eng.I["v"], eng.I["isint"], eng.I["bit"]
        kind, val = outcome
        if isinstance(val, Dyn):
            val = val.ival
        errs = errors(eng)
        P = None if bit is None else (2 ** bit if isinstance(bit, int) else pow2(bit))
        bad_type = z3.Not(isint)
        neg = z3.And(isint, v < 0) if unsigned else z3.BoolVal(False)
        oob = z3.BoolVal(False) if P is None else z3.And(isint, z3.Not(neg), z3.Or(v <= -P, v >= P))
        ok = z3.And(isint, z3.Not(neg), z3.Not(oob))
        if kind == "raise":
            eng.prove("raise-is-RecoverableError", val.cls == "RecoverableError")
            eng.prove("raise-only-when-invalid", z3.Or(bad_type, z3.And(z3.Or(neg, oob), z3.BoolVal(default is None))))
            eng.prove("raise-has-exactly-one-error-report", len(errs) == 1)
            if errs:
                eng.prove("raise-identifier", z3.If(bad_type, errs[0][1] == "type-mismatch", errs[0][1] == "value-out-of-bounds"))
        elif not errs:
            eng.prove("silent-return-only-when-valid", ok)
            eng.prove("silent-return-is-reduction-mod-2^bitness", val == (v if P is None else fmod(v, P)))
            if P is not None:
                eng.prove("silent-return-in-field-range", z3.And(val >= 0, val < P))
        else:
            eng.prove("error-return-only-with-default", z3.And(z3.Or(neg, oob), z3.BoolVal(default is not None)))
            eng.prove("error-return-is-default", val == default)
            eng.prove("error-return-identifier", len(errs) == 1 and errs[0][1] == "value-out-of-bounds")
        eng.prove("no-warning", len(warnings(eng)) == 0)
    r = verify(eng, name, run, post, func="metacommand_impl.get_as_int")
    # cover: every case of A.1 reached
    seen = set()
    for o in r["obligations"]:
        seen.add(o["label"].split("-")[0])
    need = {"raise", "silent"} | ({"error"} if default is not None and (unsigned or bitness is not None) else set())
    r["cover_missing"] = sorted(need - seen)
    r["replay_cfg"] = dict(bitness=bitness, unsigned=unsigned, default=default)
    for o in r["obligations"]:
        o["cfg"] = dict(kind="get_as_int", bitness=bitness, unsigned=unsigned, default=default)
    return r


def unit_get_cyclic(eng, which, flag):
    """the argument's value depends on itself (wait() raises DeferredCycle): get_as_int / get_as_str report recursive-definition at the
    argument and refuse the statement (RecoverableError) - unless the caller asked for the exception (cycle_is_reported=False: '.link')"""
    name = "%s[cyclic-argument,cycle_is_reported=%s]" % (which, flag)

    def run(eng):
        use_callee_contracts(eng, "wait")
        f = find_func(eng, "metacommand_impl", [which])
        tok = value_token(eng, 0, "arg")

        def cyclic_resolve(e, state):
            raise PyRaise(Exc("DeferredCycle"))
        tok.attrs["resolve"] = Builtin("resolve", cyclic_resolve)
        eng.I = {}
        if which == "get_as_int":
            return eng.call(f, [Obj("State", name="state"), "what", value_token(eng, None, "token"), tok, 16, False], {} if flag is None else {"cycle_is_reported": flag})
        return eng.call(f, [Obj("State", name="state"), "what", value_token(eng, None, "token"), tok], {})

    def post(eng, outcome):
        kind, val = outcome
        errs = [e[1] for e in errors(eng)]
        if flag is False:
            eng.prove("the-cycle-is-handed-to-the-caller-unreported", kind == "raise" and val.cls == "DeferredCycle" and errs == [])
        else:
            eng.prove("a-value-that-depends-on-itself-is-reported-as-recursive-definition-and-the-statement-refused(no internal exception)",
                      kind == "raise" and val.cls == "RecoverableError" and errs == ["recursive-definition"])
    r = verify(eng, name, run, post, func="metacommand_impl.%s" % which)
    for o in r["obligations"]:
        o["cfg"] = dict(kind="selfref", src="x = x / 2\n.word x\n" if which == "get_as_int" else "x = x\n.ascii x\n")
    return r


# ------------------------------------------------------------------ directives through Metacommand.compile_insn
def decorator_kw(eng, modname, fname):
    """keyword arguments of the @metacommand decorator of a directive, evaluated from the real AST"""
    mod = eng.load_module(modname)
    for node in mod["tree"].body:
        if node.__class__.__name__ == "FunctionDef" and node.name == fname:
            kw = {}
            for d in node.decorator_list:
                if isinstance(d, ast.Call):
                    for k in d.keywords:
                        kw[k.arg] = eng.eval(k.value, mod["env"], mod)
            return kw
    raise Unsupported("no function %s in %s" % (fname, modname))


def metacommand_obj(eng, cmd_name):
    """the Metacommand instance registered for cmd_name: fields from the real decorator AST and the
    real function AST; the reflective part (operand_info, min/max operands) is a closed fact read
    from the imported package"""
    facts = native_facts(driver.tree_root())["metacommands"][cmd_name]
    kw = decorator_kw(eng, "metacommands", facts["fn"])
    mcls = eng.resolve_global(eng.load_module("metacommand_impl"), "Metacommand")
    fn = eng.resolve_global(eng.load_module("metacommands"), facts["fn"])
    cb = eng.resolve_global(eng.load_module("types"), "CodeBlock")
    from pyvc.engine import BUILTINS
    tmap = {"int": BUILTINS["int"], "str": BUILTINS["str"], "CodeBlock": cb}
    info = [{"type": tmap[oi["type"]], "hint": Obj("Hint", {"__name__": oi["hint"]}, name="hint:" + oi["hint"]), "name": oi["name"]} for oi in facts["operand_info"]]
    size = kw.get("size")
    # consistency of the closed facts with the decorator AST
    assert (size is None) == (facts["size"] is None), "size fact mismatch"
    return Obj(mcls, dict(fn=fn, size=size, literal_string_operand=kw.get("literal_string_operand", False), name=facts["name"],
                          raw=kw.get("raw", False), min_operands=facts["min"], max_operands=float("+inf") if facts["max"] is None else facts["max"],
                          takes_code_block=facts["takes_code_block"], operand_info=info), name="Metacommand(%s)" % cmd_name)


def run_directive(eng, cmd_name, operand_tokens, addr, extra_state=None):
    use_callee_contracts(eng, "wait", "get_as_int")
    cmd = metacommand_obj(eng, cmd_name)
    insn = insn_token(eng, cmd_name, operand_tokens)
    state = {"insn": insn, "emit_address": addr, "compiler": Obj("Compiler", {"output_charset": "CHARSET"}, name="compiler")}
    if extra_state:
        state.update(extra_state)
    eng.I["cmd"] = cmd
    return eng.call(Bound(cmd, cmd.cls.lookup("compile_insn")), [state, insn], {})


def refused_by_abort(eng, outcome):
    """a refused operand may abort the statement with RecoverableError - always after an error report;
    any other exception, or an abort without a report, fails the obligation"""
    kind, val = outcome
    if kind == "return":
        return False
    eng.prove("only-RecoverableError-escapes-and-only-after-an-error-report", val.cls == "RecoverableError" and len(errors(eng)) >= 1)
    return True


WIDTH = {".byte": (8, 1), ".word": (16, 2), ".dword": (32, 4)}


def spec_unit_bytes(cmd, r):
    """bytes of one stored unit with reduced value r (0 <= r < 2^bits)"""
    if cmd == ".byte":
        return [r]
    if cmd == ".word":
        return [r % 256, r / 256]
    hi, lo = r / 65536, r % 65536     # .dword: high word first, each little-endian
    return [hi % 256, hi / 256, lo % 256, lo / 256]


def unit_data(eng, cmd, n):
    bits, usize = WIDTH[cmd]
    name = "%s[n=%d]" % (cmd, n)

    def run(eng):
        eng.I = {}
        vals = []
        toks = []
        for i in range(n):
            dyn, v, isint = dyn_input(eng, "v%d" % i)
            vals.append((v, isint))
            toks.append(value_token(eng, dyn, "op%d" % i))
        addr = int_input(eng, "addr")
        eng.I.update(vals=vals, addr=addr)
        return run_directive(eng, cmd, toks, addr)

    def post(eng, outcome):
        vals, addr = eng.I["vals"], eng.I["addr"]
        kind, val = outcome
        errs = errors(eng)
        if kind == "raise":
            # a refused operand aborts the statement: RecoverableError, always after an error report
            eng.prove("only-RecoverableError-escapes-and-only-after-an-error-report", val.cls == "RecoverableError" and len(errs) >= 1)
        if kind != "return":
            out = None
        P = 2 ** bits
        fits = z3.And([z3.And(isint, v > -P, v < P) for v, isint in vals]) if vals else z3.BoolVal(True)
        odd = (addr % 2 == 1) if cmd != ".byte" else z3.BoolVal(False)
        if kind == "return":
            out = zbytes(val)
        if not errs:
            eng.prove("accepted-only-when-every-value-fits-and-address-even", z3.And(fits, z3.Not(odd)))
            units = []
            if n == 0:
                units = [0] * usize
                eng.prove("empty-operand-list-warns-implicit-operand", [w[1] for w in warnings(eng)] == ["implicit-operand"])
            else:
                for v, _ in vals:
                    units += spec_unit_bytes(cmd, v % P)
                eng.prove("no-warning", len(warnings(eng)) == 0)
            eng.prove("bytes-are-values-mod-2^%d-little-endian" % bits, out == seq_of(units))
        else:
            eng.prove("refused-only-when-some-value-does-not-fit-or-address-odd", z3.Or(z3.Not(fits), odd))
            eng.prove("refusal-identifiers", all(e[1] in ("type-mismatch", "value-out-of-bounds", "odd-address") for e in errs))
    r = verify(eng, name, run, post, func="metacommands." + cmd[1:])
    for o in r["obligations"]:
        o["cfg"] = dict(kind="data", cmd=cmd, n=n)
    return r


def unit_fill(eng, cmd):
    """.blkb / .blkw / .even / .odd / .align"""
    name = cmd

    def run(eng):
        eng.I = {}
        toks = []
        if cmd in (".blkb", ".blkw", ".align"):
            dyn, v, isint = dyn_input(eng, "v0")
            eng.I.update(v=v, isint=isint)
            toks = [value_token(eng, dyn, "count")]
        addr = int_input(eng, "addr")
        eng.assume(addr >= 0)
        eng.I["addr"] = addr
        return run_directive(eng, cmd, toks, addr)

    def post(eng, outcome):
        addr = eng.I["addr"]
        kind, val = outcome
        if refused_by_abort(eng, outcome):
            eng.prove("abort-only-for-a-bad-count", z3.Not(z3.And(eng.I["isint"], eng.I["v"] >= (1 if cmd == ".align" else 0), eng.I["v"] < (2 ** 16 if cmd != ".align" else eng.I["v"] + 1))))
            return
        errs = errors(eng)
        out = zbytes(val)
        i = z3.Int("i!spec")
        zero = z3.ForAll([i], z3.Implies(z3.And(i >= 0, i < slen(out)), out[i] == 0))
        eng.prove("no-warning", len(warnings(eng)) == 0)
        if cmd in (".even", ".odd"):
            want = 1 if cmd == ".even" else 0
            eng.prove("no-error", len(errs) == 0)
            eng.prove("one-zero-byte-iff-parity-requires", out == z3.If(addr % 2 == want, seq_of([0]), seq_of([])))
            return
        v, isint = eng.I["v"], eng.I["isint"]
        if cmd == ".align":
            okc = z3.And(isint, v >= 1)
            if errs:
                eng.prove("refused-only-a-modulus-that-is-not-a-positive-integer", z3.Not(okc))
                eng.prove("refusal-identifiers", all(e[1] in ("type-mismatch", "value-out-of-bounds") for e in errs))
            else:
                eng.prove("accepted-only-valid-modulus", okc)
                k = slen(out)
                # exists t. addr + k == t * modulus, with the witness t = -floor(-addr / modulus)
                eng.prove("align-pads-to-multiple", addr + k == -fdiv(-addr, v) * v)
                eng.prove("align-pad-is-least", z3.And(k >= 0, k < v))
                eng.prove("fill-is-zero", zero)
            return
        mult = 1 if cmd == ".blkb" else 2
        okc = z3.And(isint, v >= 0, v < 2 ** 16)
        if errs:
            eng.prove("refused-only-negative-or-too-large-count", z3.Not(okc))
            eng.prove("refusal-identifiers", all(e[1] in ("type-mismatch", "value-out-of-bounds") for e in errs))
        else:
            eng.prove("accepted-only-valid-count", okc)
            eng.prove("fill-length-is-exactly-count", slen(out) == mult * v)
            eng.prove("fill-is-zero", zero)
    r = verify(eng, name, run, post, func="metacommands." + cmd[1:])
    for o in r["obligations"]:
        o["cfg"] = dict(kind="fill", cmd=cmd)
    return r


# ------------------------------------------------------------------ .ascii / .asciz
def sym_str(eng, idx):
    """a string operand chunk: resolve() yields a str whose .encode(charset) is external - returns
    enc<idx> (arbitrary bytes) or raises UnicodeEncodeError"""
    encoded = z3.Const("enc%d" % idx, BYTES)
    fails = z3.Bool("enc%d_fails" % idx)
    eng.inputs["enc%d_fails" % idx] = fails

    def encode(eng_, charset):
        eng_.prove("string-encoded-with-the-selected-output-charset", charset == "CHARSET")
        if eng_.branch(fails):
            raise PyRaise(Exc("UnicodeEncodeError"))
        return encoded
    s = Obj("SymStr", {"encode": Builtin("str.encode", encode)}, name="str%d" % idx)
    tok = value_token(eng, s, "chunk%d" % idx)
    return tok, encoded, fails


def unit_ascii(eng, cmd, shape):
    """shape: string over {'s','n'}: s = quoted-string chunk, n = <expr> raw byte chunk"""
    name = "%s[chunks=%s]" % (cmd, shape or "-")

    def run(eng):
        eng.I = {}
        chunks, spec = [], []
        for i, c in enumerate(shape):
            if c == "s":
                tok, encoded, fails = sym_str(eng, i)
                chunks.append(tok)
                spec.append(("s", encoded, fails))
            else:
                dyn, v, isint = dyn_input(eng, "v%d" % i)
                chunks.append(mk_token(eng, "AngleBracketedChar", expr=value_token(eng, dyn, "expr%d" % i), reported_error=False))
                spec.append(("n", v, isint))
        if len(chunks) == 1:
            operand = chunks[0]
        else:
            operand = mk_token(eng, "StringConcatenation", chunks=chunks)
        eng.I["spec"] = spec
        eng.I["tokens"] = [(t, set(t.attrs)) for t in chunks + [operand]]
        addr = int_input(eng, "addr")
        return run_directive(eng, cmd, [operand], addr)

    def post(eng, outcome):
        spec = eng.I["spec"]
        kind, val = outcome
        # frame: the syntax tree is evaluated once per copy of a repeated body - nothing computed from the state ('.', symbols) may be kept on a token;
        # only once-only diagnostic flags (booleans) are written there
        kept = [(t.name, k) for t, before in eng.I["tokens"] for k in t.attrs if k not in before and not isinstance(t.attrs[k], bool)]
        eng.prove("frame:no-evaluated-value-is-stored-on-the-syntax-tokens%s" % (":" + str(kept) if kept else ""), not kept)
        good0 = z3.And([z3.Not(x[2]) if x[0] == "s" else z3.And(x[2], x[1] >= 0, x[1] < 256) for x in spec]) if spec else z3.BoolVal(True)
        if refused_by_abort(eng, outcome):
            eng.prove("abort-only-when-a-chunk-is-bad", z3.Not(good0))
            return
        errs = errors(eng)
        out = zbytes(val)
        good = z3.And([z3.Not(x[2]) if x[0] == "s" else z3.And(x[2], x[1] >= 0, x[1] < 256) for x in spec]) if spec else z3.BoolVal(True)
        if not errs:
            eng.prove("accepted-only-when-every-chunk-encodable-and-every-<n>-in-0..255", good)
            parts = [x[1] if x[0] == "s" else z3.Unit(x[1]) for x in spec]
            if cmd == ".asciz":
                parts.append(z3.Unit(z3.IntVal(0)))
            want = z3.Empty(BYTES) if not parts else parts[0] if len(parts) == 1 else z3.Concat(*parts)
            eng.prove("bytes-are-chunks-in-order" + ("-plus-one-zero" if cmd == ".asciz" else ""), out == want)
        else:
            eng.prove("refused-only-when-a-chunk-is-bad", z3.Not(good))
            eng.prove("refusal-identifiers", all(e[1] in ("type-mismatch", "value-out-of-bounds", "invalid-character") for e in errs))
        eng.prove("no-warning", len(warnings(eng)) == 0)
    r = verify(eng, name, run, post, func="metacommands.ascii_impl")
    for o in r["obligations"]:
        o["cfg"] = dict(kind="ascii", cmd=cmd, shape=shape)
    return r


# ------------------------------------------------------------------ implicit word list
def unit_word_list(eng, n):
    name = "compile_word_list[n=%d]" % n

    def run(eng):
        use_callee_contracts(eng, "wait", "get_as_int")
        eng.I = {}
        vals, toks = [], []
        for i in range(n):
            dyn, v, isint = dyn_input(eng, "v%d" % i)
            vals.append((v, isint))
            toks.append(value_token(eng, dyn, "w%d" % i))
        addr = int_input(eng, "addr")
        eng.I.update(vals=vals, addr=addr)
        ccls = eng.resolve_global(eng.load_module("compiler"), "Compiler")
        comp = Obj(ccls, name="compiler")
        insn = mk_token(eng, "WordList", words=toks)
        state = {"insn": insn, "emit_address": addr, "compiler": comp}
        return eng.call(Bound(comp, ccls.lookup("compile_word_list")), [insn, toks, state], {})

    def post(eng, outcome):
        vals, addr = eng.I["vals"], eng.I["addr"]
        kind, val = outcome
        errs = errors(eng)
        P = 2 ** 16
        fits = z3.And([z3.And(isint, v > -P, v < P) for v, isint in vals])
        if kind == "raise":
            # compile_word_list has no try/except: a refused word propagates RecoverableError (caught by the statement loop's caller)
            eng.prove("raise-is-RecoverableError-with-an-error-report", val.cls == "RecoverableError" and len(errs) >= 1)
            eng.prove("raise-only-when-some-word-does-not-fit", z3.Not(fits))
            return
        out = zbytes(val)
        if not errs:
            eng.prove("accepted-only-when-every-word-fits-and-address-even", z3.And(fits, addr % 2 == 0))
            units = []
            for v, _ in vals:
                units += spec_unit_bytes(".word", v % P)
            eng.prove("bytes-are-words-mod-2^16-little-endian", out == seq_of(units))
        else:
            eng.prove("refused-only-odd-address", addr % 2 == 1)
            eng.prove("refusal-identifiers", all(e[1] == "odd-address" for e in errs))
    r = verify(eng, name, run, post, func="compiler.Compiler.compile_word_list")
    for o in r["obligations"]:
        o["cfg"] = dict(kind="data", cmd="wordlist", n=n)
    return r


# ------------------------------------------------------------------ closed facts: operand typing of the data directives
EXPECTED_TYPING = {
    ".byte": ("int8", True), ".db": ("int8", True), ".word": ("int16", True), ".dw": ("int16", True), ".dword": ("int32", True),
    ".blkb": ("uint16", False), ".blkw": ("uint16", False), ".align": ("uint", False),
}


def unit_typing(eng):
    facts = native_facts(driver.tree_root())["metacommands"]
    obs = []

    def ob(label, ok, detail=""):
        obs.append(dict(label=label, kind="closed", status="proved" if ok else "failed", secs=0.0, path=[], witness=None,
                        detail=detail, events=[], smt2=None, backend="cpython-eval", cfg=dict(kind="closed")))
    for name, (hint, var) in EXPECTED_TYPING.items():
        f = facts.get(name)
        ob("registered[%s]" % name, f is not None)
        if f is None:
            continue
        oi = f["operand_info"]
        ob("operand-annotation[%s]==%s" % (name, hint), len(oi) == 1 and oi[0]["hint"] == hint and oi[0]["type"] == "int", str(oi))
        ob("arity[%s]" % name, (f["max"] is None) == var and (var or (f["min"], f["max"]) == (1, 1)), str((f["min"], f["max"])))
        ob("not-raw[%s]" % name, f["raw"] is False)
    for name in (".ascii", ".asciz"):
        f = facts.get(name)
        ob("registered[%s]" % name, f is not None and f["raw"] is True and (f["min"], f["max"]) == (1, 1), str(f))
    for name in (".even", ".odd"):
        f = facts.get(name)
        ob("registered[%s]" % name, f is not None and (f["min"], f["max"]) == (0, 0), str(f))
    ob("aliases-share-implementation", facts[".db"]["fn"] == facts[".byte"]["fn"] == "byte" and facts[".dw"]["fn"] == facts[".word"]["fn"] == "word")
    for o in obs:
        o["unit"] = "directive-typing"
        o["func"] = "metacommand_impl.Metacommand.__init__ (closed facts)"
    return dict(unit="directive-typing", func="metacommand_impl.Metacommand.__init__ (closed facts)", paths=1, obligations=obs, wall=0.0)


def canary(eng):
    """must fail: claims get_as_int never reports an error"""
    def run(eng):
        use_callee_contracts(eng, "wait")
        f = find_func(eng, "metacommand_impl", ["get_as_int"])
        dyn, v, isint = dyn_input(eng, "v")
        return eng.call(f, [Obj("State", name="state"), "what", value_token(eng, None, "token"), value_token(eng, dyn), 8, False, None], {})

    def post(eng, outcome):
        eng.prove("canary-no-error-ever", len(errors(eng)) == 0)
    return verify(eng, "canary", run, post, func="canary")


# ------------------------------------------------------------------ unit list
def spec_expand(body):
    """reference escape expansion of the text between the quotes: returns the expanded string, or None if some escape is malformed.
    Escapes: \\n \\r \\t, \\ followed by one of  \\ " ' /  (that character), \\ newline (nothing), \\xHH (two hex digits, immediately)"""
    out, i = [], 0
    while i < len(body):
        ch = body[i]
        if ch != "\\":
            out.append(ch); i += 1; continue
        if i + 1 >= len(body):
            return None
        e = body[i + 1].lower()
        if e in "nrt":
            out.append({"n": "\n", "r": "\r", "t": "\t"}[e]); i += 2
        elif e in "\\\"'/":
            out.append(body[i + 1]); i += 2
        elif e == "\n":
            i += 2
        elif e == "x":
            h = body[i + 2:i + 4]
            if len(h) == 2 and all(c in "0123456789abcdefABCDEF" for c in h):
                out.append(chr(int(h, 16))); i += 4
            else:
                return None
        else:
            return None
    return "".join(out)


def unit_bounded_escapes(eng, tier="quick"):
    """bounded stand-in for the string scanner (parser code, outside the subset): every string body of length <= N over an alphabet with the
    escape-relevant characters, in '.ascii "..."' with charset latin-1: bytes == the reference expansion, a malformed escape is an error"""
    import itertools
    alphabet = ["a", "\\", "x", "4", "1", " ", ";", "\n"] + ([] if tier == "quick" else ["n", "/", "G", "\t"])
    maxlen = 5
    bodies = ["".join(t) for n in range(0, maxlen + 1) for t in itertools.product(alphabet, repeat=n)]
    bodies = [b for b in bodies if "\\" in b]                      # only bodies with a backslash are interesting
    code = r'''
from pdpy11 import reports
from pdpy11.parser import parse
from pdpy11.compiler import Compiler
out = []
for b in %r:
    errs = []
    try:
        with reports.handle_reports(lambda p, i, *l: errs.append(i) if p is not reports.warning else None):
            base, code = Compiler(output_charset="latin-1").compile_and_link_files([parse("t.mac", '.ascii "' + b + '"\n')])
        out.append(["ok", code.hex()])
    except reports.UnrecoverableError:
        out.append(["fail", errs[:1]])
    except Exception as e:
        out.append(["crash", type(e).__name__])
result = out
''' % (bodies,)
    res = driver.native([{"kind": "py", "code": code}], driver.tree_root(), timeout=1800)[0]
    bad = []
    if res["status"] != "ok":
        bad.append(str(res)[:300]); res = {"result": []}
    for b, r in zip(bodies, res["result"]):
        want = spec_expand(b)
        if r[0] == "crash":
            bad.append((b, r))
        elif want is None:
            if r[0] == "ok":
                bad.append((b, "malformed escape accepted", r[1]))
        elif "\n" in want or '"' in b.replace('\\"', ""):
            continue        # an unescaped newline / quote ends the literal: other rules apply
        elif r != ["ok", want.encode("latin-1").hex()]:
            bad.append((b, "expected " + want.encode("latin-1").hex(), r))
    ob = dict(label="string-escapes:bytes==reference-expansion;a-malformed-escape(\\x without two hex digits right after it, unknown letter)-is-an-error", kind="bounded",
              status="proved" if bodies and not bad else "failed", secs=0.0, path=[], witness=None, detail=str(bad[:5]), events=[], smt2=None, backend="cpython-native", unit="bounded-escapes",
              func="parser.string_escape (bounded stand-in)", bound="every string body of length <= %d over %r that contains a backslash (%d bodies)" % (maxlen, alphabet, len(bodies)),
              cases=len(bodies), cfg=dict(kind="bounded"))
    return dict(unit="bounded-escapes", func="parser.string_escape (bounded stand-in)", paths=len(bodies), obligations=[ob], wall=0.0)



# ---- run-time check: seeded random sequences of data directives at every address parity, at top level and as '.repeat' bodies --------------
def _rac_ref(stmts, base, copies):
    """reference emitter written from the property statement; None = the program must be refused (word data at an odd address)"""
    addr, out = base, b""
    for _ in range(copies):
        for st in stmts:
            k = st[0]
            if k == "byte":
                b = bytes(v % 256 for v in st[1])
            elif k == "word":
                if addr % 2:
                    return None
                b = b"".join((v % 65536).to_bytes(2, "little") for v in st[1])
            elif k == "dword":
                if addr % 2:
                    return None
                b = b"".join(((v % 2 ** 32) >> 16).to_bytes(2, "little") + ((v % 2 ** 32) & 0xFFFF).to_bytes(2, "little") for v in st[1])
            elif k == "even":
                b = b"\0" * (addr % 2)
            elif k == "odd":
                b = b"\0" * (1 - addr % 2)
            elif k == "align":
                b = b"\0" * (-addr % st[1])
            elif k == "blkb":
                b = b"\0" * st[1]
            elif k == "blkw":
                if addr % 2:
                    return "undecided"          # '.blkw' at an odd address: the property names word DATA; not decided here
                b = b"\0" * (2 * st[1])
            elif k == "ascii":
                b = st[1].encode("ascii")
            elif k == "asciz":
                b = st[1].encode("ascii") + b"\0"
            addr += len(b)
            out += b
    return out + b"\xff"


def _rac_text(stmts, base_first, copies):
    lines = []
    for st in stmts:
        k = st[0]
        if k in ("byte", "word", "dword"):
            lines.append(".%s %s" % (k, ", ".join(("-%d." % -v) if v < 0 else "%d." % v for v in st[1])))
        elif k in ("even", "odd"):
            lines.append("." + k)
        elif k in ("align", "blkb", "blkw"):
            lines.append(".%s %d." % (k, st[1]))
        else:
            lines.append('.%s "%s"' % (k, st[1]))
    body = "\n".join(lines) + "\n"
    if copies is not None:
        body = ".repeat %d. {\n%s}\n" % (copies, body)
    return ("" if base_first is None else ". = %o\n" % base_first) + body + ".byte 377\n"


def _rac_programs(n, seed):
    import random
    rnd = random.Random(seed)
    progs = []
    for i in range(n):
        stmts = []
        for _ in range(rnd.randrange(1, 5)):
            k = rnd.choice(["byte", "byte", "word", "dword", "even", "odd", "align", "blkb", "blkw", "ascii", "asciz"])
            if k == "byte":
                stmts.append((k, [rnd.choice([0, 1, 255, -255, -1, 128, rnd.randrange(-255, 256)]) for _ in range(rnd.randrange(1, 4))]))
            elif k == "word":
                stmts.append((k, [rnd.choice([0, 65535, -65535, 32768, rnd.randrange(-65535, 65536)]) for _ in range(rnd.randrange(1, 3))]))
            elif k == "dword":
                stmts.append((k, [rnd.choice([2 ** 32 - 1, -(2 ** 32 - 1), 65536, rnd.randrange(-2 ** 32 + 1, 2 ** 32)])]))
            elif k == "align":
                stmts.append((k, rnd.randrange(1, 65)))
            elif k in ("blkb", "blkw"):
                stmts.append((k, rnd.randrange(0, 6)))
            elif k in ("ascii", "asciz"):
                stmts.append((k, "".join(rnd.choice("abXY z09") for _ in range(rnd.randrange(0, 4)))))
            else:
                stmts.append((k,))
        base_first = rnd.choice([None, 0o1000, 0o1001, 0o2004, 0o177000])
        copies = rnd.choice([None, None, 1, 2, 3, 5])
        progs.append((stmts, base_first, copies))
    # fixed cases: odd-sized bodies repeated, at a base known before the '.repeat' and at the default base
    for base_first in (None, 0o1000, 0o1001):
        for copies in (2, 3):
            progs.append(([("word", [2]), ("byte", [1])], base_first, copies))
            progs.append(([("byte", [1]), ("align", 4), ("byte", [2])], base_first, copies))
            progs.append(([("byte", [1]), ("even",), ("byte", [2, 3])], base_first, copies))
            progs.append(([("odd",), ("byte", [7])], base_first, copies))
            progs.append(([("asciz", "ab"), ("even",), ("word", [5])], base_first, copies))
    return progs


def unit_rac(eng=None, tier="quick", tree=None):
    import json
    progs = _rac_programs(150 if tier == "quick" else 1500, int(os.environ.get("VERIF_SEED", "0") or 0))
    jobs, exps = [], []
    for stmts, base_first, copies in progs:
        jobs.append({"kind": "asm", "sources": [_rac_text(stmts, base_first, copies)]})
        exps.append(_rac_ref(stmts, 0o1000 if base_first is None else base_first, 1 if copies is None else copies))
    res = driver.native(jobs, tree or driver.tree_root())
    bad = []
    for j, e, r in zip(jobs, exps, res):
        if e == "undecided":
            continue
        if r["status"] == "crash":
            bad.append(dict(source=j["sources"][0], expected="bytes or a reported error", observed=[r["status"], r.get("exc")]))
        elif e is None:
            if r["status"] != "fail" or "odd-address" not in [d[1] for d in r["diags"]]:
                bad.append(dict(source=j["sources"][0], expected="refused: word data at an odd address", observed=[r["status"], r.get("code_hex")]))
        elif r["status"] != "ok" or r["code_hex"] != e.hex():
            bad.append(dict(source=j["sources"][0], expected=e.hex(), observed=[r["status"], r.get("code_hex"), [d[1] for d in r["diags"]][:2]]))
    # strings: exactly the bytes of the text as written, in the selected charset - also for text that a Unicode normalisation, a case mapping or a
    # "smart" editor would rewrite (combining sequences, compatibility characters); what the charset cannot hold is an error
    texts = ["\u0438\u0306", "\u0435\u0308", "e\u0301", "\u212a", "\u212b", "\u037e", "\u00e9", "\u0439", "\ufb01", "\u1e9e", "\u0130", "A\u030a", "\u2126", "\u00b5", "\u03bc", "\uff21", "\u2460"]
    sjobs, sexp = [], []
    for cs in ("utf-8", "koi8-r", "latin-1", "cp866", "bk"):
        for t in texts:
            for d in (".ascii", ".asciz"):
                sjobs.append({"kind": "asm", "sources": ['%s "%s"\n' % (d, t)], "charset": cs})
                try:
                    if cs == "bk":
                        raise LookupError         # decided by C14's obligations; here only: no silent rewriting (an error, or the bytes of another charset never)
                    sexp.append((t.encode(cs) + (b"\0" if d == ".asciz" else b"")).hex())
                except UnicodeEncodeError:
                    sexp.append(None)
                except LookupError:
                    sexp.append("bk")
    # '.asciz' appends exactly one NUL whatever the payload ends in; '<n>' chunks and escapes are payload
    for src_, hexp in (('.asciz "ab"<0>\n', "61620000"), ('.asciz <0>\n', "0000"), ('.asciz "a\\x00"\n', "610000"), ('.ascii "ab"<0>\n', "616200"), ('.asciz ""\n', "00"), ('.asciz "a"<0><0>\n', "61000000"),
                       ('.asciz <1><0>"b"\n', "01006200")):
        sjobs.append({"kind": "asm", "sources": [src_], "charset": "bk"})
        sexp.append(hexp)
    sres = driver.native(sjobs, tree or driver.tree_root())
    for j, e, r in zip(sjobs, sexp, sres):
        if e == "bk":
            if r["status"] == "ok" and not all(ord(c) < 0x7f or 0x410 <= ord(c) <= 0x44f for c in j["sources"][0].split('"')[1]):
                bad.append(dict(source=j["sources"][0], charset="bk", expected="refused: outside the table", observed=[r["status"], r.get("code_hex")]))
        elif e is None:
            if r["status"] != "fail":
                bad.append(dict(source=j["sources"][0], charset=j["charset"], expected="refused: the charset cannot hold this text", observed=[r["status"], r.get("code_hex")]))
        elif r["status"] != "ok" or r["code_hex"] != e:
            bad.append(dict(source=j["sources"][0], charset=j["charset"], expected=e, observed=[r["status"], r.get("code_hex")]))
    jobs = jobs + sjobs
    ob = dict(label="random-data-directive-sequences(top level and '.repeat' bodies, every address parity)==reference-emitter-or-refused;strings-are-the-bytes-of-the-text-as-written", kind="rac", status="proved" if not bad else "failed", secs=0.0,
              path=[], witness=None, detail=json.dumps(bad[:3])[:1500], events=[], smt2=None, backend="cpython-native", unit="data-rac", func="Compiler (run-time check)", cases=len(jobs), cfg=dict(kind="rac"))
    return dict(unit="data-rac", func="Compiler (run-time check)", paths=len(jobs), obligations=[ob], wall=0.0, bad=bad)


def unit_repeat(eng):
    """address-dependent directives (.even/.odd/.align, word data) inside a '.repeat' body depend on each copy being compiled at its own address:
    the loop contract of metacommands.repeat (contracts/meta_c.py, shared with C16 and C02)"""
    from contracts import meta_c
    return meta_c.unit_repeat(eng)


def unit_text_identity(eng):
    """a string reaches the data directive as it is written in the file: parser.parse hands the file's own text to the scanner (frame, contracts/c17.py)"""
    from contracts import c17
    return c17.unit_text_identity(eng)


def units(tier):
    us = [("rac", "unit_rac", dict(tier=tier)), ("repeat", "unit_repeat", {}), ("text-identity", "unit_text_identity", {})]
    for bit in [None, 3, 8, 16, 32, "sym"]:
        for uns in [False, True]:
            for d in [None, 0]:
                us.append(("get_as_int[%s,%s,%s]" % (bit, uns, d), "unit_get_as_int", dict(bitness=bit, unsigned=uns, default=d)))
    for which, flag in (("get_as_int", None), ("get_as_int", False), ("get_as_str", None)):
        us.append(("%s[cyclic,%s]" % (which, flag), "unit_get_cyclic", dict(which=which, flag=flag)))
    for cmd in WIDTH:
        for n in range(0, NMAX + 1):
            us.append(("%s[%d]" % (cmd, n), "unit_data", dict(cmd=cmd, n=n)))
    for cmd in (".blkb", ".blkw", ".even", ".odd", ".align"):
        us.append((cmd, "unit_fill", dict(cmd=cmd)))
    shapes = [""] if False else []
    for k in range(1, 4):
        import itertools
        shapes += ["".join(p) for p in itertools.product("sn", repeat=k)]
    for cmd in (".ascii", ".asciz"):
        for sh in shapes:
            us.append(("%s[%s]" % (cmd, sh), "unit_ascii", dict(cmd=cmd, shape=sh)))
    for n in range(1, NMAX + 1):
        us.append(("wordlist[%d]" % n, "unit_word_list", dict(n=n)))
    us.append(("directive-typing", "unit_typing", {}))
    us.append(("bounded-escapes", "unit_bounded_escapes", dict(tier=tier)))
    us += tokens_c.all_units()          # what a string operand denotes before it reaches the codec: quoted text, <n> characters, chunk order
    # the codec contract the string directives assume (encode succeeds iff every character is in the charset, bytes pointwise, otherwise the
    # error is reported) is DISCHARGED for the default 'bk' charset by C14's obligations, re-run here; the other charsets are stdlib codecs
    us += [("bk-tables", "unit_bk_tables", {}), ("bk-encode", "unit_bk_encode", {}), ("bk-charliteral", "unit_bk_charliteral", {})]
    # whole programs: the statement holds wherever a statement stands (repeat body, included / linked file, any block) - contracts/structure.py
    us += structure.units()
    us += structure.expr_units()
    us += structure.kernel_units()
    return us


# ------------------------------------------------------------------ replay on the real code
def lit(v):
    return ("-%d." % -v) if v < 0 else ("%d." % v)


def replay(o, tree):
    r_ = None if o.get("_shared_replay") else structure.replay(dict(o, _shared_replay=True), tree)
    if r_ is not None and r_.get("reproduced"):
        return r_
    cfg = o.get("cfg") or {}
    w = o.get("witness") or {}
    if o.get("kind") == "bounded":
        return None
    if cfg.get("kind") == "rac" or o.get("unit", "").startswith(".repeat"):
        r = unit_rac(None, "quick", tree)
        return dict(jobs=None, experiment="C06 run-time corpus (contracts/c06.py unit_rac)", failing=r["bad"][:2], reproduced=bool(r["bad"]))
    if cfg.get("kind") == "anglechar":
        return tokens_c.replay_anglechar(o, tree)
    if cfg.get("kind") == "get_as_int":
        if not w.get("v_isint", True):
            return None
        bit = w.get("bitness") if cfg["bitness"] == "sym" else cfg["bitness"]
        code = r'''
from pdpy11 import reports
from pdpy11.metacommand_impl import get_as_int
class T:
    ctx_start = None; ctx_end = None
    def resolve(self, state): return %d
diags = []
out = None
try:
    with reports.handle_reports(lambda p, i, *l: diags.append(i)):
        try:
            out = ["return", get_as_int({}, "x", T(), T(), %r, %r, %r)]
        except reports.RecoverableError:
            out = ["raise"]
except reports.UnrecoverableError:
    pass
result = [out, diags]
''' % (w["v"], bit, cfg["unsigned"], cfg["default"])
        res = driver.native([{"kind": "py", "code": code}], tree)[0]
        exp = spec_get_as_int(w["v"], True, bit, cfg["unsigned"], cfg["default"])
        obs = res.get("result")
        ok = False
        if res["status"] == "ok" and obs:
            out, diags = obs
            if exp[0] == "raise":
                ok = out == ["raise"] and len(diags) == 1
            else:
                ok = out == ["return", exp[1]] and len(diags) == exp[2]
        return dict(jobs=[{"kind": "py", "code": code}], expected=list(exp), observed=obs, reproduced=not ok)
    if cfg.get("kind") == "data":
        n = cfg["n"]
        cmd = cfg["cmd"]
        vals = [w.get("v%d" % i, 0) for i in range(n)]
        if not all(w.get("v%d_isint" % i, True) for i in range(n)):
            return None
        odd = w.get("addr", 0) % 2 == 1
        src = (".byte 0\n" if odd else "") + ("" if cmd == "wordlist" else cmd + " ") + ", ".join(lit(v) for v in vals) + "\n"
        bits, usize = WIDTH.get(cmd, (16, 2))
        fits = all(-2 ** bits < v < 2 ** bits for v in vals)
        if fits and not (odd and cmd != ".byte"):
            data = b""
            for v in (vals or [0]):
                r = v % 2 ** bits
                if bits == 8:
                    data += bytes([r])
                elif bits == 16:
                    data += r.to_bytes(2, "little")
                else:
                    data += (r >> 16).to_bytes(2, "little") + (r & 0xffff).to_bytes(2, "little")
            exp = ["ok", ((b"\0" if odd else b"") + data).hex()]
        else:
            exp = ["fail"]
        job = {"kind": "asm", "sources": [src]}
        res = driver.native([job], tree)[0]
        obs = [res["status"]] + ([res["code_hex"]] if res["status"] == "ok" else [])
        return dict(jobs=[job], source=src, expected=exp, observed=obs, diags=res.get("diags"), reproduced=obs != exp)
    if cfg.get("kind") == "fill":
        cmd = cfg["cmd"]
        odd = w.get("addr", 0) % 2 == 1
        if not w.get("v0_isint", True):
            return None
        v = w.get("v0")
        pre = 1 if odd else 0
        if cmd in (".even", ".odd"):
            src = (".byte 0\n" if odd else "") + cmd + "\n"
            k = 1 if (odd == (cmd == ".even")) else 0
            exp = ["ok", (b"\0" * (pre + k)).hex()]
        else:
            src = (".byte 0\n" if odd else "") + "%s %s\n" % (cmd, lit(v))
            if cmd == ".align":
                exp = ["fail"] if v < 0 else ["ok", (b"\0" * (pre + ((-(0o1000 + pre)) % v if v else 0))).hex()]
            else:
                exp = ["ok", (b"\0" * (pre + v * (1 if cmd == ".blkb" else 2))).hex()] if 0 <= v < 2 ** 16 else ["fail"]
        job = {"kind": "asm", "sources": [src]}
        res = driver.native([job], tree)[0]
        obs = [res["status"]] + ([res["code_hex"]] if res["status"] == "ok" else [])
        return dict(jobs=[job], source=src, expected=exp, observed=obs, diags=res.get("diags"), reproduced=obs != exp)
    return None
