"""C08 - Every input ends in a result or a reported error.   PARTIAL BY CONSTRUCTION: the property quantifies over all source texts and the
parser is outside the verifier's subset; what is decided here is exception freedom and termination of the functions under contract.

vc:    exception-freedom obligations of the functions under contract - every path ends in a return or an allowed exception (RecoverableError after an error
       report, UnrecoverableError after a critical one, NotReadyError speculatively): the operand stubs for every skeleton incl. register numbers written '%e'
       whose value arrives later (finding D7), the data directives incl. '.align 0', every operator body for all integers, bin output (finding D8), the
       symbol-table functions, compile_block for statement lists of arbitrary length, main_cli (the internal-error path is taken only for an internal exception of
       parse/compile); cycle detection: a deferred value awaiting itself raises DeferredCycle and restores the module state; loop variants (termination) of the
       loops under contract
rac:   grammar-directed random programs with planted faults through the real parser + assembler under a watchdog: outcome is success or failure with at least
       one error report - never an internal exception, never a hang (testing; NOT a decision of the parser's totality)
"""
import itertools
import os
import z3
from contracts.common import *  # noqa
from contracts import common, insn, c06, c05, c13, c15, c14, deferred_c, compiler_c, symbols_c, meta_c, cli_c
from contracts.insn import *  # noqa
from contracts.c06 import unit_fill, unit_data, unit_ascii, unit_word_list, unit_get_as_int, unit_get_cyclic  # noqa
from contracts.c05 import unit_infix_body, unit_prefix_body, unit_number, unit_pseudo_resolve  # noqa
from contracts.c13 import unit_bin  # noqa
from contracts.c14 import unit_encode, unit_charliteral  # noqa
from contracts.c15 import unit_rad50  # noqa
from contracts.deferred_c import unit_awaiting, unit_construct, unit_wait, unit_promise, unit_wait_chain  # noqa
from contracts.compiler_c import unit_compile_block, unit_set_link_address, unit_dispatch  # noqa
unit_include_c = compiler_c.unit_include
from contracts.symbols_c import unit_define, unit_resolve, unit_resolve_register  # noqa
from contracts.meta_c import unit_zero_size, unit_include, unit_insert_file, unit_repeat  # noqa
from contracts.cli_c import unit_main_cli  # noqa
from contracts import literal_c
from contracts.literal_c import unit_string_escape, unit_quoted_literal, unit_literal_closed  # noqa
from pyvc import driver
from contracts import tokens_c
from contracts.tokens_c import unit_quoted_string, unit_instruction_pointer, unit_angle_char, unit_get_as_str, unit_string_concat  # noqa

ID = "C08"
EXPLANATION = ("function-level exception freedom and termination, for all values of the inputs; totality over 'all source texts' is NOT decided "
               "(the parser is outside the subset, except the character-literal scanner: contracts/literal_c.py) - the random-program run-time check is testing")
TRUSTED = ["pyvc engine semantics incl. its models of the builtins' exceptions (A1)", "z3 (A7)"]
ASSUMPTIONS = ["A2: operand / statement skeletons as the parser produces them; the parser itself (regexes, backtracking, recursion) is unverified",
               "A8: recursion depth, memory and time are not modelled", "callee contracts as in the owning properties",
               "character-literal scanner (contracts/literal_c.py): the function bodies of string_escape / single_quoted_literal / double_quoted_literal are verified with the @Parser "
               "wrapper dropped and the primitive parsers (literal, one-character and two-hex-digit regexes, skip_whitespace) replaced by their assumed contracts - `re` semantics of "
               "the two patterns are trusted, the patterns themselves are checked to be the ones in the source; str.lower() facts by enumeration over all code points"]


def unit_align_total(eng):
    """.align for every modulus incl. 0: a result or a reported error (the C06 unit excludes 0 by precondition)"""
    def run(eng):
        eng.I = {}
        dyn, v, isint = dyn_input(eng, "v0")
        eng.I.update(v=v, isint=isint)
        addr = int_input(eng, "addr")
        eng.assume(addr >= 0)
        return c06.run_directive(eng, ".align", [value_token(eng, dyn, "count")], addr)

    def post(eng, o):
        kind, val = o
        if kind == "raise":
            eng.prove("only-RecoverableError-escapes-and-only-after-an-error-report(modulus 0 is an error, not a ZeroDivisionError)", val.cls == "RecoverableError" and len(errors(eng)) >= 1)
        else:
            eng.prove("returns", True)
            if not errors(eng):
                eng.prove("silent-only-for-a-positive-modulus", z3.And(eng.I["isint"], eng.I["v"] >= 1))
    r = verify(eng, ".align[all moduli]", run, post, func="metacommands.align")
    for o_ in r["obligations"]:
        o_["cfg"] = dict(kind="align")
    return r


# ------------------------------------------------------------------ random programs under a watchdog (testing)
def gen_program(rnd, depth=0):
    regs = ["r0", "r1", "r5", "sp", "pc", "%3"]
    syms = ["a", "b", "lab", "x", "1$", "2$", "undefined"]
    nums = ["0", "1", "7", "10", "177777", "200000", "-1", "8", "9.", "0x1f", "^B101", "'a", "\"ab"]

    def expr(d=0):
        k = rnd.random()
        if d > 2 or k < 0.35:
            return rnd.choice(nums + syms + ["."])
        if k < 0.7:
            return "%s %s %s" % (expr(d + 1), rnd.choice(["+", "-", "*", "/", "%", "<<", ">>", "_", "&", "^", "|", "!"]), expr(d + 1))
        if k < 0.8:
            return "%s%s" % (rnd.choice(["-", "~", "+", "^c"]), expr(d + 1))
        return "%s%s%s" % (rnd.choice(["(", "<"]), expr(d + 1), ")" if rnd.random() < 0.9 else ">")

    def operand():
        r = rnd.choice(regs)
        return rnd.choice([r, "(%s)" % r, "(%s)+" % r, "-(%s)" % r, "@(%s)+" % r, "@-(%s)" % r, "%s(%s)" % (expr(), r), "@%s(%s)" % (expr(), r), "#" + expr(), "@#" + expr(),
                           expr(), "@" + expr(), "@" + r, "ac%d" % rnd.randrange(7)])
    lines = []
    for _ in range(rnd.randrange(1, 12)):
        k = rnd.random()
        if k < 0.3:
            m = rnd.choice(["mov", "clr", "add", "jsr", "mul", "xor", "sob", "br", "bne", "emt", "ldf", "stf", "halt", "rts", "mark", "spl", "cmpf", "push", "nosuch"])
            n = rnd.choice([0, 1, 2, 2, 3])
            lines.append("%s %s" % (m, ", ".join(operand() for _ in range(n))))
        elif k < 0.5:
            lines.append("%s %s" % (rnd.choice([".word", ".byte", ".dword", ".blkb", ".blkw", ".align", ".rad50", ".ascii", ".asciz", ".link", ".even", ".odd"]),
                                    ", ".join(rnd.choice([expr(), "\"t<1>x\"", "'q'"]) for _ in range(rnd.randrange(0, 3)))))
        elif k < 0.62:
            lines.append("%s%s" % (rnd.choice(["a", "b", "lab", "1$", "2$"]), rnd.choice([":", "::"])))
        elif k < 0.74:
            s = rnd.choice(["x", "y", "b"])
            rhs = expr()
            # known non-terminating self references are findings D15/D16: keep the generator off them so the watchdog budget is spent elsewhere
            if s in rhs.replace("0x1f", ""):
                rhs = "5"
            lines.append("%s %s %s" % (s, rnd.choice(["=", "=="]), rhs))
        elif k < 0.8 and depth < 2:
            lines.append(".repeat %s { %s }" % (rnd.choice(["0", "2", "3", "x"]), gen_program(rnd, depth + 1).replace("\n", "\n  ")))
        elif k < 0.86:
            lines.append(". = %s" % expr())
        elif k < 0.9:
            lines.append(rnd.choice([".end", ".extern all", ".extern a", "make_raw", ".error boom", ".list", ".page", "; comment", ""]))
        else:
            lines.append(rnd.choice(["mov (, r0", "\"unterminated", ".word ,", "1:", "mov r0 r1", ".repeat 2 {", "}", "^R", ".word 1 +", "<", "clr @", ".ascii", "insert_file \"/nonexistent\""]))
    return "\n".join(lines) + "\n"


def unit_random_programs(eng, tier="quick"):
    import random
    import subprocess
    import json
    rnd = random.Random(int(os.environ.get("VERIF_SEED", "0") or 0))
    n = 300 if tier == "quick" else 3000
    progs = []
    for _ in range(n):
        p = gen_program(rnd)
        if "y" in p and "x" in p:
            # mutual references between the two variables may form a cycle (finding D15): drop one side
            p = p.replace("y =", "yy =").replace("y ==", "yy ==")
        progs.append(p)
    code = r'''
import sys, json, signal
sys.path.insert(0, %r)
from pdpy11 import reports, bk_encoding
from pdpy11.parser import parse
from pdpy11.compiler import Compiler
class TO(Exception): pass
def alarm(*a): raise TO()
signal.signal(signal.SIGVTALRM, alarm)   # CPU time, not wall-clock time: robust on a busy machine
out = []
for src in json.load(sys.stdin):
    diags = []
    signal.setitimer(signal.ITIMER_VIRTUAL, 10)
    try:
        try:
            with reports.handle_reports(lambda p, i, *l: diags.append(i if p is not reports.warning else None)):
                f = parse("/t/r.mac", src)
                base, code = Compiler().compile_and_link_files([f])
            out.append(["ok"])
        except reports.UnrecoverableError:
            out.append(["fail", len([d for d in diags if d])])
        except TO:
            out.append(["timeout"])
        except RecursionError:
            out.append(["crash", "RecursionError"])
        except Exception as e:
            out.append(["crash", "IntStrLimit" if isinstance(e, ValueError) and "integer string conversion" in str(e) else type(e).__name__])
    finally:
        signal.setitimer(signal.ITIMER_VIRTUAL, 0)
print(json.dumps(out))
''' % driver.tree_root()
    bad, known = [], []
    for i in range(0, len(progs), 100):
        chunk = progs[i:i + 100]
        p = subprocess.run(["/venv/bin/python", "-c", code], input=json.dumps(chunk), capture_output=True, text=True, timeout=1500, cwd="/")
        try:
            res = json.loads(p.stdout.strip().splitlines()[-1])
        except Exception:
            bad.append(("harness", p.stderr[-300:]))
            continue
        for src, r in zip(chunk, res):
            if r[0] == "ok" or (r[0] == "fail" and r[1] >= 1):
                continue
            # classify against the open findings of this property
            if r[0] == "crash" and r[1] == "TypeError" and "%" in src and "D7" in common.ACTIVE_FINDINGS:
                known.append("D7")
                continue
            if r[0] in ("timeout", "crash") and ("D15" in common.ACTIVE_FINDINGS or "D16" in common.ACTIVE_FINDINGS) and _self_ref(src):
                known.append("D15/16")
                continue
            if r[0] == "crash" and r[1] == "DeferredCycle" and "D16" in common.ACTIVE_FINDINGS:
                known.append("D16")          # a genuinely cyclic dependency ('. = <expression over later labels>' before the base is known, ...) escapes uncaught
                continue
            if r[0] == "crash" and r[1] == "IntStrLimit" and "D36" in common.ACTIVE_FINDINGS:
                known.append("D36")
                continue
            import re as _re
            if r[0] == "timeout" and _re.search(r"[0-9]{6,}|0x[0-9a-fA-F]{5,}", src):
                known.append("resource")     # an astronomically large shift / count / fill: resource-bound, not decided
                continue
            bad.append((src[:200], r))
    ob = dict(label="random-programs-with-planted-faults-end-in-success-or-failure-with-an-error-report(no crash, no hang)", kind="rac", status=("known-region" if [k for k in known if k != "resource"] else "proved") if not bad else "failed", secs=0.0,
              path=[], witness=None, detail=str(bad[:3]) + (" known-findings hit: %s" % sorted(set(known)) if known else ""), events=[], smt2=None, backend="cpython-native",
              unit="random-programs", func="parser.parse + Compiler (run-time check)", cases=len(progs), cfg=dict(kind="rac"))
    return dict(unit="random-programs", func="parser.parse + Compiler (run-time check)", paths=len(progs), obligations=[ob], wall=0.0)


def _self_ref(src):
    import re
    defs = dict(re.findall(r"^\s*(\w+)\s*==?\s*(.*)$", src, re.M))
    for s, rhs in defs.items():
        seen, todo = set(), [s]
        while todo:
            t = todo.pop()
            for u in re.findall(r"[A-Za-z_]\w*", defs.get(t, "")):
                if u == s:
                    return True
                if u in defs and u not in seen:
                    seen.add(u)
                    todo.append(u)
    return False


def unit_self_reference(eng):
    """definitions that depend on themselves must end in an error (findings D15: hang, D16: DeferredCycle escapes)"""
    import subprocess
    import json
    cases = [("x = x\n.word x\n", "D15"), ("x = y\ny = x\n.word x\n", "D15"), ("x = x + 1\n.word x\n", "D16"), ("x = y + 1\ny = x + 1\n.word x\n", "D16"), ("x = x / 2\n.word x\n", "D16"), ("x = <x & 1> + 1\n.word x\n", "D16"),
             # not used by any statement; used by a branch, a relative operand, an inline field, a string; sizes and counts that depend on a later label; the location counter
             ("x = x\n", "D15"), ("a = b\nb = a\n", "D15"), ("x = x / 2\n", "D16"), ("br x\nx = x\n", "D16"), ("jmp x\nx = x + 1\n", "D16"), ("emt x\nx = x\n", "D16"), ("mov x(r1), r0\nx = -x\n", "D16"),
             (".blkb x\nx:\n", "D16"), (".repeat x { .word 1 }\nx: nop\n", "D16"), (". = . % 4\nnop\n", "D16"), (". = . +\n 4\n", "D16"), (".align x\nx: nop\n", "D16"), ("x = e - s\ns: .blkb x\ne:\n", "D16"),
             (".link 1000\n. = . + x\nx = x\n", "D16"), (".ascii x\nx = \"a\" x\n", "D16")]
    code = r'''
import sys, json, signal
sys.path.insert(0, %r)
from pdpy11 import reports, bk_encoding
from pdpy11.parser import parse
from pdpy11.compiler import Compiler
class TO(Exception): pass
def alarm(*a): raise TO()
signal.signal(signal.SIGVTALRM, alarm)   # CPU time, not wall-clock time: robust on a busy machine
out = []
for src in json.load(sys.stdin):
    signal.setitimer(signal.ITIMER_VIRTUAL, 5)
    try:
        try:
            with reports.handle_reports(lambda *a: None):
                Compiler().compile_and_link_files([parse("/t/r.mac", src)])
            out.append("ok")
        except reports.UnrecoverableError: out.append("fail")
        except TO: out.append("timeout")
        except Exception as e: out.append("crash:" + type(e).__name__)
    finally:
        signal.setitimer(signal.ITIMER_VIRTUAL, 0)
print(json.dumps(out))
''' % driver.tree_root()
    p = subprocess.run(["/venv/bin/python", "-c", code], input=json.dumps([c for c, _ in cases]), capture_output=True, text=True, timeout=120, cwd="/")
    res = json.loads(p.stdout.strip().splitlines()[-1])
    obs = []
    for (src, fid), r in zip(cases, res):
        okv = r == "fail"
        status = "proved" if okv else ("known-region" if fid in common.ACTIVE_FINDINGS else "failed")
        obs.append(dict(label="self-referential-definition-is-a-reported-error[%s]" % src.split("\n")[0], kind="rac", status=status, secs=0.0, path=[], witness=dict(source=src), detail="observed: " + r,
                        events=[], smt2=None, backend="cpython-native", unit="self-reference", func="Compiler (run-time check)", cases=1, cfg=dict(kind="selfref", src=src)))
    return dict(unit="self-reference", func="Compiler (run-time check)", paths=len(cases), obligations=obs, wall=0.0)


def unit_bounded_handlers(eng, tier="quick"):
    """a diagnostic must also be PRINTED without an internal exception, in either report format (the renderers are string code outside the
    subset: bounded stand-in shared with C07)"""
    from contracts import c07
    return c07.unit_bounded_handlers(eng, tier=tier)


def _literal_programs(tier="quick"):
    import itertools
    alphabet = ["a", "\\", "q", "x", "4", "'", '"', "n"] + ([] if tier == "quick" else ["/", " ", "\n", "G"])
    bodies = ["".join(t) for n in range(0, 4) for t in itertools.product(alphabet, repeat=n)]
    progs = []
    for b in bodies:
        for q in "'\"":
            for ctxt in ("mov #%s, r0\n", ".word %s\n", "x = %s\n.byte x\n"):
                progs.append(ctxt % (q + b))
    return alphabet, progs


def _run_literal_programs(tree, progs):
    code = r'''
from pdpy11 import reports
from pdpy11.parser import parse
from pdpy11.compiler import Compiler
out = []
for src in %r:
    errs = []
    try:
        with reports.handle_reports(lambda p, i, *l: errs.append(i) if p is not reports.warning else None):
            Compiler().compile_and_link_files([parse("t.mac", src)])
        out.append("ok" if not errs else "silent-error:" + errs[0])
    except reports.UnrecoverableError:
        out.append("fail" if errs else "fail-without-report")
    except Exception as e:
        out.append("crash:" + type(e).__name__)
result = out
''' % (progs,)
    res = driver.native([{"kind": "py", "code": code}], tree, timeout=1800)[0]
    if res["status"] != "ok":
        return None, str(res)[:300]
    return res["result"], None


def unit_bounded_literals(eng, tier="quick"):
    """bounded stand-in for the character-literal scanner (parser code, outside the subset): every ' / " literal whose body is at most 3 characters over an
    alphabet with the escape- and quote-relevant characters (incl. unknown escapes followed by the C-style closing quote), in three operand positions:
    the run ends in a result or in a reported error"""
    alphabet, progs = _literal_programs(tier)
    out, err = _run_literal_programs(driver.tree_root(), progs)
    bad = [err] if err else [(p_, o_) for p_, o_ in zip(progs, out) if o_ not in ("ok", "fail")]
    ob = dict(label="character-literals:every-literal-ends-in-a-result-or-a-reported-error", kind="bounded", status="proved" if progs and not bad else "failed", secs=0.0, path=[], witness=None,
              detail=str(bad[:5]), events=[], smt2=None, backend="cpython-native", unit="bounded-literals", func="parser.single_quoted_literal / double_quoted_literal / string_escape (bounded stand-in)",
              bound="every ' and \" literal with a body of length <= 3 over %r in 3 operand positions (%d programs)" % (alphabet, len(progs)), cases=len(progs), cfg=dict(kind="bounded-literals", tier=tier))
    return dict(unit="bounded-literals", func="parser.single_quoted_literal / double_quoted_literal / string_escape (bounded stand-in)", paths=len(progs), obligations=[ob], wall=0.0)


def unit_open_device(eng=None):
    """devices.open_device is where every output (and the listing) is opened; its callers handle IOError only: for every kind of bad path it
    returns a file object or raises IOError (OSError) - checked on the real function"""
    code = r'''
import os, tempfile, shutil
from pdpy11.devices import open_device
d = tempfile.mkdtemp(prefix="pyvc-dev-")
out = []
try:
    os.mkdir(os.path.join(d, "dir"))
    paths = ["ok.bin", "a\x00b", "", "dir", "nosuch/x.bin", "x" * 5000, "dir/", "\u044f.bin", "a\nb", " ", ".", "..", "ok.bin/x", "\x00"]
    for p in paths:
        for mode in ("wb", "w", "rb"):
            full = os.path.join(d, p) if p else p
            try:
                f = open_device(full, mode)
                f.close()
                out.append([p, mode, "ok"])
            except OSError as e:
                out.append([p, mode, "OSError"])
            except Exception as e:
                out.append([p, mode, "raised " + type(e).__name__])
finally:
    shutil.rmtree(d, ignore_errors=True)
result = out
'''
    r = driver.native([{"kind": "py", "code": code}], driver.tree_root())[0]
    res = r.get("result") or [["?", "?", str(r)[:300]]]
    bad = [x for x in res if x[2] not in ("ok", "OSError")]
    ob = dict(label="open_device-returns-a-file-or-raises-IOError-for-every-kind-of-path(NUL, empty, directory, missing directory, over-long, non-ASCII)", kind="rac", status="proved" if res and not bad else "failed",
              secs=0.0, path=[], witness=None, detail=str(bad[:4]), events=[], smt2=None, backend="cpython-native", unit="open_device-rac", func="devices.open_device (run-time check)", cases=len(res),
              cfg=dict(kind="open_device"))
    return dict(unit="open_device-rac", func="devices.open_device (run-time check)", paths=len(res), obligations=[ob], wall=0.0)


# ------------------------------------------------------------------ bounded: character- and token-level mutation of a statement corpus
MUT_SHARDS = 8
RESOURCE_SITES = ("operators.lshift", "operators.lsh", "operators.rshift", "metacommands.repeat", "metacommands.blkb", "metacommands.blkw", "metacommands.align",
                  "metacommands.even", "compiler.compile_block", "compiler.compile_insn", "compiler.fn")


def classify_mutation_class(sig):
    """known findings and resource-bound cases by the SITE of the failure (so that another failure elsewhere is still reported)"""
    if sig.startswith("crash:DeferredCycle@"):
        return "D16"
    if sig.startswith("crash:IntStrLimit@"):
        return "D36"
    if sig.startswith("hang@deferred.") or sig.startswith("hang@types.") or sig == "hang@compiler.<lambda>":
        return "D15"
    if sig.startswith("resource:"):
        return "resource"
    return None


def unit_mutation(eng, shard, tier="quick"):
    import subprocess
    import json
    seed = int(os.environ.get("VERIF_SEED", "0") or 0)
    p = subprocess.run(["/venv/bin/python", os.path.join(os.path.dirname(os.path.dirname(os.path.abspath(__file__))), "pyvc", "mutsearch.py"), driver.tree_root(), str(shard), str(MUT_SHARDS),
                        tier, str(seed)], capture_output=True, text=True, cwd="/", timeout=7200)
    name = "mutation[%d/%d]" % (shard, MUT_SHARDS)
    func = "parse + Compiler (bounded mutation search)"
    try:
        r = json.loads(p.stdout.strip().splitlines()[-1])
    except Exception:  # pylint: disable=broad-except
        r = dict(runs=0, classes={"search-did-not-complete": [1, (p.stderr or p.stdout)[-300:]]})
    new, known, resource = {}, {}, {}
    for sig, (cnt, src) in r["classes"].items():
        c = classify_mutation_class(sig)
        if c == "resource":
            resource[sig] = [cnt, src]
        elif c in common.ACTIVE_FINDINGS:
            known[sig] = [cnt, src, c]
        else:
            new[sig] = [cnt, src]
    status = "proved" if r["runs"] and not new else "failed"
    if status == "proved" and known:
        status = "known-region"
    ob = dict(label="every-mutant-ends-in-a-result-or-a-reported-error(no internal exception, no hang, no silent failure)", kind="bounded", status=status, secs=0.0, path=[], witness=None,
              detail=json.dumps(dict(new=new, known_findings=known, resource_bound_not_decided=resource))[:3000], events=[], smt2=None, backend="cpython-native", unit=name, func=func,
              bound="statement corpus shard %d of %d x (every single-character insertion from a 50-character set incl. NUL, DEL and non-ASCII, every deletion, every truncation, "
                    "every token insertion/replacement from a 54-token set, seeded two-statement combinations); 3 s per run" % (shard, MUT_SHARDS),
              cases=r["runs"], cfg=dict(kind="mutation", new=new))
    return dict(unit=name, func=func, paths=r["runs"], obligations=[ob], wall=0.0)



def units(tier):
    us = [("mutation[%d]" % k, "unit_mutation", dict(shard=k, tier=tier)) for k in range(MUT_SHARDS)]
    for which, flag in (("get_as_int", None), ("get_as_int", False), ("get_as_str", None)):
        us.append(("%s[cyclic,%s]" % (which, flag), "unit_get_cyclic", dict(which=which, flag=flag)))
    us += [("random-programs", "unit_random_programs", dict(tier=tier)), ("self-reference", "unit_self_reference", {}), ("open_device", "unit_open_device", {}), ("bounded-handlers", "unit_bounded_handlers", dict(tier=tier)), ("bounded-literals", "unit_bounded_literals", dict(tier=tier)), *literal_c.all_units(), ("align", "unit_align_total", {}), ("bin", "unit_bin", {}),
          ("awaiting", "unit_awaiting", {}), ("wait", "unit_wait", {}), ("wait-chain", "unit_wait_chain", {}), ("promise", "unit_promise", {}), ("number", "unit_number", {}), ("encode", "unit_encode", {}),
          ("charliteral", "unit_charliteral", {}), ("include", "unit_include", {}), ("insert_file", "unit_insert_file", {}), ("repeat", "unit_repeat", {}),
          ("resolve-register", "unit_resolve_register", {}), ("try_as_register", "unit_try_as_register", {}), ("try_accumulator", "unit_try_accumulator", {})]
    for sh in insn.CPU_SHAPES:
        for lazy in (False, True):
            us.append(("rm[%s,%s]" % (sh, lazy), "unit_rm_encode", dict(shape=sh, lazy=lazy)))
    for sh in insn.PCT_SHAPES:
        for rl in (False, True):
            us.append(("rm-pct[%s,%s]" % (sh, rl), "unit_rm_pct", dict(shape=sh, reg_lazy=rl)))
    for bits, uns in [(8, False), (6, True)]:
        for sh in insn.BRANCH_SHAPES + insn.D5_SHAPES:
            us.append(("offset[%d,%s]" % (bits, sh), "unit_offset_encode", dict(bits=bits, unsigned=uns, shape=sh, lazy=True)))
    for sh in ("Rn", "%e", "(Rn)", "e"):
        us.append(("reg[%s]" % sh, "unit_reg_encode", dict(shape=sh)))
    for which in ("rm", "ac"):
        for sh in ("acN", "Rn", "%e"):
            us.append(("fp[%s,%s]" % (which, sh), "unit_fp_encode", dict(which=which, shape=sh)))
    for bits, uns in [(3, True), (6, True), (8, False)]:
        us.append(("imm[%d]" % bits, "unit_imm_encode", dict(bits=bits, unsigned=uns, hashed=True, lazy=True)))
    for m in ("halt", "mov", "jsr", "sob", "br", "emt", "ldf", "stexp"):
        for d in (-1, 0, 1):
            if m == "halt" and d == -1:
                continue
            us.append(("insn[%s,%+d]" % (m, d), "unit_compile_insn", dict(mnemonic=m, lazy=True, arity_delta=d)))
    for bit in (None, 3, 16, "sym"):
        for uns in (False, True):
            us.append(("get_as_int[%s,%s]" % (bit, uns), "unit_get_as_int", dict(bitness=bit, unsigned=uns, default=None)))
    for cmd in c06.WIDTH:
        for n in (0, 2):
            us.append(("%s[%d]" % (cmd, n), "unit_data", dict(cmd=cmd, n=n)))
    for cmd in (".blkb", ".blkw", ".even", ".odd"):
        us.append((cmd, "unit_fill", dict(cmd=cmd)))
    for sh in ("s", "n", "sn"):
        us.append((".ascii[%s]" % sh, "unit_ascii", dict(cmd=".ascii", shape=sh)))
        us.append((".rad50[%s]" % sh, "unit_rad50", dict(shape=sh)))
    us.append(("wordlist[2]", "unit_word_list", dict(n=2)))
    for n in c05.INFIX_NAMES:
        us.append(("operator[%s]" % n, "unit_infix_body", dict(name=n)))
    for n in c05.PREFIX_NAMES:
        us.append(("operator[%s]" % n, "unit_prefix_body", dict(name=n)))
    for n in c05.PSEUDO_NAMES:
        for lz in (itertools.product((False, True), repeat=2) if n == "call" else [(False,), (True,)]):
            us.append(("resolve[%s,%s]" % (n, lz), "unit_pseudo_resolve", dict(name=n, lz=tuple(lz))))
    for mode in ("value", "not_ready", "RecoverableError", "DeferredCycle"):
        us.append(("construct[%s]" % mode, "unit_construct", dict(mode=mode, sized=True)))
    for st_ in (False, True):
        us.append(("compile_include[%s,raise]" % st_, "unit_include_c", dict(settles=st_, kind="raise")))
    for ctxt in ("file", "repeat"):
        for bs in (False, True):
            us.append(("compile_block[%s,%s]" % (ctxt, bs), "unit_compile_block", dict(context=ctxt, base_settled=bs, start_kind="promise")))
    for k in compiler_c.DISPATCH_KINDS:
        us.append(("dispatch[%s]" % k, "unit_dispatch", dict(kind=k)))
    us += tokens_c.all_units()
    for settled in (False, True):
        us.append(("set_link_address[%s]" % settled, "unit_set_link_address", dict(settled=settled, had_where=settled, lazy=True)))
    for what, local in (("label", False), ("label", True), ("assignment", False)):
        us.append(("define[%s,%s]" % (what, local), "unit_define", dict(what=what, local=local, is_extern=True, extern_all=True)))
    for sp in (False, True):
        us.append(("resolve[%s]" % sp, "unit_resolve", dict(speculative=sp, digit_name=False)))
    for cmd, (lo, hi) in meta_c.ZERO_SIZE.items():
        us.append(("zero[%s]" % cmd, "unit_zero_size", dict(cmd=cmd, nops=hi)))
    for of in (None, "out.bin", "-"):
        for ne in (0, 2):
            us.append(("main_cli[%s,%d]" % (of, ne), "unit_main_cli", dict(outfile_kind=of, lst=True, implicit_bin=False, n_emitted=ne)))
    return us


def canary(eng):
    def run(eng):
        eng.I = {}
        a, b = int_input(eng, "a"), int_input(eng, "b")
        return eng.binop(ast.FloorDiv(), a, b)
    return verify(eng, "canary", run, lambda eng, o: eng.prove("canary-division-never-raises", o[0] == "return"), func="canary")


def _native_outcome(tree, src, timeout=10):
    import subprocess
    code = ("import sys; sys.path.insert(0, %r)\nfrom pdpy11 import reports, bk_encoding\nfrom pdpy11.parser import parse\nfrom pdpy11.compiler import Compiler\n"
            "try:\n    with reports.handle_reports(lambda *a: None):\n        Compiler().compile_and_link_files([parse('/t/r.mac', %r)])\n    print('ok')\n"
            "except reports.UnrecoverableError: print('fail')\nexcept Exception as e: print('crash:' + type(e).__name__)\n") % (tree, src)
    try:
        p = subprocess.run(["/venv/bin/python", "-c", code], capture_output=True, text=True, timeout=timeout, cwd="/")
        return p.stdout.strip().splitlines()[-1] if p.stdout.strip() else "crash:?" + p.stderr[-100:]
    except subprocess.TimeoutExpired:
        return "timeout"


def replay(o, tree):
    cfg = o.get("cfg") or {}
    k = cfg.get("kind")
    src = None
    if k == "pseudo":
        return c05.replay(o, tree)
    if k == "anglechar":
        return tokens_c.replay_anglechar(o, tree)
    if o.get("unit", "").startswith(".rad50["):
        r15 = c15.replay(o, tree)
        if r15 is not None:
            r15["reproduced"] = r15["reproduced"] and any(x_ == "crash" for x_ in r15.get("observed", [])) or r15["reproduced"]
        return r15
    if k == "mutation":
        bad = []
        for sig, (cnt, s_) in list(cfg.get("new", {}).items())[:12]:
            out = _native_outcome(tree, s_ + "\n")
            if out not in ("ok", "fail"):
                bad.append((sig, s_, out))
        return dict(jobs=[{"kind": "asm", "sources": [b[1] + "\n"]} for b in bad[:4]], expected="ok or fail (a result or a reported error)", observed=bad, reproduced=bool(bad))
    if k == "literal":
        cfg = dict(cfg, kind="bounded-literals")
        k = "bounded-literals"
    if k == "bounded-literals":
        _, progs = _literal_programs(cfg.get("tier", "quick"))
        out, err = _run_literal_programs(tree, progs)
        bad = [] if err else [(p_, o_) for p_, o_ in zip(progs, out) if o_ not in ("ok", "fail")]
        return dict(jobs=[{"kind": "asm", "sources": [b[0]]} for b in bad[:4]], expected="ok or fail (a result or a reported error)", observed=bad[:8], reproduced=bool(bad))
    if k == "pct":
        spell = {"(%e)": "(%x)", "@%e": "@%x", "(%e)+": "(%x)+", "@(%e)+": "@(%x)+", "-(%e)": "-(%x)", "@-(%e)": "@-(%x)", "x(%e)": "2(%x)", "@x(%e)": "@2(%x)", "@(%e)": "@(%x)",
                 "a-b(%e)": "tab-2(%x)", "@a+b(%e)": "@tab+2(%x)", "-a(%e)": "-2(%x)"}[cfg["shape"]]
        src = "clr %s\nx = 1\ntab = 100\n" % spell if cfg.get("reg_lazy") else "tab = 100\nclr %s\n" % spell.replace("x", "1")
    elif k == "align":
        src = ".align 0\n"
    elif k == "selfref":
        src = cfg["src"]
    elif k == "bin":
        return c13.replay(o, tree)
    elif k in ("rm",):
        from contracts import c01
        return c01.replay_rm(cfg, o.get("witness") or {}, tree)
    elif k == "offset":
        from contracts import c04
        return c04.replay_offset(cfg, o.get("witness") or {}, tree)
    elif o.get("unit", "").startswith("try_accumulator_from_symbol["):
        from contracts import c01
        return c01.replay_accumulator_name(o, tree)
    elif o.get("unit", "").startswith("bk_encoding.") or o.get("func", "").startswith("bk_encoding."):
        # strings, character constants and tape names with characters outside the table at the end, the start and in the middle
        bad = []
        for src in ('.ascii "caf\u00e9"\n', "mov #'\u00e9, r0\n", '.ascii "x\u20ac\u20ac"\n', '.ascii "\u20acx"\n', '.ascii "ab\u00e9cd"\n', '.ascii "\u00e9"\n', 'make_wav "a.wav", "n\u00e9"\n', ".word '\u4e2d\n"):
            out = _native_outcome(tree, src)
            if out not in ("ok", "fail"):
                bad.append((src, out))
        return dict(jobs=[{"kind": "asm", "sources": [b[0]]} for b in bad[:4]], expected="ok or fail (a result or a reported error)", observed=bad, reproduced=bool(bad))
    if src is None:
        return None
    out = _native_outcome(tree, src)
    return dict(jobs=[{"kind": "asm", "sources": [src]}], source=src, expected="ok or fail (a result or a reported error)", observed=out, reproduced=out not in ("ok", "fail"))


def witness_D7(tree):
    out = _native_outcome(tree, "clr (%x)+\nx = 1\n")
    return out not in ("ok", "fail"), "clr (%%x)+ / x = 1 -> %s" % out


def witness_D15(tree):
    out = _native_outcome(tree, "x = y\ny = x\n.word x\n", timeout=5)
    return out == "timeout", "x = y / y = x / .word x -> %s" % out


def witness_D16(tree):
    out = _native_outcome(tree, "x = x / 2\n.word x\n", timeout=5)
    return out not in ("ok", "fail"), "x = x / 2 / .word x -> %s" % out


def witness_D8(tree):
    return c13.witness_D8(tree)


def witness_D12(tree):
    from contracts import c07
    return c07.witness_D12(tree)


def witness_D36(tree):
    out = _native_outcome(tree, ".word 1 _ 100000\n")
    return out not in ("ok", "fail"), "'.word 1 _ 100000' -> %s" % out


FINDING_WITNESS = {"D36": witness_D36, "D7": witness_D7, "D15": witness_D15, "D16": witness_D16, "D8": witness_D8, "D12": witness_D12}
