"""Contracts on pdpy11/_cli.main_cli, Compiler.emit_files and the report handlers (shared by C07, C13, C19).

main_cli is executed for real with: argparse -> an args object with symbolic / enumerated fields; file reading, codecs.lookup, os.path.abspath and
open_device as external may-fail operations; parser.parse + compile_and_link_files replaced by a contract that may issue any mix of reports THROUGH THE REAL
reports.emit_report / handle_reports / FilterHandler (so the error latch under verification is the real one), may raise Recoverable/Unrecoverable
errors or an internal exception, and returns a symbolic (base, code)."""
import z3
from contracts.common import *  # noqa
from contracts import common
from contracts.compiler_c import pick
from pyvc import driver
from pyvc.engine import BUILTINS, Path

COMPILE_OUTCOMES = ["clean", "warnings-only", "error-then-return", "error-then-warning", "error-then-recoverable", "critical", "internal-crash"]


def install_cli_world(eng, outfile_kind, lst, implicit_bin, emitted, report_format="bare", warnings=None):
    """returns the args object; installs the external contracts"""
    I = eng.I
    I.update(writes=[], opened=[], msgs=[])
    cli = eng.load_module("_cli")
    rep = eng.load_module("reports")
    outfile = None
    if outfile_kind == "sym":
        outfile = z3.String("outfile")
        eng.inputs["outfile"] = outfile
    elif outfile_kind is not None:
        outfile = outfile_kind
    args = Obj("Args", dict(infiles=["prog.mac"], outfile=outfile, implicit_bin=implicit_bin, lst=lst, charset="bk", report_format=report_format, warnings=(list(warnings) if warnings is not None else None)), name="args")
    # the renderers write text to the terminal and nothing else (frame obligation handler-frame; they never raise: bounded-handlers)
    eng.contracts["GraphicalHandler.__call__"] = lambda e, self, *a: None
    eng.contracts["BareHandler.__call__"] = lambda e, self, *a: None
    cli["env"].vars["argparser"] = Obj("ArgParser", {"parse_args": Builtin("parse_args", lambda e: args)}, name="argparser")
    BUILTINS["codecs.lookup"] = Builtin("codecs.lookup", lambda e, name: None)
    BUILTINS["os.path.abspath"] = Builtin("abspath", lambda e, p: "/abs/" + p if isinstance(p, str) else p)

    def b_open(e, path, mode="r", **kw):
        f = Obj("SrcFile", name="srcfile")
        f.attrs["__enter__"] = Builtin("enter", lambda e2: f)
        f.attrs["__exit__"] = Builtin("exit", lambda e2, *a: False)
        f.attrs["read"] = Builtin("read", lambda e2: "source text")
        return f
    BUILTINS["open"] = Builtin("open", b_open)

    def c_open_device(e, path, mode):
        k = pick(e, ["ok", "IOError"], "open_device")
        I["opened"].append((path, mode, k))
        if k == "IOError":
            raise PyRaise(Exc("IOError"))
        f = Obj("Device", name="device")
        f.attrs["__enter__"] = Builtin("enter", lambda e2: f)
        f.attrs["__exit__"] = Builtin("exit", lambda e2, *a: False)
        f.attrs["write"] = Builtin("write", lambda e2, data, _p=path: I["writes"].append((_p, data, list(I["reports"]))))
        return f
    eng.contracts["open_device"] = c_open_device
    BUILTINS["sys.stdout"] = Obj("Stdout", {"buffer": Obj("Buf", {"write": Builtin("stdout.write", lambda e, data: I["writes"].append(("<stdout>", data, list(I["reports"]))))}, name="buf")}, name="stdout")
    BUILTINS["sys.stdin"] = Obj("Stdin", {"read": Builtin("stdin.read", lambda e: "stdin text")}, name="stdin")
    eng.contracts["parse"] = lambda e, path, source: Obj("FileAst", name="ast")
    BUILTINS["traceback.print_exc"] = Builtin("traceback.print_exc", lambda e: I.__setitem__("internal_error_path", True))
    I["reports"] = []
    eng.real_reports = True            # reports.error(...) in the code under verification goes through the real Report.__call__ / emit_report
    emit = eng.resolve_global(rep, "emit_report")

    def logged_emit(e, priority, identifier, *spans):
        sev = "warning" if priority is prio["warning"] else "critical" if priority is prio["critical"] else "error"
        I["reports"].append((sev, identifier))
        e.path.events.append((sev if sev != "critical" else "error", identifier))
        return e.call_func(emit, [priority, identifier] + list(spans), {})
    eng.contracts["emit_report"] = logged_emit
    prio = {p: eng.resolve_global(rep, p) for p in ("error", "warning", "critical")}
    span = None

    def report(e, sev, ident):
        c1, c2 = _ctx(e), _ctx(e)
        e.call(emit, [prio[sev], ident, (c1, c2, "text")], {})

    base = int_input(eng, "base")
    eng.assume(z3.And(base >= 0, base < 65536))
    code = abstract_seq("image")
    I.update(base=base, code=code)
    ccls = eng.resolve_global(eng.load_module("compiler"), "Compiler")

    def c_compile(e, self, files):
        k = pick(e, COMPILE_OUTCOMES, "compile")
        I["compile_outcome"] = k
        if k == "warnings-only":
            report(e, "warning", "implicit-operand")      # in the default class
            report(e, "warning", "meta-typo")             # not in the default class: filtered unless enabled
        elif k == "error-then-return":
            report(e, "warning", "implicit-operand")
            report(e, "error", "value-out-of-bounds")
        elif k == "error-then-warning":
            report(e, "error", "duplicate-symbol")
            report(e, "warning", "implicit-operand")
            report(e, "warning", "meta-typo")
        elif k == "error-then-recoverable":
            report(e, "error", "wrong-meta-operands")
            raise PyRaise(Exc("RecoverableError"))
        elif k == "critical":
            report(e, "critical", "invalid-expression")
        elif k == "internal-crash":
            raise PyRaise(Exc("TypeError"))
        self.attrs["emitted_files"] = list(emitted)
        return base, code
    eng.contracts["Compiler.compile_and_link_files"] = c_compile
    eng.contracts["Compiler.generate_listing"] = lambda e, self: "LISTING"
    I["report_fn"] = report
    return args


def _ctx(eng):
    ccls = eng.resolve_global(eng.load_module("context"), "Context")
    return Obj(ccls, dict(filename="f.mac", code="x", pos=0), name="ctx")


def run_main_cli(eng):
    f = find_func(eng, "_cli", ["main_cli"])
    return eng.call(f, [], {})


def exit_status(outcome):
    kind, val = outcome
    if kind == "raise" and val.cls == "SystemExit":
        return val.args[0]
    if kind == "return":
        return 0
    return "exception:" + val.cls


def unit_main_cli(eng, outfile_kind, lst, implicit_bin, n_emitted, report_format="bare", warnings=None):
    name = "main_cli[-o=%s,lst=%s,implicit-bin=%s,make_*=%d]" % (outfile_kind, lst, implicit_bin, n_emitted)
    if report_format != "bare" or warnings is not None:
        name = name[:-1] + ",%s,-W%s]" % (report_format, "+".join(warnings or []))
    emitted = [(None, None, "bin", "/out/a.bin"), (None, None, "raw", "/out/b.raw")][:n_emitted]

    def run(eng):
        eng.I = {}
        install_cli_world(eng, outfile_kind, lst, implicit_bin, emitted, report_format, warnings)
        return run_main_cli(eng)

    def post(eng, o):
        I = eng.I
        st = exit_status(o)
        eng.prove("ends-by-returning-or-sys.exit-never-by-an-escaping-exception", st in (0, 1))
        if st not in (0, 1):
            return
        reports = I["reports"]
        any_error = any(s in ("error", "critical") for s, _ in reports)
        io_failed = any(k == "IOError" for _, _, k in I["opened"])
        crashed = I.get("compile_outcome") == "internal-crash"
        internal = bool(I.get("internal_error_path"))
        region8 = (slen(I["code"]) >= 65536) if "D8" in common.ACTIVE_FINDINGS else None
        eng.prove("the-internal-error-path-is-taken-only-for-an-internal-exception-of-parse/compile(itself excluded by C08)", (not internal) or crashed, region=region8)
        # an image of 65536 bytes or more cannot be put into a container whose header holds a 16-bit length ('bin' here): a reported failure (D8, fixed)
        o_is_bin = (isinstance(outfile_kind, str) and outfile_kind.split("/")[-1].lower().endswith(".bin")) or (outfile_kind is None and implicit_bin and not emitted)
        wants_bin = any(e[2] == "bin" for e in emitted) or o_is_bin
        compiled = I.get("compile_outcome") in ("clean", "warnings-only")
        fmt_failed = z3.And(z3.BoolVal(bool(wants_bin and compiled)), slen(I["code"]) >= 65536)
        eng.prove("failure-status-iff-an-error-was-reported-or-an-output-could-not-be-written-or-built-or-the-internal-error-path-was-taken",
                  z3.BoolVal(st == 1) == z3.Or(z3.BoolVal(bool(any_error or io_failed or internal)), fmt_failed), region=region8)
        if compiled:
            eng.prove("warnings-alone-never-fail-the-build", z3.Or(z3.BoolVal(bool(st == 0 or io_failed or internal)), fmt_failed), region=region8)
        # no output may exist after a failed run
        region = True if ("D12" in common.ACTIVE_FINDINGS and io_failed and len(I["writes"]) >= 1) else None
        if st == 1:
            eng.prove("failed-run-has-written-no-output-or-listing", I["writes"] == [], region=region)
        for path, data, seen in I["writes"]:
            reg = True if ("D12" in common.ACTIVE_FINDINGS and any(i == "io-error" for _, i in seen)) else None
            eng.prove("nothing-is-written-while-an-error-is-latched", not any(s in ("error", "critical") for s, _ in seen), region=reg)
        if st == 0 and I.get("compile_outcome") in ("clean", "warnings-only"):
            # every requested output written, with the format's bytes, at the requested path
            want_paths = [e[3] for e in emitted]
            if outfile_kind is not None or (implicit_bin and not emitted):
                want_paths.append("<-o>")
            got = [p for p, _, _ in I["writes"]]
            eng.prove("every-make_*-output-is-written-at-its-path-in-order", got[:len(emitted)] == [e[3] for e in emitted])
            bin_img = z3.Concat(le16(I["base"]), le16(slen(I["code"])), I["code"])
            for (p, data, _), e in zip(I["writes"], emitted):
                eng.prove("make_*-output-has-the-bytes-of-its-format", zbytes(data) == (bin_img if e[2] == "bin" else I["code"]))
            # -o / --implicit-bin: path as given, format by extension; listing beside the first output
            rest = I["writes"][len(emitted):]
            exp_o = None
            if isinstance(outfile_kind, str):
                exp_o = (outfile_kind, "bin" if outfile_kind.split("/")[-1].lower().endswith(".bin") else "raw")
            elif implicit_bin and not emitted:
                exp_o = ("/abs/prog.bin", "bin")
            if exp_o is not None:
                stdout = exp_o[0] in ("-", "-." + (exp_o[0].split("/")[-1].split(".")[-1] if "." in exp_o[0].split("/")[-1] else ""))
                ok_o = len(rest) >= 1 and rest[0][0] == ("<stdout>" if stdout else exp_o[0])
                eng.prove("-o/--implicit-bin-output-is-written-at-the-path-given('-' = standard output)", ok_o)
                if ok_o:
                    eng.prove("-o-output-format-follows-the-extension(.bin => bin, else raw)", zbytes(rest[0][1]) == (bin_img if exp_o[1] == "bin" else I["code"]))
                rest = rest[1:]
            if lst:
                first = None
                if emitted:
                    first = (emitted[0][3], emitted[0][2])
                if exp_o is not None and first is None:
                    first = exp_o            # C19: beside the FIRST output file - a make_* output is written before the -o output
                if first is None:
                    eng.prove("no-listing-without-an-output", rest == [])
                else:
                    base_name = first[0][:-(len(first[1]) + 1)] if first[0].endswith("." + first[1]) else first[0]
                    want_lst = base_name + ".lst"
                    if want_lst == "-.lst":
                        want_lst = "listing.lst"
                    eng.prove("listing-is-written-beside-the-output-named-after-it-with-.lst", len(rest) == 1 and rest[0][0] == want_lst and rest[0][1] == "LISTING")
            else:
                eng.prove("no-listing-unless-requested", rest == [])
    r = verify(eng, name, run, post, func="_cli.main_cli")
    for o_ in r["obligations"]:
        o_["cfg"] = dict(kind="cli")
    return r


def replay_cli(o, tree):
    """the unit's configuration on the real command line in a scratch directory: which files exist afterwards, with which bytes"""
    import os
    import re
    import shutil
    import subprocess
    import tempfile
    m = re.match(r"main_cli\[-o=(.*),lst=(True|False),implicit-bin=(True|False),make_\*=(\d)\]", o.get("unit", ""))
    if not m:
        return None
    of, lst, ib, ne = m.group(1), m.group(2) == "True", m.group(3) == "True", int(m.group(4))
    if of == "sym":
        of = "x.out"
    of = None if of == "None" else of
    if of in ("-", "-.bin"):
        return None
    d = tempfile.mkdtemp(prefix="pyvc-cli-replay-")
    try:
        emitted = [("raw", "first.raw"), ("bin", "second.bin")][:ne]
        src = "".join('make_%s "%s"\n' % e for e in emitted) + "a: mov #a, r0\nb = 5\n.word b\n"
        open(os.path.join(d, "p.mac"), "w").write(src)
        if of and "/" in of:
            os.makedirs(os.path.join(d, os.path.dirname(of)), exist_ok=True)
        args = ["p.mac"] + (["-o", of] if of else []) + (["--lst"] if lst else []) + (["--implicit-bin"] if ib else [])
        p = subprocess.run(["/venv/bin/python", "-c", "import sys; sys.path.insert(0, %r); sys.argv = ['pdpy11'] + sys.argv[1:]; from pdpy11._cli import main_cli; main_cli()" % tree] + args,
                           cwd=d, capture_output=True, text=True, timeout=120)
        files = {}
        for root, _, fs in os.walk(d):
            for f in fs:
                rel = os.path.relpath(os.path.join(root, f), d)
                if rel != "p.mac":
                    files[rel] = open(os.path.join(root, f), "rb").read()
        code = bytes.fromhex("c015000205 00".replace(" ", ""))       # mov #1000, r0 ; .word 5
        code = (0o012700).to_bytes(2, "little") + (0o1000).to_bytes(2, "little") + (5).to_bytes(2, "little")
        binimg = (0o1000).to_bytes(2, "little") + len(code).to_bytes(2, "little") + code
        want = {}
        for fmt, path in emitted:
            want[path] = binimg if fmt == "bin" else code
        anchor = (emitted[0][1], emitted[0][0]) if emitted else None
        if of:
            fmt = "bin" if of.split("/")[-1].lower().endswith(".bin") else "raw"
            want[of] = binimg if fmt == "bin" else code
            if anchor is None:
                anchor = (of, fmt)
        elif ib and not emitted:
            want["p.bin"] = binimg
            anchor = ("p.bin", "bin")
        if lst and anchor:
            base = anchor[0][:-(len(anchor[1]) + 1)] if anchor[0].endswith("." + anchor[1]) else anchor[0]
            want[base + ".lst"] = None
        bad = []
        if p.returncode != 0:
            bad.append(("exit status", p.returncode, p.stderr[-200:]))
        if sorted(files) != sorted(want):
            bad.append(("files", sorted(files), "expected", sorted(want)))
        for k, v in want.items():
            if v is not None and k in files and files[k] != v:
                bad.append(("bytes of " + k, files[k].hex(), v.hex()))
        return dict(jobs=None, experiment="CLI %s on a 3-statement program with %d make_* directives" % (" ".join(args), ne), expected=sorted(want), observed=bad or sorted(files), reproduced=bool(bad))
    finally:
        shutil.rmtree(d, ignore_errors=True)


EMIT_SHAPES = [(), ("bin",), ("raw", "bin"), ("bk_wav", "bk_wav"), ("bk_wav", "bk_turbo_wav", "bk_wav"), ("bin", "bin", "raw"), ("bk_turbo_wav", "bk_turbo_wav")]


def unit_emit_files(eng, shape):
    """Compiler.emit_files over a list of output records: record i is written exactly once, in order, at ITS path, with ITS format's
    container built from the image and ITS OWN extra arguments (the tape name of a WAV) - also when several records share a format;
    a write that fails is reported as io-error; the first record is what is returned (the listing anchor)"""
    name = "Compiler.emit_files[%s]" % ",".join(shape)

    def run(eng):
        eng.I = {}
        I = eng.I
        I.update(writes=[], opened=[])
        rep = eng.load_module("reports")
        cmod = eng.load_module("compiler")
        comp = eng.call(eng.resolve_global(cmod, "Compiler"), [], {})
        base = int_input(eng, "base")
        code = abstract_seq("image")
        recs = []
        for i, fmt in enumerate(shape):
            extra = (abstract_seq("tape_name_%d" % i),) if fmt.startswith("bk_") else ()
            recs.append((_ctx(eng), _ctx(eng), fmt, "/out/file%d.%s" % (i, fmt)) + extra)
        comp.attrs["emitted_files"] = list(recs)
        ff = eng.resolve_global(cmod, "file_formats")
        I["built"] = []

        def fmt_stub(e, b_, c_, *args, _n="?"):
            # contract of a format function (formats.bin_: C13 unit formats.bin_): the container, or struct.error when the image does not fit its header
            k = pick(e, ["ok", "struct.error"], "format")
            I["built"].append((_n, k))
            if k == "struct.error":
                raise PyRaise(Exc("struct.error"))
            return Obj("Container", dict(fmt=_n, base=b_, code=c_, args=tuple(args)), name="container")
        for fname in list(ff):
            ff[fname] = Builtin("format:" + fname, lambda e, b_, c_, *args, _n=fname: fmt_stub(e, b_, c_, *args, _n=_n))
        I.update(base=base, code=code, recs=recs)

        def c_open_device(e, path, mode):
            # contract of devices.open_device (checked on the real function by C08 unit open_device-rac): a file object or IOError, nothing else
            k = pick(e, ["ok", "IOError"], "open_device")
            I["opened"].append((path, mode, k))
            if k == "IOError":
                raise PyRaise(Exc("IOError"))
            f = Obj("Device", name="device")
            f.attrs["__enter__"] = Builtin("enter", lambda e2: f)
            f.attrs["__exit__"] = Builtin("exit", lambda e2, *a: False)
            f.attrs["write"] = Builtin("write", lambda e2, data, _p=path: I["writes"].append((_p, data)))
            return f
        eng.contracts["open_device"] = c_open_device
        return eng.call(Bound(comp, comp.cls.lookup("emit_files")), [base, code], {})

    def post(eng, o):
        I = eng.I
        recs = I["recs"]
        eng.prove("no-exception", o[0] == "return")
        if o[0] != "return":
            return
        if not recs:
            eng.prove("nothing-to-emit:(False, None)", o[1][0] is False and o[1][1] is None and not I["opened"])
            return
        n_unbuilt = sum(1 for _, k in I["built"] if k == "struct.error")
        if n_unbuilt:
            eng.prove("a-container-that-cannot-be-built(image too large for its header)-is-a-too-large-image-report-each-and-NOTHING-is-written",
                      [e[1] for e in errors(eng)] == ["too-large-image"] * n_unbuilt and not I["opened"] and not I["writes"] and [n_ for n_, _ in I["built"]] == [r[2] for r in recs])
            return
        eng.prove("every-record-is-opened-exactly-once-in-order-at-its-own-path-for-binary-writing",
                  [(p_, m_) for p_, m_, _ in I["opened"]] == [(r[3], "wb") for r in recs])
        ok_recs = [r for r, (_, _, k) in zip(recs, I["opened"]) if k == "ok"]
        eng.prove("one-write-per-successfully-opened-record-in-order", [w[0] for w in I["writes"]] == [r[3] for r in ok_recs])
        for (path, data), r in zip(I["writes"], ok_recs):
            good = isinstance(data, Obj) and data.cls == "Container" and data.attrs["fmt"] == r[2] and data.attrs["base"] is I["base"] and data.attrs["code"] is I["code"] \
                and len(data.attrs["args"]) == len(r[4:]) and all(a is b for a, b in zip(data.attrs["args"], r[4:]))
            eng.prove("the-file-holds-its-format's-container-of-the-image-with-ITS-OWN-arguments(e.g. tape name)", good)
        n_fail = sum(1 for _, _, k in I["opened"] if k == "IOError")
        eng.prove("each-failed-write-is-an-io-error-report", [e[1] for e in errors(eng)] == ["io-error"] * n_fail)
        eng.prove("returns-(True, first record's format and path)", o[1][0] is True and o[1][1]["format"] == recs[0][2] and o[1][1]["path"] == recs[0][3])
    r = verify(eng, name, run, post, func="compiler.Compiler.emit_files")
    for o_ in r["obligations"]:
        o_["cfg"] = dict(kind="emit_files", shape=list(shape))
    return r


def replay_emit_files(o, tree):
    """two WAV outputs with different tape names (and two bin outputs) through the real CLI: each file must carry its own name"""
    import os
    import shutil
    import subprocess
    import tempfile
    from spec import bk_tape
    d = tempfile.mkdtemp(prefix="pyvc-emit-")
    try:
        open(os.path.join(d, "p.mac"), "w").write('make_wav "first.wav", "GAME"\nmake_wav "second.wav", "GAME BACKUP"\nmake_turbo_wav "t1.wav", "T1"\nmake_turbo_wav "t2.wav", "T2"\nmake_bin "a.bin"\nmake_bin "b.bin"\n.word 1, 2\n')
        p = subprocess.run(["/venv/bin/python", "-c", "import sys; sys.path.insert(0, %r); sys.argv = ['pdpy11', 'p.mac']; from pdpy11._cli import main_cli; main_cli()" % tree],
                           cwd=d, capture_output=True, text=True, timeout=120)
        bad = []
        for fn, nm in (("first.wav", b"GAME"), ("second.wav", b"GAME BACKUP")):
            try:
                dm = bk_tape.demodulate(open(os.path.join(d, fn), "rb").read()[44:])
                if bytes(dm["name"]) != nm.ljust(16):
                    bad.append((fn, bytes(dm["name"]), nm.ljust(16)))
            except Exception as e:  # pylint: disable=broad-except
                bad.append((fn, "unreadable", repr(e)[:80]))
        for fn in ("a.bin", "b.bin", "t1.wav", "t2.wav"):
            if not os.path.exists(os.path.join(d, fn)):
                bad.append((fn, "missing"))
        if os.path.exists(os.path.join(d, "t1.wav")) and os.path.exists(os.path.join(d, "t2.wav")) and open(os.path.join(d, "t1.wav"), "rb").read() == open(os.path.join(d, "t2.wav"), "rb").read():
            bad.append(("t1.wav and t2.wav", "identical although their tape names differ"))
        return dict(jobs=None, experiment="CLI on a program with two make_wav, two make_turbo_wav and two make_bin directives", observed=bad or "each file carries its own tape name",
                    exit=p.returncode, reproduced=bool(bad))
    finally:
        shutil.rmtree(d, ignore_errors=True)
