#!/usr/bin/env python3
"""Regenerates /verif/MANIFEST.json from the table below (kept in one place so that the manifest is
always schema-valid and the not_applicable list is always the complement of the claimed checks)."""
import json
import os
import sys

HERE = os.path.dirname(os.path.dirname(os.path.abspath(__file__)))
sys.path.insert(0, HERE)
from tools.claims import CLAIMS, NOT_APPLICABLE  # noqa

ALL = ["C%02d" % i for i in range(1, 20)]


def main():
    checks = []
    for pid in ALL:
        if pid not in CLAIMS:
            continue
        c = CLAIMS[pid]
        checks.append(dict(
            property_id=pid,
            quick_cmd="python3-vt -m pyvc.check %s --tier quick" % pid,
            thorough_cmd="python3-vt -m pyvc.check %s --tier thorough" % pid,
            evidence_file="evidence/%s.json" % pid,
            replay_cmd_template="python3-vt -m pyvc.check %s --replay {path}" % pid,
            engine="pyvc",
            level_claimed=dict(category=c.get("category", "proof"), text=c["text"], design_ref=c.get("design_ref", "DESIGN.md section 7/" + pid)),
            level_note=c["note"],
            technique=c.get("technique", "contract-based deductive verification: VCs generated from the real function ASTs by pyvc, discharged by z3"),
        ))
    na = []
    for pid in ALL:
        if pid not in CLAIMS:
            na.append(dict(property_id=pid, reason=NOT_APPLICABLE.get(pid, "not yet claimed: contracts for this property are not finished (see DESIGN.md section 11)")))
    m = dict(
        version=1,
        setup_cmd="python3-vt -c 'import z3' && /venv/bin/python -c 'import sys; sys.path.insert(0, \"/repo\"); import pdpy11'",
        hooks=dict(guard="PDPY11_VERIF",
                   enable="none needed: contracts are sidecar files under /verif/contracts and the engine reads /repo/pdpy11/*.py directly; the guard name is reserved and unused",
                   baseline_off_cmd="cd /repo && /venv/bin/python -m pytest -ra -q -p no:cacheprovider --timeout=900 --continue-on-collection-errors",
                   source_commits=[], add_only=True),
        engines=[dict(name="pyvc", path="pyvc/", serves_properties=sorted(CLAIMS),
                      kind_free_text="VC generator / symbolic executor over the real Python ASTs of /repo/pdpy11 with sidecar contracts (contracts/*.py), "
                                     "z3 back end, native replay of counterexamples under /venv/bin/python")],
        checks=checks,
        notes="Checks read /repo's working tree (or $PDPY11_SRC) on every run. Exit 0 held / 1 violation / 2 undecided / 3 checker crash. "
              "Known findings: known_findings.json. See DESIGN.md.",
        not_applicable=na,
    )
    json.dump(m, open(os.path.join(HERE, "MANIFEST.json"), "w"), indent=1)
    print("claimed:", sorted(CLAIMS), "not_applicable:", [x["property_id"] for x in na])


if __name__ == "__main__":
    main()
