#!/usr/bin/env python3
"""prints the markdown table of the kept seeded changes (DESIGN Appendix E) from /verif/seeded/*/meta.json"""
import glob
import json
import os

HERE = os.path.dirname(os.path.dirname(os.path.abspath(__file__)))
print("| seed | property | needs, in order to manifest | first met the checks | reported now by |")
print("|---|---|---|---|---|")
for f in sorted(glob.glob(os.path.join(HERE, "seeded", "*", "meta.json"))):
    m = json.load(open(f))
    cb = m["caught_by"]
    first = "missed" if "MISSED" in cb or "MISSED" in m.get("note", "") or "missed at first" in cb.lower() else ("undecided (exit 2)" if cb.startswith("exit 2") else ("crash of the check (exit 3)" if "script crashed on the mutant" in cb else "caught"))
    esc = lambda s: s.replace("|", "\\|").replace("\n", " ")  # noqa
    print("| %s | %s | %s | %s | %s |" % (m["seed"], m["property"], esc(m["needs_to_manifest"]), first, esc((("SUPERSEDED: " + m["superseded"] + " Before that: ") if m.get("superseded") else "") + cb + ((" - " + m["note"]) if m.get("note") else ""))))
