#!/usr/bin/env python3
"""prints the per-property status table of DESIGN section 0 from /verif/evidence/*.json (as written by the last run of each check)"""
import glob
import json
import os

HERE = os.path.dirname(os.path.dirname(os.path.abspath(__file__)))
print("| id | tier of the last run | functions | proof obligations (vc, lemma, closed, frame) | discharged | of which outside a known-finding region only | bounded stand-ins | run-time checks | wall |")
print("|---|---|---|---|---|---|---|---|---|")
for f in sorted(glob.glob(os.path.join(HERE, "evidence", "C*.json"))):
    e = json.load(open(f))
    c = e["coverage"]
    kf = ", ".join(sorted(k["id"] for k in c.get("known_findings", []) if k.get("still_failing")))
    print("| %s | %s | %d | %d | %d | %d%s | %d | %d | %.0f s |" % (e["property_id"], e["tier"], len(c["functions_under_contract"]), c["obligations"], c["discharged"],
          c.get("region_restricted_count", len(c.get("region_restricted", []))), (" (" + kf + ")") if kf else "", len(c.get("bounded_standins", [])), len(c.get("runtime_checks", [])), e["wall_s"]))
