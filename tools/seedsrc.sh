#!/bin/bash
# usage: seedsrc.sh <outfile> ids...   - like tools/seedall.sh but on a scratch worktree via PDPY11_SRC (does not touch /repo's working tree)
out=$1; shift
cd /verif
for id in "$@"; do
  prop=$(python3 -c "import json; print(json.load(open('seeded/$id/meta.json'))['property'])")
  wt=/tmp/pyvc-seed-wt_$id
  git -C /repo worktree add -q --detach $wt HEAD || { echo "$id worktree failed" >> $out; continue; }
  if ! git -C $wt apply /verif/seeded/$id/patch.diff 2>/dev/null; then echo "$id $prop STALE" >> $out; git -C /repo worktree remove --force $wt; continue; fi
  o=$(PDPY11_SRC=$wt PYVC_NO_EVIDENCE=1 python3-vt -m pyvc.check $prop --tier quick 2>&1); r=$?
  v=$(echo "$o" | grep -c "^VIOLATION"); nf=$(echo "$o" | grep "^VIOLATION" | grep -c "no-failing-input-found")
  echo "$id $prop exit=$r violations=$v without-input=$nf" >> $out
  git -C /repo worktree remove --force $wt
done
