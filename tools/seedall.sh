#!/bin/bash
# usage: tools/seedall.sh [seed ids...]   - re-runs every kept seeded change (or the named ones) against the quick check of its property:
# applies /verif/seeded/<id>/patch.diff to /repo, runs the check, restores /repo.  Expected: exit 1 for every one.
# Prints one line per seed; exit 0 iff every applicable seed was detected.
set -u
cd /verif
if ! git -C /repo diff --quiet; then echo "refusing: /repo has uncommitted changes"; exit 3; fi
trap 'git -C /repo checkout -- . ; rm -rf /repo/pdpy11/__pycache__' EXIT
ids=("$@")
if [ ${#ids[@]} -eq 0 ]; then ids=($(ls seeded)); fi
rc=0
for id in "${ids[@]}"; do
    prop=$(python3 -c "import json; print(json.load(open('seeded/$id/meta.json'))['property'])")
    if python3 -c "import json,sys; sys.exit(0 if json.load(open('seeded/$id/meta.json')).get('superseded') else 1)"; then
        echo "$id $prop SUPERSEDED (a later fix of /repo made this change harmless; see meta.json) - expected exit 0"
        git -C /repo apply "/verif/seeded/$id/patch.diff" 2>/dev/null && { out=$(PYVC_NO_EVIDENCE=1 python3-vt -m pyvc.check "$prop" --tier quick 2>&1); r=$?; git -C /repo checkout -- .; echo "$id $prop exit=$r (0 expected)"; [ $r -ne 0 ] && rc=1; }
        continue
    fi
    if ! git -C /repo apply --check "/verif/seeded/$id/patch.diff" 2>/dev/null; then
        echo "$id $prop STALE (patch no longer applies to the current tree)"; continue
    fi
    git -C /repo apply "/verif/seeded/$id/patch.diff"
    out=$(PYVC_NO_EVIDENCE=1 python3-vt -m pyvc.check "$prop" --tier quick 2>&1); r=$?
    git -C /repo checkout -- .
    v=$(echo "$out" | grep -c "^VIOLATION")
    nf=$(echo "$out" | grep "^VIOLATION" | grep -c "no-failing-input-found")
    echo "$id $prop exit=$r violations=$v without-input=$nf"
    [ $r -ne 1 ] && rc=1
done
exit $rc
