"""What MANIFEST.json claims, per property (input of tools/gen_manifest.py)."""

CLAIMS = {
    "C01": dict(
        text="Proof for all 252 mnemonics and every operand skeleton the grammar produces, with register numbers, operand values, inline field values "
             "and addresses symbolic over Z: the real table built by init() equals an independent ISA table (closed, exhaustive); the real "
             "compile_insn/get_opcode places every field of every mnemonic exactly where that table says (z3, all field values); each operand stub "
             "(register, 8 addressing modes, immediate/absolute/relative, index with hoisting, FP11 accumulators, inline numbers) returns the "
             "mode/register field and extension word the PDP-11 defines or reports an error; an independent decoder recovers operation, fields and "
             "operand order from every such encoding (exhaustive lemma over all 69121 field combinations).",
        note="Trusted: pyvc semantics of the Python subset, z3, the independent tables spec/pdp11_isa.py and spec/pdp11_decode.py (6 rows have no independent "
             "source), closed facts read from the imported package. Assumed: the parser yields exactly the enumerated operand skeletons (A2); expression "
             "leaves evaluate to an arbitrary integer (C03/C05). compile_insn is proved against the stubs' contracts (modular).",
    ),
    "C04": dict(
        text="Proof for every integer target, address and distance (no bound, wrap-around modulo 2^16 included): OffsetOperandStub.encode accepts exactly "
             "the even offsets in -256..+254 (branches) / -126..0 (SOB), the accepted field makes the machine land on the target, a rejected one is an "
             "error with field 0 (never wrapped); relative and relative-deferred extension words satisfy EA == target (mod 2^16); compile_insn hands operand k "
             "rel_address == emit + 2 + bytes of the preceding extension words; no branch-operand skeleton raises an internal exception.",
        note="Trusted: pyvc, z3, the stated PDP-11 branch/SOB/PC-relative semantics. Assumed: parser skeletons (A2), Symbol._resolve returns an arbitrary integer "
             "(ready or lazy). The '(' / ':' text test of the label fix-up is modelled by per-skeleton text facts.",
    ),
    "C06": dict(
        text="Proof, for all integer operand values and addresses (no bound) and operand counts 0..8: get_as_int satisfies its full case table "
             "(accept exactly |v| < 2^n, reduce mod 2^n, otherwise exactly one error) for every (bitness, signedness, default) incl. symbolic bitness; "
             ".byte/.word/.dword/.blkb/.blkw/.even/.odd/.align/.ascii/.asciz and implicit word lists, executed through the real "
             "Metacommand.compile_insn, emit exactly the specified bytes or report an error. Every path of the real function ASTs is a z3 obligation.",
        note="Trusted: pyvc's semantics of the Python subset, z3, struct.pack model, str.encode for stdlib codecs (external), closed facts read from the imported package. "
             "Outside: parser (escape expansion, tokenisation).",
    ),
}

NOT_APPLICABLE = {}

CLAIMS["C02"] = dict(
    text="Proof with ghost lengths: (1) every SizedDeferred constructed on any path of any unit (the 9 sites and the size= of every directive) announces the real "
         "length of its final bytes unless an error was reported - issued automatically per construction; (2) Deferred/SizedDeferred/Concatenator length and "
         "concatenation contracts on the real deferred.py; (3) the accounting invariant 'error or address == start + bytes so far', together with 'each statement is handed "
         "the running address', over statement lists of ARBITRARY length (loop contract on the real compile_block) and repeat counts of arbitrary size, across 1-3 linked "
         "files and includes; (4) deferred bodies read no variable that changes after their construction (late binding). Zero-size directives emit nothing; .include and "
         "insert_file produce the file's code with an honest length. A run-time check probes every label of the 21-program corpus and of probe programs (testing), "
         "'.' inside repeated bodies, and labels of including / included files. Open finding D38: '. = X' or '.link' inside an INCLUDED file re-bases that file only "
         "(its labels are then not where its bytes lie); the include probes hold outside that region.",
    note="Trusted: pyvc incl. loop contracts and the Lazy/view abstraction (justified by the deferred.py units), z3. Modular: compile_block is proved against the statement "
         "compilers' contracts, which are discharged in their own units. File contents and parser.parse are external.",
)

CLAIMS["C12"] = dict(
    text="Proof over Z: set_link_address settles the base exactly once to the 16-bit value of the expression, reports address-conflict on a second setting and "
         "recursive-definition on self-dependence; '.link' hands it the raw expression; compile_and_link_files defaults to 0o1000 iff nothing set the base and continues "
         "addresses across files; compile_include defaults to the include address; '. = X' with the base set moves the counter to X by zero fill or reports an error "
         "(negative skip), and before any base sets it - for statement lists of arbitrary length; Promise is single-assignment; a base dependence that cancels leaves no "
         "variable, one that does not is not-ready / cyclic. A run-time check assembles link expressions K + sum k*(L-L) and skips 0..64 (testing). Open findings: D39 (a skip "
         "between the labels of a cancelling link expression is refused), D38 (inside an INCLUDED file a further '.link' is accepted and '. = X' re-bases instead of zero-filling).",
    note="Trusted: pyvc, z3, callee contract get_as_int. Observation kept outside the claim: a non-leading '. = X' without a prior .link sets the base. "
         "No reference assembler is installed.",
)

CLAIMS["C03"] = dict(
    text="Proof with a prophecy predicate (defined_later) over arbitrary symbol tables and symbolic names: Symbol._resolve returns a binding only if it is the binding "
         "of the FINAL tables - own scope first, whether the definition precedes or follows, then the exported symbol - and otherwise is not-ready (speculatively) or "
         "reports undefined-symbol (final pass); definitions never overwrite; compile_assignment binds the value through a Deferred to the expression evaluated in the "
         "definition-site state, with no late-bound captured variable; Deferred settles once; operator resolve() denotes the same value now or deferred. "
         "A run-time check assembles a program under random placements/permutations of its definitions and chains of depth 300 / 30 (testing, separate).",
    note="Trusted: pyvc incl. SymMap, z3. Assumed: non-speculative resolution happens only in the final waits; an aborted speculative attempt has no effect but diagnostics "
         "(A3); name classes (A2). Recursion depth is a resource (run-time check only).",
)

CLAIMS["C11"] = dict(
    text="Proof over arbitrary tables and symbolic names: labels and assignments are inserted under the case-folded key of their scope (local scope for numeric labels, "
         "file prefix otherwise), a second definition of a visible name is a duplicate-symbol error that changes nothing, '::' / '==' / '.extern' / '.extern all' export "
         "exactly the stated names, a second export is an error; lookup prefers the own scope (now or later) over exported symbols and never follows anything but the "
         "extern mapping, an invisible name is undefined-symbol; every file gets a fresh prefix; compile_block opens a fresh local scope at block entry and after every "
         "ordinary label, for statement lists of arbitrary length; keys of different scopes never collide (string lemmas). Run-time check: 16 multi-file/scope programs.",
    note="Trusted: pyvc incl. SymMap, z3 strings. Assumed: name classes (A2), final-pass assumption as in C03. Not claimed: comparison with a reference assembler; "
         "visibility of an enclosing scope's local label inside a .repeat body (observation D11).",
)

CLAIMS["C05"] = dict(
    text="Proof over Z for the evaluation side: each of the 12 infix and 4 prefix operator bodies equals the documented arithmetic (floor division and modulo for "
         "either sign, shifts as multiplication / floor division by 2^n, bitwise operators are Python's), division by zero and negative shift counts are "
         "'arithmetic-error' reports; InfixOperator.resolve / UnaryOperator.resolve denote fn(values) for ready and lazy operands; Number.resolve reports 8/9 once; "
         "LinearPolynomial +, -, *, unary -, _wait preserve the abstract value for every valuation (enumerated key structures, symbolic coefficients) with the "
         "representation invariant. Closed: operator spellings, C-like relative precedences, left associativity. The literal scanner and the precedence loop of the "
         "parser are covered only by BOUNDED stand-ins (real parser+assembler vs an independent evaluator), reported separately and not counted as proved.",
    note="Trusted: pyvc, z3, uninterpreted pow2 / bitwise functions on both sides, spec/expr_spec.py. Bounded (not proof): 11900 literal spellings up to length 4; every "
         "ordered operator pair flat and grouped, every prefix/infix combination (triples in thorough). Expression trees of depth 6 through the real parser are not claimed. "
         "The per-token memo of impure operators (defect D3/D48, repaired) is exercised by the resolve-again units: one token evaluated in two states. A bounded grid of operand values (negative, beyond 2^53) stands behind every operator body.",
)

CLAIMS["C07"] = dict(
    text="Proof on the real report machinery and the real main_cli: emit_report latches the error condition on the active handler after calling it, whatever it "
         "returned, and aborts on critical; handle_reports.__exit__ turns a latched error into UnrecoverableError on normal and recoverable exits and pops its stack on "
         "every exit; FilterHandler forwards every non-warning and drops a warning iff disabled or outside the default class; for every outcome class of parse+compile "
         "(clean, warnings only, error then return, error then RecoverableError, critical, internal exception) x output options (8 -o spellings, --implicit-bin, --lst, "
         "0-2 make_* outputs) x I/O failures: exit status != 0 iff an error-severity report, an I/O failure or the internal-error path; nothing is written while an error "
         "is latched; warnings-only runs succeed and write every output with the bytes of its format at its path. Frame: the report handlers write only their own "
         "fields and open nothing. Run-time check: the real CLI on 10 planted faults x 2 report formats x -W selections (testing).",
    note="Trusted: pyvc (with / try / SystemExit), z3; argparse is external (the args object is the input). parse+compile are a contract reporting through the real "
         "emit_report. Known finding proved absent outside its region: D12 (a later write fails after an earlier one succeeded). D8 (image >= 64 KiB) and D47 (-o - with the bare format) were repaired in /repo; a container that cannot be built is a reported failure with nothing written.",
)

CLAIMS["C19"] = dict(
    text="Proof for symbol tables of 0-3 entries with symbolic names and values (file-prefix numbers and key kinds enumerated): generate_listing writes, under each "
         "file's name, exactly one line per file-private symbol and none for scope-local keys; lines are ordered by (value, name); the numeral reads back in base 8 as "
         "the value (negative and > 16 bit values included) and is at least 6 wide; main_cli --lst writes it beside the first output, '.<format>' replaced by '.lst', "
         "'-' -> listing.lst, for 8 output spellings x 0-2 make_* outputs. Label values are the address objects of the C02 accounting. Run-time check on real listings.",
    note="Trusted: pyvc incl. its forking model of list.sort, z3; oct()/int(.,8) are axiomatised (zero padding, sign) and differential-tested by the run-time check. "
         "Known finding D12 as in C07. The sized sites of the data directives and the structural / kernel units are shared (contracts/structure.py); run-time: the byte at every listed label address.",
)

CLAIMS["C08"] = dict(
    text="PARTIAL BY CONSTRUCTION - function-level only: exception freedom (every path ends in a return or in RecoverableError after an error report, "
         "UnrecoverableError after a critical one, NotReadyError speculatively) and termination (loop variants, cycle detection) are proved for 72 functions under "
         "contract, for all values of their inputs: operand stubs for every skeleton incl. registers written %e, data directives incl. '.align 0', all operator bodies, "
         "symbol-table functions, compile_block over statement lists of arbitrary length, the zero-size directives, main_cli (the internal-error path is reached only "
         "through an internal exception of parse/compile). Totality over 'all source texts' is NOT decided: the parser is outside the verifier's subset. A run-time "
         "check feeds 300 (3000 thorough) grammar-directed random programs with planted faults through the real parser+assembler under a watchdog (testing).",
    note="Trusted: pyvc incl. its models of builtin exceptions, z3. Known findings proved absent outside their regions: "
         "D36 (a value of more than 4300 digits quoted in a diagnostic), D12 (shared C07 units). D15 / D16 (cyclic definitions: hang / uncaught DeferredCycle) and D8 were repaired in /repo: cyclic definitions are reported as recursive-definition. Recursion depth/memory/time "
         "are not modelled. The parser's own totality is not claimed.",
)

CLAIMS["C09"] = dict(
    text="Lemmas over the encoder contracts (which are re-discharged against the real code in the same check): relative and relative-deferred words and branch/SOB "
         "displacements to targets inside the program are independent of the link base for all integers incl. wrap-around modulo 2^16; immediate/absolute/index words "
         "and word data move by exactly the base difference; differences of program addresses are constants; LinearPolynomial keeps the base coefficient exact "
         "(x - x has no variable). A run-time check assembles programs with a known number of absolute references at three bases (testing, counted separately).",
    note="Trusted: z3, pyvc. That a given program contains a stated number of absolute references is a whole-program count - only the run-time check looks at it. "
         "Address = base + offset is the C02 accounting invariant.",
)

CLAIMS["C16"] = dict(
    text="Proof: '.repeat' over an arbitrary count (loop contract) compiles the same body in repeat context at the running address and concatenates the copies; "
         "re-compiling the SAME operand tree gives the same mode/register field and extension word for all 19 operand skeletons incl. hoisted index forms, and the same "
         "branch field (label fix-up idempotent) - relational 'twice' obligations on the real stubs; a complete AST inventory shows that the only stores on syntax-tree "
         "tokens outside constructors are allow-listed diagnostics flags / idempotent caches; files are compiled in order at continued addresses with fresh per-file "
         "prefixes; a CompilerStopIteration (.end) returns exactly the bytes accumulated before it; .once stops iff the file was compiled before; insert_file yields "
         "exactly the file's bytes. Run-time check: repeat vs unrolled, files vs concatenation, insert_file vs .byte, .end, .once on the real assembler.",
    note="Trusted: pyvc, z3, the syntactic token-store inventory. Known finding D3 (value cache of impure operators: '.repeat 3 { .word ./2 }') is proved absent outside its "
         "region: pure operators and first evaluations.",
)

CLAIMS["C10"] = dict(
    text="Relational proof on symbolic names: for two spellings with the same lower(), CaseInsensitiveDict agrees on membership, lookup and get over arbitrary content and "
         "finds a key stored under the other spelling; a label or constant defined under one spelling is bound by a reference in another; '(Rn)' vs '@Rn' and 'Rn' vs "
         "'%n' give the same mode/register field; explicit '.word' and the implicit word list are accepted together and give the same bytes and size; grouping style does "
         "not change a value; every register / accumulator spelling in three letter cases maps to its number; synonyms have identical table records (closed). "
         "BOUNDED (not proof): Context.skip_whitespace and Parser.literal exhaustively on small texts. Run-time check: generated programs vs respelled variants.",
    note="Trusted: pyvc incl. SymMap, z3; lower() is uninterpreted with the homomorphism lower(p+n) = lower(p)+lower(n) assumed for the identifiers the parser admits. "
         "The regular-expression scanner (re.I, radix spellings) is outside: bounded stand-ins and testing only. Observation: an implicit word list that begins with an "
         "operator character continues the expression of the previous line (grammar ambiguity) - not counted as a respelling.",
)

CLAIMS["C17"] = dict(
    text="REDUCED SCOPE. Proved (syntactic frame over the ASTs of all report sites): every compile-side diagnostic (insns, compiler, metacommands, metacommand_impl, "
         "operators, types) passes spans (E.ctx_start, E.ctx_end, text) of one token E, and nothing outside Token.__init__ assigns ctx_start/ctx_end - so under the parser's "
         "Token invariant every such diagnostic names the token's own file and a range inside it with start not after end. BOUNDED: Context.__repr__ (line/column, tab = 4 "
         "columns) exhaustively on small texts. NOT provable in this family and only TESTED: that the first reported position is the planted culprit's - 15 fault kinds x "
         "prefixes with tabs / non-ASCII / comments x main, linked and included file on the real assembler.",
    note="The culprit relation is a relation between programs and diagnostics; no per-function contract expresses it. The Token invariant is established by the parser "
         "(assumed). Parser report sites pass raw contexts (counted, not verified).",
    category="proof",
)

CLAIMS["C18"] = dict(
    text="The history quantifier is reduced to a one-state invariant and proved: a complete AST inventory (regenerated every run) shows that the only module- or "
         "class-level state written in any function body is try_compute.depth, Awaiting.awaiting_stack, handle_reports.handlers_stack, Deferred.next_instance_id and "
         "five import-time registries; the real __enter__/__exit__ of TryCompute, Awaiting and handle_reports and Deferred.construct restore depth, stacks and marks on "
         "normal, exceptional and swallowing exits (every outcome of the deferred body incl. NotReadyError, RecoverableError, DeferredCycle, self- and mutual cycles); "
         "next_instance_id reaches only __repr__ text; the package has no set iteration, hash(), id(), time, random or environment reads outside the audio back ends. "
         "A run-time check compares a probe program after random histories and under three PYTHONHASHSEED values (testing, separate).",
    note="Trusted: pyvc incl. Python's with-protocol, z3, the syntactic inventory (an alias of a module-level object under another local name would escape it). "
         "Stdlib-internal hash effects and OS state are external.",
)

CLAIMS["C14"] = dict(
    text="Closed, exhaustive on the real module: all 256 bytes decode and re-encode to themselves; agreement with the stdlib ascii codec on 0x00-0x7E and koi8_r on "
         "0xC0-0xFF; ENCODING_TABLE is exactly the inverse relation of DECODING_TABLE; for each of the 1114112 code points encode succeeds iff the character is in the "
         "table. Proof for strings of arbitrary length (comprehension contract + two loop contracts with variants over the real encode body): success iff every "
         "character is in the table, bytes pointwise from the table, otherwise UnicodeEncodeError('bk', s, start, end) with start the first and end-1 the last "
         "unencodable index, no IndexError; decode pointwise; CharLiteral.resolve reports 'invalid-character' for an unencodable literal and packs two bytes little-endian.",
    note="Trusted: pyvc (loop/comprehension contract rules), z3, stdlib ascii/koi8_r codecs as oracle; large constant tables appear as uninterpreted functions in "
         "the vc part, their content being the closed obligations. Codec registration/dispatch is stdlib machinery.",
)

CLAIMS["C15"] = dict(
    text="Proof for strings of arbitrary length and <n> codes over Z: metacommands.rad50 (through the real Metacommand.compile_insn) is verified with three loop "
         "contracts (character loop, padding loop with a variant, packing loop): the code list is, per chunk and in order, the alphabet index of each upper-cased "
         "character / the raw code, padded with spaces to a multiple of 3; the output is one little-endian word (c1*40+c2)*40+c3 per three codes; an error is reported "
         "iff some character is outside the 40-character alphabet or some <n> is not in 0..39. pack_to_int (the arithmetic of ^R) for lengths 0..3; the table equals the "
         "RADIX-50 alphabet (closed); unpacking recovers the three codes (lemma, all integers in range).",
    note="Trusted: pyvc incl. its cut-point loop rule, z3 (arrays + quantifiers, strings under uninterpreted upper()/find()), struct.pack model. Chunk shapes up to 2 "
         "(quick) / 3 (thorough) chunks are enumerated; string lengths are unbounded. Outside: the regex delimiting '^R' literals (parser).",
)

CLAIMS["C13"] = dict(
    text="Proof for images of any length, any 16-bit base and any 16-byte tape name: bin is base and length as little-endian words then the bytes; raw is the bytes; "
         "make_wav_file writes the canonical 44-byte 8-bit mono PCM RIFF header; encode_data_bits emits 8 pulses per byte least significant bit first; "
         "encode_as_wav (standard and turbo, also through the file_formats wrappers) is sync, header bits, pause, data bits, [pause], checksum bits, EOF with the "
         "checksum equal to the 16-bit end-around-carry sum. Closed: the pulse constants equal the BK tape shapes and are prefix-free. The spec demodulator is also "
         "run on the real encoder's output (run-time check, counted separately).",
    note="Trusted: pyvc, z3, struct.pack model, spec/bk_tape.py as the statement of the tape format. sum(code) is an uninterpreted function of the byte sequence. "
         "Path derivation: add_emitted_file / add_emitted_bk_wav under contract, resolve_relative_path by a bounded stand-in, '.include' parses under the resolved path; "
         "run-time: the real command line from another directory. D8 (image >= 64 KiB) was repaired in /repo: formats.bin_ raises struct.error only when the length does not fit, and the callers report it.",
)
