"""What MANIFEST.json claims, per property (input of tools/gen_manifest.py)."""

CLAIMS = {
    "C06": dict(
        text="Proof, for all integer operand values and addresses (no bound) and operand counts 0..8: get_as_int satisfies its full case table "
             "(accept exactly |v| < 2^n, reduce mod 2^n, otherwise exactly one error) for every (bitness, signedness, default) incl. symbolic bitness; "
             ".byte/.word/.dword/.blkb/.blkw/.even/.odd/.align/.ascii/.asciz and implicit word lists, executed through the real "
             "Metacommand.compile_insn, emit exactly the specified bytes or report an error. Every path of the real function ASTs is a z3 obligation.",
        note="Trusted: pyvc's semantics of the Python subset, z3, struct.pack model, str.encode for stdlib codecs (external), closed facts read from the imported package. "
             "Outside: parser (escape expansion, tokenisation). '.align 0' is excluded by precondition here and owned by C08.",
    ),
}

NOT_APPLICABLE = {}
