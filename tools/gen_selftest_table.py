#!/usr/bin/env python3
"""prints the markdown table of the mutation self-test (DESIGN Appendix C) from tools/selftest.py; with a results file as argv[1] adds the last verdicts"""
import os
import sys
sys.path.insert(0, os.path.dirname(os.path.abspath(__file__)))
import selftest  # noqa

res = {}
if len(sys.argv) > 1 and os.path.exists(sys.argv[1]):
    for line in open(sys.argv[1]):
        f = line.split()
        if len(f) >= 5 and f[2].startswith("exit="):
            rest = line.split(None, 5)
            res[f[0]] = (f[2][5:], rest[5].strip() if len(rest) > 5 else "")
print("| edit | property | file | expected exit | reported by (first line of the last run) |")
print("|---|---|---|---|---|")
for name, prop, fname, old, new, exp in selftest.MUTANTS:
    r = res.get(name, ("", ""))
    ob = r[1].split("obligation=")[-1][:150].replace("|", "\\|") if "obligation=" in r[1] else ""
    print("| %s | %s | %s | %d | %s |" % (name, prop, fname, exp, ob))
