#!/bin/bash
# run every claimed check (quick tier) and print one line per property; exit 1 if any is not 0
cd "$(dirname "$0")/.."
rc=0
for p in $(python3 -c "import json; print(' '.join(c['property_id'] for c in json.load(open('MANIFEST.json'))['checks']))") "$@"; do
  out=$(python3-vt -m pyvc.check $p --tier quick 2>&1); e=$?
  echo "$p exit=$e $(echo "$out" | grep '^\[' | tail -1 | cut -c1-150)"
  [ $e -ne 0 ] && { rc=1; echo "$out" | grep -E 'VIOLATION|UNDECIDED|CRASH' | head -3 | cut -c1-300; }
done
exit $rc
