#!/usr/bin/env python3
"""Mutation self-test of the checks (DESIGN Appendix C): each entry edits a scratch copy of the package
(outside /repo and /verif, removed afterwards) and states which check must turn red (exit 1) - or, for
negative controls, must stay green.  Usage: tools/selftest.py [property ids...]"""
import os
import shutil
import subprocess
import sys
import tempfile

HERE = os.path.dirname(os.path.dirname(os.path.abspath(__file__)))

# (name, property, file, old, new, expected exit)
MUTANTS = [
    ("C01-ash-opcode", "C01", "architecture.py", '"ash"   : "072dss"', '"ash"   : "073dss"', 1),
    ("C01-reg-bits-reversed", "C01", "insns.py", 'operands.append(RegisterOperandStub("s", [2, 1, 0]))', 'operands.append(RegisterOperandStub("s", [0, 1, 2]))', 1),
    ("C01-index-mode", "C01", "insns.py", "return mode_field(0o60, register), SizedDeferred", "return mode_field(0o70, register), SizedDeferred", 1),
    ("C01-autodec-mode", "C01", "insns.py", "return mode_field(0o40, register), b\"\"", "return mode_field(0o50, register), b\"\"", 1),
    ("C01-imm-range", "C01", "insns.py", "max_value = 2 ** bitness - 1", "max_value = 2 ** bitness", 1),
    ("C04-rel-address", "C04", "insns.py", '"rel_address": state["emit_address"] + 2 + len(operands_encoding)', '"rel_address": state["emit_address"] + 2', 1),
    ("C04-max-offset", "C04", "insns.py", "max_offset = 0 if self.unsigned else 2 ** bitness - 2", "max_offset = 0 if self.unsigned else 2 ** bitness", 1),
    ("C04-relative-minus-2", "C04", "insns.py", 'wait(operand.resolve(state) - state["rel_address"] - 2) % (2 ** 16)))\n', 'wait(operand.resolve(state) - state["rel_address"]) % (2 ** 16)))\n', 1),
    ("C06-get_as_int-boundary", "C06", "metacommand_impl.py", "if value <= -2 ** bitness:", "if value < -2 ** bitness:", 1),
    ("C06-dword-halves", "C06", "metacommands.py", 'struct.pack("<H", value >> 16) + struct.pack("<H", value & 0xffff)', 'struct.pack("<H", value & 0xffff) + struct.pack("<H", value >> 16)', 1),
    ("C06-blkw", "C06", "metacommands.py", 'return b"\\x00\\x00" * blkw_count', 'return b"\\x00" * blkw_count', 1),
    ("C13-bit-order", "C13", "bk_wav.py", "[(byte >> i) & 1]", "[(byte >> (7 - i)) & 1]", 1),
    ("C13-bin-endianness", "C13", "formats.py", 'struct.pack("<HH", base, len(code))', 'struct.pack(">HH", base, len(code))', 1),
    ("C13-checksum-modulo", "C13", "bk_wav.py", "return (total - 1) % (2 ** 16 - 1) + 1 if total else 0", "return total % (2 ** 16 - 1)", 1),
    ("C13-wav-header", "C13", "bk_wav.py", "36 + len(data),", "44 + len(data),", 1),
    ("C14-table-transposed", "C14", "bk_encoding.py", '"@"   , "A"   , "B"', '"@"   , "B"   , "A"', 1),
    ("C14-error-end", "C14", "bk_encoding.py", "        end = len(string)\n", "        end = len(string) - 1\n", 1),
    ("C14-error-start", "C14", "bk_encoding.py", "        start = 0\n", "        start = 1\n", 1),
    ("C15-weights", "C15", "metacommands.py", "a * 1600 + b * 40 + c", "a + b * 40 + c * 1600", 1),
    ("C15-pad-modulus", "C15", "metacommands.py", "while len(characters) % 3 != 0:", "while len(characters) % 2 != 0:", 1),
    ("C15-limit", "C15", "metacommands.py", "if val >= 40:", "if val > 40:", 1),
    ("C15-table", "C15", "radix50.py", "XYZ$.%0123", "XYZ.$%0123", 1),
    ("C09-relative-loses-rel", "C09", "insns.py", 'wait(operand.resolve(state) - state["rel_address"] - 2) % (2 ** 16)))\n', 'wait(operand.resolve(state) - 2) % (2 ** 16)))\n', 1),
    ("C05-div-truncates", "C05", "operators.py", "        return a // b\n", "        return int(a / b)\n", 1),
    ("C05-lsh-direction", "C05", "operators.py", "        return a >> -b\n", "        return a >> b\n", 1),
    ("C05-precedence", "C05", "operators.py", '@operator("x & x", precedence=8', '@operator("x & x", precedence=3', 1),
    ("C05-neg-shift-silent", "C05", "operators.py", "    if b >= 0:\n        return a * 2 ** b\n", "    if True:\n        return a * 2 ** abs(b)\n", 1),
    ("C18-trycompute-exit", "C18", "deferred.py", "        self.depth -= 1\n        return exc_type is NotReadyError", "        if exc_type is None:\n            self.depth -= 1\n        return exc_type is NotReadyError", 1),
    ("C18-module-cache", "C18", "types.py", "        compiler = state[\"compiler\"]\n\n        candidates = (", "        compiler = state[\"compiler\"]\n        _SEEN[self.name] = True\n\n        candidates = (", 1),
    ("C18-awaiting-mark", "C18", "deferred.py", "        assert Awaiting.awaiting_stack.pop() is self.deferred\n        self.deferred.is_awaiting = False", "        assert Awaiting.awaiting_stack.pop() is self.deferred\n        if exc_type is None:\n            self.deferred.is_awaiting = False", 1),
    ("C18-handlers-pop-late", "C18", "reports.py", "        assert self.handlers_stack.pop() is self\n\n        if hasattr(self.obj, \"__exit__\"):", "        if hasattr(self.obj, \"__exit__\"):", 1),
    ("C02-dword-size", "C02", "metacommands.py", "@metacommand(size=lambda state, *operands: 4 * (len(operands) or 1))", "@metacommand(size=lambda state, *operands: 2 * (len(operands) or 1))", 1),
    ("C02-wordlist-not-counted", "C02", "compiler.py", "                    chunk = self.compile_word_list(insn, insn.words, state)\n                    data += chunk\n                    if isinstance(chunk, BaseDeferred):\n                        addr += chunk.length()", "                    chunk = self.compile_word_list(insn, insn.words, state)\n                    data += chunk\n                    if isinstance(chunk, BaseDeferred):\n                        addr += 2", 1),
    ("C02-include-size0", "C02", "metacommands.py", "@metacommand\ndef include(", "@metacommand(size=0)\ndef include(", 1),
    ("C02-files-not-continued", "C02", "compiler.py", "            generated_code += data\n            if isinstance(data, BaseDeferred):\n                addr += data.length()", "            generated_code += data\n            if isinstance(data, BaseDeferred):\n                addr += 0", 1),
    ("C12-default-base", "C12", "compiler.py", 'link_base["promise"].settle(0o1000)', 'link_base["promise"].settle(0o2000)', 1),
    ("C12-no-conflict-check", "C12", "compiler.py", '        if state["link_base"]["promise"].settled:\n            prev_link = state["link_base"]["set_where"]', '        if False:\n            prev_link = state["link_base"]["set_where"]', 1),
    ("C12-late-binding", "C12", "compiler.py", "                            closure(insn, addr, state)\n", "                            closure(insn, None, None)\n", 1),
    ("C12-skip-backward-allowed", "C12", "compiler.py", "                                    if length < 0:", "                                    if length < -2:", 1),
    ("C16-repeat-addr", "C02", "metacommands.py", "        if isinstance(chunk, BaseDeferred):\n            addr += chunk.length()\n        else:\n            addr += len(chunk)\n        result += chunk", "        result += chunk", 1),
    ("C03-extern-before-own", "C03", "types.py", "            not_ready()\n            extern = compiler.symbols.get(extern_mapping[1])", "            extern = compiler.symbols.get(extern_mapping[1])", 1),
    ("C03-eager-assignment", "C03", "compiler.py", "self.symbols[name] = (insn, Deferred[int](lambda: insn.value.resolve(state), insn.target.name))", "self.symbols[name] = (insn, insn.value.resolve(state))", 1),
    ("C11-no-scope-bump", "C11", "compiler.py", "                    if not insn.local:\n                        local_symbol_prefix = f\".local{self.next_local_symbol_prefix}.\"\n                        self.next_local_symbol_prefix += 1", "                    if not insn.local:\n                        self.next_local_symbol_prefix += 1", 1),
    ("C11-duplicate-overwrites", "C11", "compiler.py", "                (prev_sym.ctx_start, prev_sym.ctx_end, \"A symbol with the same name has been already declared here\")\n            )\n            return\n\n        self.symbols[name] = (label, addr)", "                (prev_sym.ctx_start, prev_sym.ctx_end, \"A symbol with the same name has been already declared here\")\n            )\n\n        self.symbols[name] = (label, addr)", 1),
    ("C11-private-leak", "C11", "types.py", "        not_ready()\n        # TODO: check if there's a local symbol", "        for _k, (_ok, _v) in compiler.symbols.container.items():\n            if _k.endswith(\".\" + self.name.lower()):\n                return _v\n        not_ready()\n        # TODO: check if there's a local symbol", 1),
    ("C11-extern-key", "C11", "compiler.py", 'self.extern_symbols_mapping[name] = location, state["internal_symbol_prefix"] + name', 'self.extern_symbols_mapping[name] = location, name', 1),
    ("C07-emit-inside-with", "C07", "_cli.py", "            base, code = comp.compile_and_link_files(parsed_files)\n\n\n        with reports.handle_reports(report_handler):\n            was_emitted, emitted_file = comp.emit_files(base, code)", "            base, code = comp.compile_and_link_files(parsed_files)\n            was_emitted, emitted_file = comp.emit_files(base, code)", 1),
    ("C07-latch-needs-handler-result", "C07", "reports.py", "    handler(priority, identifier, *reports)\n\n    if priority in (error, critical):", "    shown = handler(priority, identifier, *reports)\n\n    if shown and priority in (error, critical):", 1),
    ("C07-recoverable-swallowed", "C07", "reports.py", "                if exc_type is None or exc_type is RecoverableError:\n                    raise UnrecoverableError()", "                if exc_type is None:\n                    raise UnrecoverableError()", 1),
    ("C07-filter-drops-errors", "C07", "reports.py", "        if priority is warning:\n            if identifier in self.warning_control:", "        if True:\n            if identifier in self.warning_control:", 1),
    ("C19-lst-suffix", "C07", "_cli.py", "                    lst_file = lst_file.rpartition(\".\")[0]\n", "                    pass\n", 1),
    ("C13-o-format-case", "C07", "_cli.py", "            if output_filename.lower().endswith(\".bin\"):", "            if output_filename.endswith(\".bin\"):", 1),
    ("C07-io-error-ignored", "C07", "_cli.py", "                    print(f\"Could not write to '{output_file}':\\n{ex}\", file=sys.stderr)\n                    sys.exit(1)", "                    print(f\"Could not write to '{output_file}':\\n{ex}\", file=sys.stderr)", 1),
    ("C19-sort-key", "C19", "compiler.py", "labels.sort(key=lambda item: (item[1], item[0]))", "labels.sort(key=lambda item: (item[0], item[1]))", 1),
    ("C19-field-width", "C19", "compiler.py", ".rjust(6, \"0\")", ".rjust(5, \"0\")", 1),
    ("C19-local-listed", "C19", "compiler.py", "            if name.startswith(\".internal\"):", "            if name.startswith(\".\"):", 1),
    ("C16-destructive-hoist", "C16", "insns.py", "                    inner = type(token)(token.ctx_start, rhs.lhs.ctx_end, token.lhs, rhs.lhs)\n                    return operators.call(token.ctx_start, token.ctx_end, inner, rhs.rhs)", "                    token.rhs = rhs.lhs\n                    return operators.call(token.ctx_start, token.ctx_end, token, rhs.rhs)", 1),
    ("C16-repeat-context", "C16", "metacommands.py", 'compile_block({**state, "context": "repeat"}, body, addr)', 'compile_block({**state, "context": "repeat"}, body, state["emit_address"])', 1),
    ("C16-end-keeps-going", "C16", "compiler.py", "        except CompilerStopIteration:\n            pass\n\n        return data", "        except CompilerStopIteration:\n            data += b\"\\x00\"\n\n        return data", 1),
    ("C16-once-off-by-one", "C16", "metacommands.py", 'if state["compiler"].times_file_compiled[state["filename"]] > 1:', 'if state["compiler"].times_file_compiled[state["filename"]] > 2:', 1),
    ("C16-new-token-cache", "C16", "types.py", "    def resolve(self, state):\n        return state[\"emit_address\"]", "    def resolve(self, state):\n        if not hasattr(self, \"cached\"):\n            self.cached = state[\"emit_address\"]\n        return self.cached", 1),
    ("C10-register-case", "C10", "insns.py", "not operand.is_necessarily_label and operand.name.lower() in REGISTER_NAMES:", "not operand.is_necessarily_label and operand.name in REGISTER_NAMES:", 1),
    ("C10-dict-contains-case", "C10", "containers.py", "return isinstance(key, str) and key.lower() in self.container", "return isinstance(key, str) and key in self.container", 1),
    ("C10-skip-tabs", "C10", "context.py", 'if self.code[self.pos].strip() == "":', 'if self.code[self.pos] in " \\n":', 1),
    ("C17-tab-width", "C17", "context.py", '.count("\\t") * 3', '.count("\\t") * 4', 1),
    ("C17-span-mixed", "C17", "insns.py", "(operand.ctx_start, operand.ctx_end, \"...but this value does not look like a register\")", "(operand.ctx_start, insn.ctx_end, \"...but this value does not look like a register\")", 1),
    ("C17-line-number", "C17", "context.py", 'line_no = self.code[:self.pos].count("\\n")', 'line_no = self.code[:self.pos + 1].count("\\n")', 1),
    ("C13-default-name-case", "C13", "metacommands.py", "        write_path = state[\"filename\"]\n        if write_path.lower().endswith(\".mac\"):\n            write_path = write_path[:-4]\n        if file_extension", "        write_path = state[\"filename\"]\n        if write_path.endswith(\".mac\"):\n            write_path = write_path[:-4]\n        if file_extension", 1),
    ("C13-tape-name-padding", "C13", "metacommands.py", "encoded_bk_filename = encoded_bk_filename.ljust(16, b\" \")", "encoded_bk_filename = encoded_bk_filename.ljust(16, b\"\\0\")", 1),
    ("C13-tape-name-from-path", "C13", "metacommands.py", "        if bk_filename.lower().endswith(\".wav\"):\n            bk_filename = bk_filename[:-4]", "        if bk_filename.lower().endswith(\".wav\"):\n            bk_filename = bk_filename[:-3]", 1),
    ("C13-raw-gets-extension", "C13", "metacommands.py", "add_emitted_file(state, raw_file_path, \"raw\", None)", "add_emitted_file(state, raw_file_path, \"raw\", \"raw\")", 1),
    ("C17-line-start-off-by-one", "C17", "context.py", 'idx_line_start = self.code.rfind("\\n", 0, self.pos) + 1', 'idx_line_start = self.code.rfind("\\n", 0, self.pos)', 1),
    ("C17-line-count-from-whole-text", "C17", "context.py", 'line_no = self.code[:self.pos].count("\\n")', 'line_no = self.code.count("\\n")', 1),
    ("C10-implicit-word-drops-name", "C10", "compiler.py", "words = [insn.name] + insn.operands[:]", "words = insn.operands[:] or [insn.name]", 1),
    ("C10-dotless-goes-to-instruction", "C10", "compiler.py", 'return builtin_commands["." + insn.name.name].compile_insn(state, insn)', 'return builtin_commands["." + insn.name.name.lower()].compile_insn(dict(state), insn)', 1),
    ("C11-bare-name-before-file-prefix", "C11", "compiler.py", 'candidates = (state["internal_symbol_prefix"] + insn.name.name, insn.name.name)', 'candidates = (insn.name.name, ".internal9." + insn.name.name)', 1),
    ("C08-chr-overflow-uncaught", "C08", "types.py", "        except (ValueError, OverflowError):\n            self.reported_error = True", "        except ValueError:\n            self.reported_error = True", 1),
    ("C06-string-chunks-reversed", "C06", "types.py", 'return "".join(get_as_str(state, "string chunk", self, chunk) for chunk in self.chunks)', 'return "".join(get_as_str(state, "string chunk", self, chunk) for chunk in reversed(self.chunks))', 1),
    ("C05-impure-cache-returns-first", "C05", "operators.py", "        if expr.value is None or expr.value[0] != args:", "        if expr.value is None:", 1),
    ("C05-caret-D-unicode-digits", "C05", "parser.py", '("^D", "A decimal", r"[0-9]", 10)', '("^D", "A decimal", r"\\d", 10)', 1),
    ("C12-wait-single-pass", "C12", "deferred.py", "            if not progress or all(key.is_awaiting for key in self.coeffs):", "            if True:", 1),
    ("C14-include-locale-encoding", "C14", "metacommands.py", 'with open(include_path, "r", encoding="utf-8") as f:', 'with open(include_path, "r") as f:', 1),
    ("C18-include-locale-encoding", "C18", "metacommands.py", 'with open(include_path, "r", encoding="utf-8") as f:', 'with open(include_path, "r") as f:', 1),
    ("C07-unused-symbols-not-resolved", "C07", "compiler.py", "            try:\n                wait(value)\n            except DeferredCycle:", "            try:\n                pass\n            except DeferredCycle:", 1),
    ("C19-bare-word-announces-1", "C19", "metacommands.py", "@metacommand(size=lambda state, *operands: 2 * (len(operands) or 1), alias=\".dw\")", "@metacommand(size=lambda state, *operands: 2 * len(operands) or 1, alias=\".dw\")", 1),
    ("C04-nested-constant-unscaled", "C04", "deferred.py", "                    new_constant_term += resolved.constant_term * value", "                    new_constant_term += resolved.constant_term", 1),
    ("C06-repeat-addr", "C06", "metacommands.py", "        if isinstance(chunk, BaseDeferred):\n            addr += chunk.length()\n        else:\n            addr += len(chunk)\n        result += chunk", "        result += chunk", 1),
    ("C14-tape-name-stripped", "C14", "metacommands.py", "def encode_bk_filename(state, bk_filename):\n    try:", "def encode_bk_filename(state, bk_filename):\n    bk_filename = bk_filename.strip()\n    try:", 1),
    ("C10-implicit-word-own-address", "C10", "compiler.py", 'words = [get_as_int(state, "implicit word", insn, word, bitness=16, unsigned=False) for word in insn_words]', 'words = [get_as_int({**state, "emit_address": state["emit_address"] + 2 * i}, "implicit word", insn, word, bitness=16, unsigned=False) for i, word in enumerate(insn_words)]', 1),
    ("C08-cycle-not-reported-by-get_as_int", "C08", "metacommand_impl.py", "        if not cycle_is_reported:\n            raise\n        report_cycle(what, arg_token)", "        raise", 1),
    ("C08-alias-cycle-unchecked", "C08", "deferred.py", "            if alias is self:\n                raise DeferredCycle(self)", "            if False:\n                raise DeferredCycle(self)", 1),
    ("C08-open_device-lets-ValueError-out", "C08", "devices.py", "        except ValueError as ex:\n", "        except KeyError as ex:\n", 1),
    ("C08-unknown-escape-kept", "C08", "parser.py", "            (ctx_start, ctx, f\"Unknown escape '\\\\{char}' in a string\")\n        )\n        return \"\"", "            (ctx_start, ctx, f\"Unknown escape '\\\\{char}' in a string\")\n        )\n        return \"\\\\\" + char", 1),
    ("C08-excess-quote-index-off-by-one", "C08", "parser.py", '"Please remove the second quotation mark."][len(value)]', '"Please remove the second quotation mark."][len(value) + 1]', 1),
    ("NEG-hex-escape-call-respaced", "C08", "parser.py", 'num = Parser.regex(r"[0-9a-f]{2}", skip_whitespace_before=False)', 'num = Parser.regex(r"[0-9a-f]{2}",  skip_whitespace_before=False)', 0),
    ("C16-extern-all-not-carried", "C16", "compiler.py", 'state = {**state, "insn": insn, "emit_address": addr, "local_symbol_prefix": local_symbol_prefix}', 'state = {**state, "insn": insn, "emit_address": addr, "local_symbol_prefix": local_symbol_prefix, "extern_all": None}', 1),
    ("C13-include-parsed-under-written-path", "C13", "metacommands.py", "file_ast = parser.parse(include_path, code)", "file_ast = parser.parse(included_file_path, code)", 1),
    ("NEG-symbols-before-base(harmless since fix D54)", "C12", "compiler.py", "        if not link_base[\"promise\"].settled:\n            link_base[\"promise\"].settle(0o1000)\n", "        if not link_base[\"promise\"].settled:\n            link_base[\"promise\"].settle(0o1000)\n        for _, (symbol, value) in self.symbols.items():\n            wait(value)\n", 0),
    # negative controls: semantically neutral edits, every check must stay green
    ("NEG-rename-local", "C06", "metacommand_impl.py", "        report_cycle(what, arg_token)\n\n    if not isinstance(value, int):", "        report_cycle(what, arg_token)\n    _unused = 1\n\n    if not isinstance(value, int):", 0),
    ("NEG-candidate-order", "C03", "types.py", "            state[\"local_symbol_prefix\"] + self.name,\n            state[\"internal_symbol_prefix\"] + self.name\n", "            state[\"internal_symbol_prefix\"] + self.name,\n            state[\"local_symbol_prefix\"] + self.name\n", 0),
    ("NEG-comment-lines", "C01", "insns.py", "def try_as_register(operand, state):", "# a comment\n\ndef try_as_register(operand, state):", 0),
]


def run(selected):
    results = []
    for name, prop, fname, old, new, expected in MUTANTS:
        if selected and prop not in selected and name not in selected:
            continue
        tmp = tempfile.mkdtemp(prefix="pyvc-mut-")
        try:
            shutil.copytree("/repo/pdpy11", os.path.join(tmp, "pdpy11"), ignore=shutil.ignore_patterns("__pycache__"))
            p = os.path.join(tmp, "pdpy11", fname)
            s = open(p).read()
            if s.count(old) < 1:
                results.append((name, prop, "EDIT-NOT-APPLICABLE", expected))
                continue
            open(p, "w").write(s.replace(old, new, 1))
            env = dict(os.environ, PDPY11_SRC=tmp, PYVC_NO_EVIDENCE="1")
            r = subprocess.run(["python3-vt", "-m", "pyvc.check", prop, "--tier", "quick"], cwd=HERE, env=env, capture_output=True, text=True)
            line = [l for l in r.stdout.splitlines() if l.startswith(("VIOLATION", "UNDECIDED"))][:1]
            results.append((name, prop, r.returncode, expected, line[0][:220] if line else ""))
        finally:
            shutil.rmtree(tmp, ignore_errors=True)
    ok = True
    for res in results:
        good = res[2] == res[3]
        ok &= good
        print("%-28s %-4s exit=%s expected=%s %s %s" % (res[0], res[1], res[2], res[3], "OK " if good else "MISS", res[4] if len(res) > 4 else ""))
    return 0 if ok else 1


if __name__ == "__main__":
    sys.exit(run(set(sys.argv[1:])))
