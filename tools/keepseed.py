#!/usr/bin/env python3
"""keep a confirmed seeded change: tools/keepseed.py <seed_out dir> <seed id> <property> <needs> <caught-by> [<note>]
Confirms (again) in the scratch worktree that the demonstration fails with the change and passes on /repo, then copies
patch.diff, demo.py, notes.txt and writes meta.json under /verif/seeded/<seed id>/."""
import json
import os
import shutil
import subprocess
import sys

src, sid, prop, needs, caught = sys.argv[1:6]
note = sys.argv[6] if len(sys.argv) > 6 else ""
wt = os.path.dirname(os.path.abspath(src))
dst = os.path.join("/verif/seeded", sid)
os.makedirs(dst, exist_ok=True)
for f in os.listdir(src):
    if os.path.isfile(os.path.join(src, f)) and os.path.getsize(os.path.join(src, f)) < 200000:
        shutil.copy(os.path.join(src, f), dst)
demo = [f for f in os.listdir(src) if f.startswith("demo")][0]
r1 = subprocess.run(["/venv/bin/python", os.path.join(src, demo), wt], capture_output=True, text=True, cwd="/tmp")
r0 = subprocess.run(["/venv/bin/python", os.path.join(src, demo), "/repo"], capture_output=True, text=True, cwd="/tmp")
t = subprocess.run(["/venv/bin/python", "-m", "pytest", "-q", "-p", "no:cacheprovider", "--continue-on-collection-errors"], capture_output=True, text=True, cwd=wt)
tests = t.stdout.strip().splitlines()[-1] if t.stdout.strip() else "?"
meta = dict(
    seed=sid, property=prop, needs_to_manifest=needs,
    confirmed=dict(
        tests_with_change=tests,
        demo_with_change=dict(exit=r1.returncode, output=(r1.stdout + r1.stderr)[-600:]),
        demo_on_repo=dict(exit=r0.returncode, output=(r0.stdout + r0.stderr)[-300:]),
    ),
    ran=["pytest in the scratch worktree with the change", "demo on the scratch worktree and on /repo",
         "git -C /repo apply patch.diff; python3-vt -m pyvc.check %s --tier quick; git -C /repo checkout -- .  (tools/seedtest.sh)" % prop],
    caught_by=caught, note=note,
)
json.dump(meta, open(os.path.join(dst, "meta.json"), "w"), indent=1)
print(json.dumps(meta["confirmed"], indent=1)[:900])
ok = r1.returncode == 1 and r0.returncode == 0 and "180 passed" in tests
print("CONFIRMED" if ok else "NOT CONFIRMED")
sys.exit(0 if ok else 1)
