#!/bin/bash
# usage: tools/seedtest.sh <seed dir containing patch.diff> <property id> [more ids...]
# applies the seeded change to /repo, runs the quick checks named, and restores /repo straight afterwards (also on interrupt).
# No evidence is written (PYVC_NO_EVIDENCE=1): evidence describes the unchanged tree only.
set -u
dir=$1; shift
cd /verif
if ! git -C /repo diff --quiet; then echo "refusing: /repo has uncommitted changes"; exit 3; fi
trap 'git -C /repo checkout -- . ; rm -rf /repo/pdpy11/__pycache__' EXIT
git -C /repo apply "$dir/patch.diff" || exit 3
rc=0
for id in "$@"; do
    out=$(PYVC_NO_EVIDENCE=1 python3-vt -m pyvc.check "$id" --tier "${TIER:-quick}" 2>&1); r=$?
    echo "== $id exit=$r"
    echo "$out" | grep -E "^(VIOLATION|KNOWN-FINDING|UNDECIDED|  (failed|unknown))" | head -${LINES_SHOWN:-12}
    [ $r -ne 0 ] && rc=1
done
exit $rc
