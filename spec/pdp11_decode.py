"""Independent PDP-11 decoder (word side): the reader of C01's statement.

decode(word) -> (operation, fields) where `fields` are the inline fields in SOURCE OPERAND ORDER of
the canonical mnemonic, or ("illegal", []) when the word is not an instruction of the documented
sets.  Written as a mask/match cascade from the handbook's opcode map (most specific first), not
from pdpy11's table; spec/pdp11_isa.py is written from the mnemonic side, and the two are checked
against each other (decode(base | fields) must return the row) before either is used.

Extension words: an `rm`/`frm` field with mode 6 or 7, or with register 7 and mode 2 or 3, is
followed by exactly one extension word (index / immediate / absolute / relative).  ext_words(f).
"""

BRANCHES = {0o000400: "br", 0o001000: "bne", 0o001400: "beq", 0o002000: "bge", 0o002400: "blt", 0o003000: "bgt", 0o003400: "ble",
            0o100000: "bpl", 0o100400: "bmi", 0o101000: "bhi", 0o101400: "blos", 0o102000: "bvc", 0o102400: "bvs", 0o103000: "bcc", 0o103400: "bcs"}
SINGLE = {0o0001: "jmp", 0o0003: "swab", 0o0050: "clr", 0o0051: "com", 0o0052: "inc", 0o0053: "dec", 0o0054: "neg", 0o0055: "adc", 0o0056: "sbc",
          0o0057: "tst", 0o0060: "ror", 0o0061: "rol", 0o0062: "asr", 0o0063: "asl", 0o0065: "mfpi", 0o0066: "mtpi", 0o0067: "sxt",
          0o0070: "csm", 0o0072: "tstset", 0o0073: "wrtlck",
          0o1050: "clrb", 0o1051: "comb", 0o1052: "incb", 0o1053: "decb", 0o1054: "negb", 0o1055: "adcb", 0o1056: "sbcb", 0o1057: "tstb",
          0o1060: "rorb", 0o1061: "rolb", 0o1062: "asrb", 0o1063: "aslb", 0o1064: "mtps", 0o1065: "mfpd", 0o1066: "mtpd", 0o1067: "mfps",
          0o1701: "ldfps", 0o1702: "stfps", 0o1703: "stst"}
DOUBLE = {0o01: "mov", 0o02: "cmp", 0o03: "bit", 0o04: "bic", 0o05: "bis", 0o06: "add", 0o11: "movb", 0o12: "cmpb", 0o13: "bitb", 0o14: "bicb", 0o15: "bisb", 0o16: "sub"}
EXACT = {0o000000: "halt", 0o000001: "wait", 0o000002: "rti", 0o000003: "bpt", 0o000004: "iot", 0o000005: "reset", 0o000006: "rtt", 0o000007: "mfpt",
         0o000012: "start", 0o000016: "step", 0o000020: "rd", 0o000021: "urd", 0o000022: "rdpc", 0o000024: "rdps", 0o000031: "uwr", 0o000032: "wrpc",
         0o000034: "wrps", 0o000220: "u3000",
         0o170000: "cfcc", 0o170001: "setf", 0o170002: "seti", 0o170003: "ldub", 0o170004: "ldsc", 0o170005: "sta0", 0o170006: "stb0", 0o170007: "stq0",
         0o170011: "setd", 0o170012: "setl", 0o076600: "med", 0o076601: "med74c"}
CIS_R = {0o30: "movc", 0o31: "movrc", 0o32: "movtc", 0o40: "locc", 0o41: "skpc", 0o42: "scanc", 0o43: "spanc", 0o44: "cmpc", 0o45: "matc",
         0o50: "addn", 0o51: "subn", 0o52: "cmpn", 0o53: "cvtnl", 0o54: "cvtpn", 0o55: "cvtnp", 0o56: "ashn", 0o57: "cvtln",
         0o70: "addp", 0o71: "subp", 0o72: "cmpp", 0o73: "cvtpl", 0o74: "mulp", 0o75: "divp", 0o76: "ashp", 0o77: "cvtlp"}
CC = {1: "c", 2: "v", 4: "z", 8: "n"}
FP_SRC_AC = {0o1710: "mulf", 0o1714: "modf", 0o1720: "addf", 0o1724: "ldf", 0o1730: "subf", 0o1734: "cmpf", 0o1744: "divf", 0o1774: "ldcfd"}
FP_AC_FDST = {0o1740: "stf", 0o1760: "stcfd"}
FP_AC_DST = {0o1750: "stexp", 0o1754: "stcfi"}
FP_CPU_SRC_AC = {0o1764: "ldexp", 0o1770: "ldcif"}
FP_ONE = {0o1704: "clrf", 0o1705: "tstf", 0o1706: "absf", 0o1707: "negf"}

# canonical spelling of every synonym the assembler accepts
CANON = {"bhis": "bcc", "blo": "bcs", "ccc": "clnzvc", "scc": "senzvc", "sys": "trap", "hlt": "halt", "return": "ret", "callr": "jmp",
         "med6x": "med", "mns": "ldsc", "msn": "ldsc", "mpp": "sta0", "mrs": "stb0",
         "clrd": "clrf", "tstd": "tstf", "absd": "absf", "negd": "negf", "muld": "mulf", "modd": "modf", "addd": "addf", "ldd": "ldf", "subd": "subf",
         "cmpd": "cmpf", "std": "stf", "divd": "divf", "stcfl": "stcfi", "stcdi": "stcfi", "stcdl": "stcfi", "stcdf": "stcfd",
         "ldcid": "ldcif", "ldclf": "ldcif", "ldcld": "ldcif", "ldcdf": "ldcfd"}
# macro mnemonics: what the machine executes, as (operation, function from the macro's own fields to that operation's fields)
MACROS = {"push": ("mov", lambda f: [f[0], 0o46]), "pop": ("mov", lambda f: [0o26, f[0]]), "call": ("jsr", lambda f: [7, f[0]]),
          "ret": ("rts", lambda f: [7])}


def decode(w):
    assert 0 <= w < 1 << 16
    if w in EXACT:
        return EXACT[w], []
    if w & 0o177770 == 0o000200:
        return "rts", [w & 7]
    if w & 0o177770 == 0o000210:
        return "medlsi", [w & 7]
    if w & 0o177770 == 0o000230:
        return "spl", [w & 7]
    if w & 0o177740 == 0o000240:
        bits = w & 0o17
        if bits == 0:
            # 000240 and 000260 both do nothing; only 000240 has a mnemonic
            return ("nop", []) if w == 0o000240 else ("illegal", [])
        return ("se" if w & 0o20 else "cl") + "".join(CC[b] for b in (8, 4, 2, 1) if bits & b), []
    if w & 0o177700 == 0o006400:
        return "mark", [w & 0o77]
    if w >> 6 in SINGLE:
        return SINGLE[w >> 6], [w & 0o77]
    if w & 0o103400 in BRANCHES and w & 0o074000 == 0 and (w & 0o103400) != 0:
        # 0 000 0xx x.. ........ and 1 000 0xx x.. ........ : branch block (000400-003777, 100000-103777)
        return BRANCHES[w & 0o103400], [w & 0o377]
    if w & 0o177400 == 0o100000:
        return "bpl", [w & 0o377]
    if w & 0o177000 == 0o004000:
        return "jsr", [(w >> 6) & 7, w & 0o77]
    if w & 0o177400 == 0o104000:
        return "emt", [w & 0o377]
    if w & 0o177400 == 0o104400:
        return "trap", [w & 0o377]
    if (w >> 12) in DOUBLE:
        return DOUBLE[w >> 12], [(w >> 6) & 0o77, w & 0o77]
    if w & 0o177000 in (0o070000, 0o071000, 0o072000, 0o073000):
        return {0: "mul", 1: "div", 2: "ash", 3: "ashc"}[(w >> 9) & 7], [w & 0o77, (w >> 6) & 7]
    if w & 0o177000 == 0o074000:
        return "xor", [(w >> 6) & 7, w & 0o77]
    if w & 0o177740 == 0o075000:
        return ["fadd", "fsub", "fmul", "fdiv"][(w >> 3) & 3], [w & 7]
    if w & 0o177770 == 0o076020:
        return "l2dr", [w & 7]
    if w & 0o177770 == 0o076060:
        return "l3dr", [w & 7]
    if w & 0o177700 == 0o076000 and (w & 0o77) in CIS_R:
        return CIS_R[w & 0o77], []
    if w & 0o177700 == 0o076100 and (w & 0o77) in CIS_R:
        return CIS_R[w & 0o77] + "i", []
    if w & 0o177700 == 0o076700:
        return "xfc", [w & 0o77]
    if w & 0o177000 == 0o077000:
        return "sob", [(w >> 6) & 7, w & 0o77]
    if w >> 6 in FP_ONE:
        return FP_ONE[w >> 6], [w & 0o77]
    key = (w >> 6) & 0o1774
    if key in FP_SRC_AC:
        return FP_SRC_AC[key], [w & 0o77, (w >> 6) & 3]
    if key in FP_AC_FDST:
        return FP_AC_FDST[key], [(w >> 6) & 3, w & 0o77]
    if key in FP_AC_DST:
        return FP_AC_DST[key], [(w >> 6) & 3, w & 0o77]
    if key in FP_CPU_SRC_AC:
        return FP_CPU_SRC_AC[key], [w & 0o77, (w >> 6) & 3]
    return "illegal", []


def ext_words(field):
    """number of extension words a 6-bit mode/register field consumes"""
    mode, reg = field >> 3, field & 7
    if mode in (6, 7):
        return 1
    if reg == 7 and mode in (2, 3):
        return 1
    return 0


def sext8(f):
    return f - 256 if f >= 128 else f
