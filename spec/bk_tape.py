"""BK-0010 tape format: the statement of C13's WAV clause (independent of pdpy11/bk_wav.py).

Signal: 8-bit unsigned PCM, mono.  A *pulse* is a run of high samples (>= 128) followed by a run of low
samples (< 128) of the same width.  Widths in the standard (non-turbo) format, in samples at 21428 Hz:

    short   2 high + 2 low      pilot tone, the synchro pulse in front of every bit, and data bit 0
    long    4 high + 4 low      data bit 1
    marker  8 high + 8 low      end-of-pilot marker; it is followed by one long pulse

A data bit is a short synchro pulse followed by a short (0) or long (1) data pulse; bytes go least
significant bit first.  A block is: pilot (>= 8 short pulses), marker, long pulse, then the bits.
File: [pilot 4096 + marker + 1] [pilot + marker + 1] header(20 bytes: address, length - little-endian
words - and a 16-byte name) [pilot + marker + 1] data bytes, checksum word (little-endian), trailer pilot.
Checksum: 16-bit sum of the data bytes with end-around carry.
"""
import struct

HI, LO = 128, 127  # demodulator threshold: >= 128 is high


def eac16(total):
    """16-bit end-around-carry sum of a byte total: 0 only for an all-zero image"""
    if total == 0:
        return 0
    return (total - 1) % 65535 + 1


def eac16_stepwise(data):
    """the same, computed the way the BK monitor does it (add with carry folded back in)"""
    acc = 0
    for b in data:
        acc += b
        if acc > 0xFFFF:
            acc = (acc & 0xFFFF) + 1
    return acc


def pulses(samples):
    """run-length decode into (high width, low width) pulses; a trailing incomplete pulse is an error"""
    out = []
    i, n = 0, len(samples)
    while i < n:
        h = 0
        while i < n and samples[i] >= 128:
            h += 1
            i += 1
        lo = 0
        while i < n and samples[i] < 128:
            lo += 1
            i += 1
        out.append((h, lo))
    return out


def classify(p, unit=2):
    h, lo = p
    if h != lo:
        return "?"
    return {unit: "S", 2 * unit: "L", 4 * unit: "M"}.get(h, "?")


def demodulate(samples):
    """standard-format demodulator -> dict(base, length, name, data, checksum) ; raises ValueError on malformed tape"""
    ps = [classify(p) for p in pulses(samples)]
    if "?" in ps:
        raise ValueError("unrecognised pulse width at %d" % ps.index("?"))
    pos = 0

    def pilot(minimum):
        nonlocal pos
        n = 0
        while pos < len(ps) and ps[pos] == "S":
            n += 1
            pos += 1
        if n < minimum:
            raise ValueError("pilot too short (%d) at %d" % (n, pos))
        if ps[pos:pos + 2] != ["M", "L"]:
            raise ValueError("no marker after pilot at %d" % pos)
        pos += 2
        return n

    def byte():
        nonlocal pos
        v = 0
        for i in range(8):
            if pos + 1 >= len(ps):
                raise ValueError("truncated")
            if ps[pos] != "S" or ps[pos + 1] not in "SL":
                raise ValueError("bad bit at %d" % pos)
            v |= (ps[pos + 1] == "L") << i
            pos += 2
        return v

    lead = pilot(4096)
    pilot(8)
    header = bytes(byte() for _ in range(20))
    base, length = struct.unpack("<HH", header[:4])
    pilot(8)
    data = bytes(byte() for _ in range(length))
    checksum = byte() | byte() << 8
    trailer = 0
    while pos < len(ps) and ps[pos] == "S":
        trailer += 1
        pos += 1
    if pos != len(ps):
        raise ValueError("garbage after trailer at %d" % pos)
    return dict(base=base, length=length, name=header[4:], data=data, checksum=checksum, lead=lead, trailer=trailer)


def riff_header(n, rate):
    """canonical 44-byte header of an 8-bit mono PCM WAV with n data bytes"""
    return (b"RIFF" + struct.pack("<I", 36 + n) + b"WAVE" + b"fmt " + struct.pack("<IHHIIHH", 16, 1, 1, rate, rate * 1 * 8 // 8, 1 * 8 // 8, 8)
            + b"data" + struct.pack("<I", n))


# pulse shapes of the standard format as level strings (S = synchro-high 200, H = data-high 208, L = low 48: both highs are >= 128)
STD = dict(short_sync="SSLL", zero="SSLL" + "HHLL", one="SSLL" + "HHHHLLLL", marker="SSSSSSSSLLLLLLLL" + "HHHHLLLL", rate=21428)
