"""RADIX-50 (the statement of C15, independent of pdpy11/radix50.py): 40-character alphabet, three characters per
16-bit word: word = (c1*40 + c2)*40 + c3; strings are upper-cased and padded with spaces (code 0) to a multiple of 3."""
ALPHABET = " " + "ABCDEFGHIJKLMNOPQRSTUVWXYZ" + "$" + "." + "%" + "0123456789"
assert len(ALPHABET) == 40 and len(set(ALPHABET)) == 40


def pack(text):
    text = text.upper()
    text += " " * (-len(text) % 3)
    return [(ALPHABET.index(text[i]) * 40 + ALPHABET.index(text[i + 1])) * 40 + ALPHABET.index(text[i + 2]) for i in range(0, len(text), 3)]


def unpack(words):
    out = ""
    for w in words:
        if not 0 <= w < 64000:
            raise ValueError(w)
        out += ALPHABET[w // 1600] + ALPHABET[w // 40 % 40] + ALPHABET[w % 40]
    return out
