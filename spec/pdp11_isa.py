"""Independent PDP-11 instruction-set table: the *statement* of C01.

Written from the PDP-11 processor handbook (base set, EIS, FIS), the FP11 manual, the CIS (commercial
instruction set) opcode list, PDP-11/60 and LSI-11 maintenance opcodes, and the KM1801VM1/VM2 opcode
lists - NOT derived from pdpy11/architecture.py.  One row per mnemonic the assembler accepts:

    mnemonic -> (base opcode, format, source)

A *format* lists, in SOURCE OPERAND ORDER, each operand's kind and the position (shift, width) of
its inline field in the instruction word:

    reg    general register R0-R7                       3 bits
    rm     general operand, 6-bit mode/register field  (may add one extension word)
    frm    FP11 operand: mode 0 selects an accumulator AC0-AC5, other modes as rm
    ac     FP11 accumulator AC0-AC3                      2 bits
    off8   signed word displacement relative to the updated PC (branches)
    off6u  unsigned word displacement, subtracted from the updated PC (SOB)
    immu   unsigned inline number;  imms: inline number accepted in -2^w < v < 2^w, stored mod 2^w

source: where the row comes from; "none" = no independent documentation at hand (only internal
consistency is claimed for these rows; they are listed in the evidence's trusted base).
"""

FORMATS = {
    "NONE": [],
    "DD": [("rm", 0, 6)],
    "R": [("reg", 0, 3)],
    "SS_DD": [("rm", 6, 6), ("rm", 0, 6)],
    "R_DD": [("reg", 6, 3), ("rm", 0, 6)],
    "SS_R": [("rm", 0, 6), ("reg", 6, 3)],
    "R_OFF6": [("reg", 6, 3), ("off6u", 0, 6)],
    "OFF8": [("off8", 0, 8)],
    "N3": [("immu", 0, 3)],
    "N6": [("immu", 0, 6)],
    "N8": [("imms", 0, 8)],
    "FOP": [("frm", 0, 6)],
    "FSRC_AC": [("frm", 0, 6), ("ac", 6, 2)],
    "AC_FDST": [("ac", 6, 2), ("frm", 0, 6)],
    "AC_DST": [("ac", 6, 2), ("rm", 0, 6)],
    "SRC_AC": [("rm", 0, 6), ("ac", 6, 2)],
    "SS@6": [("rm", 6, 6)],
}

ISA = {}


def _add(fmt, source, **rows):
    for name, base in rows.items():
        assert name not in ISA, name
        ISA[name.rstrip("_")] = (base, fmt, source)


HB = "PDP-11 processor handbook"
# ---- no-operand base instructions
_add("NONE", HB, halt=0o000000, wait=0o000001, rti=0o000002, bpt=0o000003, iot=0o000004, reset=0o000005, rtt=0o000006, mfpt=0o000007)
# ---- condition codes: 000240 + (set ? 020 : 0) + N8 Z4 V2 C1
_add("NONE", HB, nop=0o000240,
     clc=0o000241, clv=0o000242, clvc=0o000243, clz=0o000244, clzc=0o000245, clzv=0o000246, clzvc=0o000247,
     cln=0o000250, clnc=0o000251, clnv=0o000252, clnvc=0o000253, clnz=0o000254, clnzc=0o000255, clnzv=0o000256, clnzvc=0o000257, ccc=0o000257,
     sec=0o000261, sev=0o000262, sevc=0o000263, sez=0o000264, sezc=0o000265, sezv=0o000266, sezvc=0o000267,
     sen=0o000270, senc=0o000271, senv=0o000272, senvc=0o000273, senz=0o000274, senzc=0o000275, senzv=0o000276, senzvc=0o000277, scc=0o000277)
# ---- single operand
_add("DD", HB, jmp=0o000100, swab=0o000300,
     clr=0o005000, com=0o005100, inc=0o005200, dec=0o005300, neg=0o005400, adc=0o005500, sbc=0o005600, tst=0o005700,
     ror=0o006000, rol=0o006100, asr=0o006200, asl=0o006300, mfpi=0o006500, mtpi=0o006600, sxt=0o006700,
     csm=0o007000, tstset=0o007200, wrtlck=0o007300,
     clrb=0o105000, comb=0o105100, incb=0o105200, decb=0o105300, negb=0o105400, adcb=0o105500, sbcb=0o105600, tstb=0o105700,
     rorb=0o106000, rolb=0o106100, asrb=0o106200, aslb=0o106300, mtps=0o106400, mfpd=0o106500, mtpd=0o106600, mfps=0o106700)
_add("R", HB, rts=0o000200)
_add("N3", HB, spl=0o000230)
_add("N6", HB, mark=0o006400)
# ---- double operand
_add("SS_DD", HB, mov=0o010000, cmp=0o020000, bit=0o030000, bic=0o040000, bis=0o050000, add=0o060000,
     movb=0o110000, cmpb=0o120000, bitb=0o130000, bicb=0o140000, bisb=0o150000, sub=0o160000)
_add("R_DD", HB, jsr=0o004000, xor=0o074000)
# ---- EIS: 'mul src, reg'
_add("SS_R", HB + " (EIS)", mul=0o070000, div=0o071000, ash=0o072000, ashc=0o073000)
_add("R_OFF6", HB, sob=0o077000)
# ---- FIS
_add("R", HB + " (FIS)", fadd=0o075000, fsub=0o075010, fmul=0o075020, fdiv=0o075030)
# ---- branches
_add("OFF8", HB, br=0o000400, bne=0o001000, beq=0o001400, bge=0o002000, blt=0o002400, bgt=0o003000, ble=0o003400,
     bpl=0o100000, bmi=0o100400, bhi=0o101000, blos=0o101400, bvc=0o102000, bvs=0o102400,
     bcc=0o103000, bhis=0o103000, bcs=0o103400, blo=0o103400)
_add("N8", HB, emt=0o104000, trap=0o104400, sys=0o104400)
# ---- macros / aliases documented by pdpy11 and common PDP-11 assemblers
_add("DD", "alias: mov (sp)+, dst", pop=0o012600)
_add("SS@6", "alias: mov src, -(sp)", push=0o010046)
_add("NONE", "alias: rts pc", ret=0o000207, return_=0o000207)
_add("DD", "alias: jsr pc, dst", call=0o004700)
_add("DD", "alias: jmp dst", callr=0o000100)
_add("NONE", "alias: halt", hlt=0o000000)
# ---- FP11
FP = "FP11 floating-point processor manual"
_add("NONE", FP, cfcc=0o170000, setf=0o170001, seti=0o170002, setd=0o170011, setl=0o170012)
_add("NONE", FP + " (maintenance)", ldub=0o170003, ldsc=0o170004, sta0=0o170005, stb0=0o170006, stq0=0o170007)
_add("NONE", "none", mns=0o170004, msn=0o170004, mpp=0o170005, mrs=0o170006)
_add("DD", FP, ldfps=0o170100, stfps=0o170200, stst=0o170300)
_add("FOP", FP, clrf=0o170400, clrd=0o170400, tstf=0o170500, tstd=0o170500, absf=0o170600, absd=0o170600, negf=0o170700, negd=0o170700)
_add("FSRC_AC", FP, mulf=0o171000, muld=0o171000, modf=0o171400, modd=0o171400, addf=0o172000, addd=0o172000,
     ldf=0o172400, ldd=0o172400, subf=0o173000, subd=0o173000, cmpf=0o173400, cmpd=0o173400,
     divf=0o174400, divd=0o174400, ldcfd=0o177400, ldcdf=0o177400)
_add("AC_FDST", FP, stf=0o174000, std=0o174000, stcfd=0o176000, stcdf=0o176000)
_add("AC_DST", FP, stexp=0o175000, stcfi=0o175400, stcfl=0o175400, stcdi=0o175400, stcdl=0o175400)
_add("SRC_AC", FP, ldexp=0o176400, ldcif=0o177000, ldcid=0o177000, ldclf=0o177000, ldcld=0o177000)
# ---- CIS (commercial instruction set), register and in-line ('i') forms
CIS = "CIS11 opcode list"
_add("NONE", CIS, movc=0o076030, movrc=0o076031, movtc=0o076032, locc=0o076040, skpc=0o076041, scanc=0o076042, spanc=0o076043, cmpc=0o076044, matc=0o076045,
     addn=0o076050, subn=0o076051, cmpn=0o076052, cvtnl=0o076053, cvtpn=0o076054, cvtnp=0o076055, ashn=0o076056, cvtln=0o076057,
     addp=0o076070, subp=0o076071, cmpp=0o076072, cvtpl=0o076073, mulp=0o076074, divp=0o076075, ashp=0o076076, cvtlp=0o076077,
     movci=0o076130, movrci=0o076131, movtci=0o076132, locci=0o076140, skpci=0o076141, scanci=0o076142, spanci=0o076143, cmpci=0o076144, matci=0o076145,
     addni=0o076150, subni=0o076151, cmpni=0o076152, cvtnli=0o076153, cvtpni=0o076154, cvtnpi=0o076155, ashni=0o076156, cvtlni=0o076157,
     addpi=0o076170, subpi=0o076171, cmppi=0o076172, cvtpli=0o076173, mulpi=0o076174, divpi=0o076175, ashpi=0o076176, cvtlpi=0o076177)
_add("R", CIS, l2dr=0o076020, l3dr=0o076060)
# ---- PDP-11/60, 11/74 maintenance and extended function code
_add("NONE", "PDP-11/60 / 11/74 maintenance", med=0o076600, med6x=0o076600, med74c=0o076601)
_add("N6", "PDP-11/60 extended function code", xfc=0o076700)
# ---- KM1801VM1 / VM2 (vendor mnemonics START/STEP/RSEL/MFUS/RCPC/RCPS/MTUS/WCPC/WCPS)
VM = "KM1801VM1/VM2 opcode list"
_add("NONE", VM, start=0o000012, step=0o000016, rd=0o000020, urd=0o000021, rdpc=0o000022, rdps=0o000024, uwr=0o000031, wrpc=0o000032, wrps=0o000034)
# ---- no independent source
_add("R", "none", medlsi=0o000210)
_add("NONE", "none", u3000=0o000220)

# mnemonics that are mere respellings of another one: must have identical records
SYNONYMS = [("bcc", "bhis"), ("bcs", "blo"), ("ccc", "clnzvc"), ("scc", "senzvc"), ("trap", "sys"), ("halt", "hlt"), ("ret", "return"),
            ("jmp", "callr"), ("med", "med6x"), ("mns", "msn"), ("mns", "ldsc"), ("mpp", "sta0"), ("mrs", "stb0"),
            ("clrf", "clrd"), ("tstf", "tstd"), ("absf", "absd"), ("negf", "negd"), ("mulf", "muld"), ("modf", "modd"), ("addf", "addd"),
            ("ldf", "ldd"), ("subf", "subd"), ("cmpf", "cmpd"), ("stf", "std"), ("divf", "divd"), ("stcfi", "stcfl"), ("stcfi", "stcdi"),
            ("stcfi", "stcdl"), ("stcfd", "stcdf"), ("ldcif", "ldcid"), ("ldcif", "ldclf"), ("ldcif", "ldcld"), ("ldcfd", "ldcdf")]

NO_SOURCE = sorted(n for n, (_, _, src) in ISA.items() if src == "none")
assert len(ISA) == 252, len(ISA)


def field_mask(fmt):
    m = 0
    for _kind, shift, width in FORMATS[fmt]:
        m |= ((1 << width) - 1) << shift
    return m


for _n, (_b, _f, _s) in ISA.items():
    assert _b & field_mask(_f) == 0, (_n, oct(_b), _f)
    assert 0 <= _b < 1 << 16
