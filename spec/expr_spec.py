"""Expression semantics as stated by property C05 (independent of pdpy11/operators.py):
unbounded integer arithmetic; '/' and '%' floor toward minus infinity; C-like precedence; left associativity."""

# binding strength, tightest first (C order): unary, multiplicative, additive, shifts, and, xor, or
LEVELS = [["*", "/", "%"], ["+", "-"], ["<<", ">>", "_"], ["&"], ["^"], ["|", "!"]]
INFIX = [op for lvl in LEVELS for op in lvl]
PREFIX = ["+", "-", "~", "^c"]
LEVEL_OF = {op: i for i, lvl in enumerate(LEVELS) for op in lvl}


class ArithmeticError_(Exception):
    pass


def apply_infix(op, a, b):
    if op == "*":
        return a * b
    if op in "/%":
        if b == 0:
            raise ArithmeticError_("division by zero")
        q = a // b          # python: floor
        return q if op == "/" else a - q * b
    if op == "+":
        return a + b
    if op == "-":
        return a - b
    if op == "<<":
        if b < 0:
            raise ArithmeticError_("negative shift")
        return a * 2 ** b
    if op == ">>":
        if b < 0:
            raise ArithmeticError_("negative shift")
        return a // 2 ** b
    if op == "_":          # shift left by b, right by -b
        return a * 2 ** b if b >= 0 else a // 2 ** (-b)
    if op == "&":
        return a & b
    if op == "^":
        return a ^ b
    if op in "|!":
        return a | b
    raise ValueError(op)


def apply_prefix(op, a):
    return {"+": a, "-": -a, "~": -a - 1, "^c": -a - 1}[op]


def evaluate(tokens):
    """tokens: list of ints, infix operator strings, prefix operators as ('pre', op), and nested lists for groups.
    precedence climbing with left associativity"""
    pos = 0

    def primary():
        nonlocal pos
        t = tokens[pos]
        pos += 1
        if isinstance(t, tuple) and t[0] == "pre":
            return apply_prefix(t[1], primary())
        if isinstance(t, list):
            return evaluate(t)
        return t

    def climb(level):
        nonlocal pos
        if level < 0:
            return primary()
        lhs = climb(level - 1)
        while pos < len(tokens) and isinstance(tokens[pos], str) and LEVEL_OF.get(tokens[pos]) == level:
            op = tokens[pos]
            pos += 1
            rhs = climb(level - 1)
            lhs = apply_infix(op, lhs, rhs)
        return lhs
    v = climb(len(LEVELS) - 1)
    assert pos == len(tokens), (pos, tokens)
    return v


def literal_value(text):
    """value of a numeric literal spelling, or None if the spelling is not a number / is an error (bare digits with 8 or 9)"""
    import re
    s = text
    sign = 1
    if s.startswith("-"):
        sign, s = -1, s[1:].lstrip(" ")       # a minus in front of a literal, blanks allowed
    m = re.fullmatch(r"\^([xXoObBdD])([0-9a-fA-F]+)", s)
    if m:
        base = {"x": 16, "o": 8, "b": 2, "d": 10}[m.group(1).lower()]
        digits = m.group(2).lower()
        if any(c not in "0123456789abcdef"[:base] for c in digits):
            return None         # (int() itself would also accept a nested '0b' / '0x' prefix and '_' separators: not digits of this radix)
        return sign * int(digits, base)
    m = re.fullmatch(r"0[xX]([0-9a-fA-F]+)", s)
    if m:
        return sign * int(m.group(1), 16)
    m = re.fullmatch(r"0[oO]([0-7]+)", s)
    if m:
        return sign * int(m.group(1), 8)
    m = re.fullmatch(r"0[bB]([01]+)", s)
    if m:
        return sign * int(m.group(1), 2)
    if re.fullmatch(r"[0-9]+\.", s):
        return sign * int(s[:-1], 10)
    if re.fullmatch(r"[0-7]+", s):
        return sign * int(s, 8)
    return None
